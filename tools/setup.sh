#!/bin/sh
# Offline setup: nothing to build. Verify the tools the checks need are present.
set -e
cd "$(dirname "$0")/.."
java -version 2>&1 | head -1
test -f /opt/veriftools/tla/tla2tools.jar
/venv/bin/python -c "import pytezos, hypothesis, jsonschema, cryptography; print('python deps ok')"
mkdir -p .work evidence replays
echo setup ok
