#!/bin/bash
# run every registered check (tier $1, default quick) on the current tree; prints one line per check
tier=${1:-quick}
cd "$(dirname "$(readlink -f "$0")")/.." && mkdir -p .work
for c in $(/venv/bin/python -c "import json;print(' '.join(x['property_id'] for x in json.load(open('MANIFEST.json'))['checks']))"); do
  start=$(date +%s)
  ./check $c $tier > .work/run_$c.log 2>&1; rc=$?
  echo "$c rc=$rc $(( $(date +%s) - start ))s $(tail -1 .work/run_$c.log | cut -c1-170)"
done
