#!/bin/bash
# usage: tools/eval_seeded.sh <seeded dir with patch.diff + demo.py> <property id> [more property ids...]
# Evaluates a seeded change on a scratch copy of /repo/src (shadowing the editable install through PYTHONPATH):
#  1. patch applies  2. repository suite still matches the baseline  3. demo fails with / passes without the change
#  4. runs ./check <id> quick for each given property and reports whether a VIOLATION was raised.
d="$(readlink -f "$1")"; shift
S=/var/tmp/seedeval.$$; rm -rf $S; mkdir -p $S
rsync -a --exclude __pycache__ /repo/src $S/
( cd $S && patch -p1 -s < "$d/patch.diff" ) || { echo "RESULT patch_applies=no"; rm -rf $S; exit 3; }
echo "patch applies"
# demo
PYTHONPATH=/repo/src /venv/bin/python "$d/demo.py" >/dev/null 2>&1; clean=$?
PYTHONPATH=$S/src /venv/bin/python "$d/demo.py" > $S/demo.out 2>&1; mut=$?
echo "demo exit: unmodified=$clean patched=$mut"; tail -3 $S/demo.out
# repo tests
( cd /repo && PYTHONPATH=$S/src /venv/bin/python -m pytest -q -p no:cacheprovider -n 12 --timeout=900 --continue-on-collection-errors --junitxml=$S/j.xml tests/unit_tests tests/contract_tests tests/integration_tests >/dev/null 2>&1 )
/venv/bin/python - $S/j.xml <<'P'
import json, sys, xml.etree.ElementTree as ET
b = set(json.load(open('/root/.vp/BASELINE.json'))['stable_pass'])
ok = set()
for tc in ET.parse(sys.argv[1]).getroot().iter('testcase'):
    if not any(ch.tag in ('failure', 'error', 'skipped') for ch in tc):
        ok.add(tc.get('classname') + '::' + tc.get('name'))
miss = sorted(b - ok)
print('repo tests: baseline %d, passing with the change %d, missing %d' % (len(b), len(b & ok), len(miss)))
for m in miss[:5]: print('  MISSING', m)
P
for id in "$@"; do
  out=$(cd /verif && PYTHONPATH=$S/src VERIF_KEEP= ./check $id quick 2>&1); rc=$?
  echo "check $id quick: exit=$rc"
  echo "$out" | grep -A1 "^VIOLATION" | grep "signature" | head -5
  echo "$out" | tail -1 | cut -c1-200
done
rm -rf $S
