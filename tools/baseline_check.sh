#!/bin/sh
# Run the repository's suite (guard off) and compare against BASELINE.json stable_pass. Uses xdist for speed.
cd /repo
env -u PYTEZOS_VERIF_TRACE /venv/bin/python -m pytest -q -p no:cacheprovider -n ${N:-16} --timeout=900 --continue-on-collection-errors --junitxml=/tmp/baseline_off.junit.xml tests/unit_tests tests/contract_tests tests/integration_tests >/tmp/baseline_off.log 2>&1
/venv/bin/python - <<'P'
import json, xml.etree.ElementTree as ET
b = set(json.load(open('/root/.vp/BASELINE.json'))['stable_pass'])
ok = set()
for tc in ET.parse('/tmp/baseline_off.junit.xml').getroot().iter('testcase'):
    if not any(ch.tag in ('failure', 'error', 'skipped') for ch in tc):
        ok.add(tc.get('classname') + '::' + tc.get('name'))
miss = sorted(b - ok)
print('baseline stable_pass:', len(b), 'passing now:', len(b & ok), 'missing:', len(miss))
for m in miss[:40]:
    print('  MISSING', m)
raise SystemExit(1 if miss else 0)
P
