#!/venv/bin/python
"""Regenerate MANIFEST.json from the META blocks of harness/vf/props/*.py."""
import importlib, json, os, sys
ROOT = os.path.dirname(os.path.dirname(os.path.abspath(__file__)))
sys.path.insert(0, os.path.join(ROOT, 'harness'))
ids = [json.loads(l)['id'] for l in open(os.path.join(ROOT, 'properties.jsonl'))]
NA = json.load(open(os.path.join(ROOT, 'tools', 'not_applicable.json')))
READY = set(json.load(open(os.path.join(ROOT, 'tools', 'ready.json'))))
HOOK_COMMITS = json.load(open(os.path.join(ROOT, 'tools', 'hook_commits.json')))
checks, na, engines = [], [], {}
for i in ids:
    p = os.path.join(ROOT, 'harness', 'vf', 'props', i + '.py')
    if not os.path.exists(p) or i not in READY or i in NA.get('force', {}):
        na.append({'property_id': i, 'reason': NA.get('force', {}).get(i) or NA.get('reasons', {}).get(i) or 'not built yet: no TLA+ specification and conformance harness exists for this property in this tree'})
        continue
    m = importlib.import_module('vf.props.' + i).META
    checks.append({
        'property_id': i,
        'quick_cmd': './check %s quick' % i,
        'thorough_cmd': './check %s thorough' % i,
        'evidence_file': '/verif/evidence/%s.json' % i,
        'replay_cmd_template': './check %s --replay {path}' % i,
        'engine': m.get('engine', 'tlc+replay'),
        'level_claimed': {'category': m['category'], 'text': m['text'], 'design_ref': m['design_ref']},
        'level_note': m['note'],
        'technique': m['technique'],
    })
man = {
    'version': 1,
    'setup_cmd': './tools/setup.sh',
    'hooks': {
        'guard': 'PYTEZOS_VERIF_TRACE',
        'enable': 'environment variable PYTEZOS_VERIF_TRACE=<ndjson path> set by the checks before importing pytezos (pytezos is installed editable from /repo, nothing is built)',
        'baseline_off_cmd': 'cd /repo && env -u PYTEZOS_VERIF_TRACE /venv/bin/python -m pytest -ra -q -p no:cacheprovider --timeout=900 --continue-on-collection-errors --junitxml=/tmp/baseline_off.junit.xml',
        'source_commits': HOOK_COMMITS,
        'add_only': True,
    },
    'engines': [
        {'name': 'tlc+replay', 'path': '/verif/check', 'serves_properties': [c['property_id'] for c in checks],
         'kind_free_text': 'explicit TLA+ specifications in /verif/spec checked by TLC; TLC dumps/simulations replayed into pytezos; recorded pytezos executions validated by TLC trace specs'},
    ],
    'checks': checks,
    'not_applicable': na,
    'notes': ('See DESIGN.md (section 11 is the build record). known_findings.json lists genuine defects that are recorded rather than repaired, and the repaired ones as "fixed:" lines. '
              'Beyond the 33 listed properties the specification covers six more parts of pytezos (DESIGN 11.7); their checks are run the same way and are not claims about listed properties: '
              './check X01 .. X06 quick|thorough (wait_blocks, wait_operations, RPC path algebra, operation receipts, contract-run lifecycle, sandbox baking). '
              'seeded/ holds the independently seeded changes the checks were evaluated against (DESIGN 11.5).'),
}
json.dump(man, open(os.path.join(ROOT, 'MANIFEST.json'), 'w'), indent=1)
print('checks:', len(checks), 'not_applicable:', len(na))
