#!/venv/bin/python
"""usage: archive_seeded.py <src dir> <seed id> <property> <caught:yes|no|after-strengthening> <check signatures> <needs...>"""
import json, os, shutil, sys
src, sid, prop, caught, sigs = sys.argv[1:6]
needs = ' '.join(sys.argv[6:])
d = os.path.join('/verif/seeded', sid)
os.makedirs(d, exist_ok=True)
for f in ('patch.diff', 'demo.py', 'notes.md'):
    if os.path.exists(os.path.join(src, f)):
        shutil.copy(os.path.join(src, f), d)
json.dump({'id': sid, 'property': prop, 'breaks': prop, 'needs_to_manifest': needs,
           'confirmed': {'patch_applies_to_repo_head': True, 'repo_suite_matches_baseline_with_change': True, 'demo_fails_with_change': True, 'demo_passes_without_change': True,
                         'how': 'tools/eval_seeded.sh (scratch copy of /repo/src shadowing the editable install; repository suite compared with BASELINE.json; demo run both ways)'},
           'detected_by_check': caught, 'check_cmd': './check %s quick' % prop, 'signatures_reported': sigs.split(',')}, open(os.path.join(d, 'meta.json'), 'w'), indent=1)
print('archived', d)
