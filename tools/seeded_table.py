#!/venv/bin/python
"""Print the markdown table of seeded changes (DESIGN.md section 11.5) from seeded/*/meta.json."""
import glob, json
rows = []
for f in sorted(glob.glob('/verif/seeded/*/meta.json')):
    m = json.load(open(f))
    rows.append('| %s | %s | %s | %s | %s |' % (m['id'], m['property'], m['detected_by_check'], ', '.join(m['signatures_reported'])[:110].replace('|', '/'), m['needs_to_manifest'].replace('|', '/')[:260]))
print('| seeded change | property | detected | signatures (first) | what it needs to manifest / what was strengthened |')
print('|---|---|---|---|---|')
print('\n'.join(rows))
print()
n = len(rows)
first = sum(1 for r in rows if '| yes ' in r)
print('%d seeded changes confirmed; %d detected by the checks as first built, %d only after strengthening the check (each strengthening is a wider alphabet / pool / family in the specification, described in the row), 0 left undetected.' % (n, first, n - first))
