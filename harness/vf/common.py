"""Shared run context: accumulates TLC statistics, implementation comparisons, mismatches,
matches them against known_findings.json, writes evidence and replay files, sets exit code."""
import hashlib, json, os, sys, time, traceback

from . import tlc as _tlc
from .tlaparse import to_json

ROOT = _tlc.ROOT
REPO = os.environ.get('VERIF_REPO', '/repo')


class Mismatch:
    def __init__(self, signature, detail, case=None):
        self.signature = signature   # stable class of the disagreement (call site + input class + observation class)
        self.detail = detail         # human readable
        self.case = case             # JSON-able replay case


class Ctx:
    def __init__(self, prop, tier, seed):
        self.prop, self.tier, self.seed = prop, tier, seed
        self.wd = _tlc.clean(prop) if not os.environ.get('VERIF_KEEP') else _tlc.workdir(prop)
        self.t0 = time.time()
        self.states = 0
        self.transitions = 0
        self.tlc_runs = []
        self.replayed = 0            # spec behaviours replayed in the implementation (Leg B)
        self.traces = 0              # implementation traces accepted by TLC (Leg C)
        self.evaluations = 0
        self.nontrivial = set()
        self.samples = []
        self.mismatches = []
        self.notes = []
        self.skipped = {}
        self.extra = {}
        self.exhaustive = None
        self.rule = ''
        self.assumptions = []
        self.quick = tier == 'quick'
        self._second = False
        self._again, self._again_n, self._again_stride, self._again_cap = [], 0, 1, 600

    # ---- TLC ----
    def tlc(self, module, cfg, **kw):
        r = _tlc.run(module, cfg, self.wd, **kw)
        self.states += r.distinct
        self.transitions += r.generated
        d = r.as_dict()
        d['module'] = module
        d['name'] = kw.get('name') or module
        self.tlc_runs.append(d)
        return r

    def require_no_violation(self, r, what):
        """Leg A: the specification itself must satisfy its invariants."""
        if r.violation:
            self.mismatch('spec:' + what + ':' + str(r.violation),
                          'TLC: %s violated in %s\n%s' % (r.violation, what, r.output[-1500:]),
                          {'leg': 'A', 'what': what})

    def require_coverage(self, r, actions):
        missing = [a for a in actions if r.coverage.get(a, (0, 0))[1] == 0]
        if missing:
            raise _tlc.MachineryError('vacuity: actions never taken: %s' % missing)

    # ---- bookkeeping ----
    def count(self, key=None, nontrivial=True):
        self.evaluations += 1
        if key is not None and nontrivial:
            if len(self.nontrivial) < 2_000_000:
                self.nontrivial.add(hashlib.blake2b(repr(key).encode(), digest_size=8).digest())

    def sample(self, s, limit=6):
        if len(self.samples) < limit:
            self.samples.append(to_json(s))

    def skip(self, why, n=1):
        self.skipped[why] = self.skipped.get(why, 0) + n

    def mismatch(self, signature, detail, case=None):
        if self._second:
            if any(m.signature == signature for m in self.mismatches):
                return           # already reported by the first pass
            detail = '[second pass: the same cases evaluated once more, in reverse order] ' + detail
        self.mismatches.append(Mismatch(signature, detail, case))

    # ---- second pass: an observation must not depend on what was evaluated before it ----
    def again(self, fn, *a, **k):
        """remember a case (a call of the check's own comparison function) for the second pass; the store decimates itself"""
        self._again_n += 1
        if self._again_n % self._again_stride:
            return
        self._again.append((fn, a, k))
        if len(self._again) >= 2 * self._again_cap:
            self._again = self._again[::2]
            self._again_stride *= 2

    def second_pass(self):
        """Evaluate the remembered cases once more in reverse order (process-wide caches, memoised results keyed too coarsely and
        state left behind by earlier cases show up here); counts are not touched."""
        saved = (self.evaluations, self.replayed, set(self.nontrivial), dict(self.skipped), list(self.samples))
        self._second = True
        try:
            for fn, a, k in reversed(self._again):
                fn(*a, **k)
        finally:
            self._second = False
        n = len(self._again)
        self.evaluations, self.replayed, self.nontrivial, self.skipped, self.samples = saved
        self.extra['second_pass_in_reverse_order'] = self.extra.get('second_pass_in_reverse_order', 0) + n
        self._again = []
        return n

    # ---- finish ----
    def finish(self, level='model_checking'):
        kf_path = os.path.join(ROOT, 'known_findings.json')
        kf = json.load(open(kf_path)) if os.path.exists(kf_path) else {'findings': []}
        known = {f['signature']: f for f in kf.get('findings', []) if f['property'] == self.prop}
        seen_known = {}
        violations = {}
        for m in self.mismatches:
            if m.signature in known:
                seen_known.setdefault(m.signature, []).append(m)
            else:
                violations.setdefault(m.signature, []).append(m)
        for sig, ms in seen_known.items():
            print('KNOWN-FINDING: property=%s %s [%s; %d occurrence(s) this run]' % (self.prop, known[sig]['what'], sig, len(ms)))
        rdir = os.path.join(ROOT, 'replays')
        os.makedirs(rdir, exist_ok=True)
        for sig, ms in violations.items():
            m = ms[0]
            h = hashlib.blake2b(sig.encode(), digest_size=5).hexdigest()
            path = os.path.join(rdir, '%s-%s.json' % (self.prop, h))
            with open(path, 'w') as f:
                json.dump({'property': self.prop, 'signature': sig, 'detail': m.detail, 'occurrences': len(ms),
                           'case': to_json(m.case), 'tier': self.tier, 'seed': self.seed}, f, indent=1, default=str)
            print('VIOLATION property=%s replay=%s' % (self.prop, path))
            print('  signature: %s (%d occurrence(s))' % (sig, len(ms)))
            print('  ' + m.detail.replace('\n', '\n  ')[:1500])
        wall = time.time() - self.t0
        cov = {
            'states': self.states, 'transitions': self.transitions,
            'traces_validated_against_impl': self.replayed + self.traces,
            'spec_behaviours_replayed_in_impl': self.replayed,
            'impl_traces_accepted_by_tlc': self.traces,
            'samples': self.samples or ['(none)'],
            'evaluations': self.evaluations, 'distinct_nontrivial': len(self.nontrivial),
            'rule': self.rule, 'tlc_runs': self.tlc_runs, 'skipped': self.skipped,
            'known_findings_reproduced': sorted(seen_known), 'notes': self.notes,
        }
        if self.exhaustive is not None:
            cov['exhaustive'] = self.exhaustive
        cov.update(self.extra)
        ev = {'property_id': self.prop, 'tier': self.tier, 'seed': self.seed, 'level': level, 'coverage': cov,
              'assumptions': self.assumptions, 'wall_s': round(wall, 2), 'violations': len(violations)}
        os.makedirs(os.path.join(ROOT, 'evidence'), exist_ok=True)
        with open(os.path.join(ROOT, 'evidence', self.prop + '.json'), 'w') as f:
            json.dump(ev, f, indent=1, default=str)
        print('%s %s: states=%d transitions=%d replayed=%d traces=%d evals=%d nontrivial=%d known=%d violations=%d wall=%.1fs' % (
            self.prop, self.tier, self.states, self.transitions, self.replayed, self.traces, self.evaluations,
            len(self.nontrivial), len(seen_known), len(violations), wall))
        return 1 if violations else 0
