"""Spec terms (tag-first tuples, see spec/MichSem.tla) <-> Micheline JSON.

`*_json` functions concretise model terms for pytezos; `p*` functions project what pytezos
produced back into the model's vocabulary.  Both are shared by Leg B and Leg C and are part
of the trusted base.  Independent of pytezos (base58 via b58.py, hashes via hashlib)."""
import calendar, hashlib, re

from . import b58

LIM = 2 ** 30


class Unsup(Exception):
    """value/type/instruction outside the modelled subset"""


# ---------------------------------------------------------------- spec -> Micheline
def type_json(t):
    k = t[0]
    if k in ('pair', 'or', 'map', 'big_map', 'lambda'):
        return {'prim': k, 'args': [type_json(t[1]), type_json(t[2])]}
    if k in ('option', 'list', 'set', 'ticket', 'contract'):
        return {'prim': k, 'args': [type_json(t[1])]}
    return {'prim': k}


def interpret_hash(alg, data):
    data = bytes(data)
    if alg == 'BLAKE2B':
        return hashlib.blake2b(data, digest_size=32).digest()
    if alg == 'SHA256':
        return hashlib.sha256(data).digest()
    if alg == 'SHA512':
        return hashlib.sha512(data).digest()
    if alg == 'SHA3':
        return hashlib.sha3_256(data).digest()
    if alg == 'KECCAK':
        return keccak256(data)
    raise Unsup('hash ' + alg)


_RC = [0x0000000000000001, 0x0000000000008082, 0x800000000000808A, 0x8000000080008000, 0x000000000000808B, 0x0000000080000001, 0x8000000080008081, 0x8000000000008009,
       0x000000000000008A, 0x0000000000000088, 0x0000000080008009, 0x000000008000000A, 0x000000008000808B, 0x800000000000008B, 0x8000000000008089, 0x8000000000008003,
       0x8000000000008002, 0x8000000000000080, 0x000000000000800A, 0x800000008000000A, 0x8000000080008081, 0x8000000000008080, 0x0000000080000001, 0x8000000080008008]
_ROT = [[0, 36, 3, 41, 18], [1, 44, 10, 45, 2], [62, 6, 43, 15, 61], [28, 55, 25, 21, 56], [27, 20, 39, 8, 14]]
_M64 = (1 << 64) - 1


def _keccak_f(a):
    rol = lambda x, n: ((x << n) | (x >> (64 - n))) & _M64 if n else x
    for rc in _RC:
        c = [a[x][0] ^ a[x][1] ^ a[x][2] ^ a[x][3] ^ a[x][4] for x in range(5)]
        d = [c[(x - 1) % 5] ^ rol(c[(x + 1) % 5], 1) for x in range(5)]
        a = [[a[x][y] ^ d[x] for y in range(5)] for x in range(5)]
        b = [[0] * 5 for _ in range(5)]
        for x in range(5):
            for y in range(5):
                b[y][(2 * x + 3 * y) % 5] = rol(a[x][y], _ROT[x][y])
        a = [[b[x][y] ^ ((~b[(x + 1) % 5][y]) & b[(x + 2) % 5][y]) for y in range(5)] for x in range(5)]
        a[0][0] ^= rc
    return a


def sponge256(data, suffix):
    """Keccak[c=512] sponge with 32-byte output; suffix 0x06 = SHA3-256, 0x01 = the original Keccak-256 (Michelson KECCAK).
    Written from the Keccak reference; the SHA3 instance is compared with hashlib on every import."""
    rate = 136
    p = bytearray(data)
    p.append(suffix)
    while len(p) % rate:
        p.append(0)
    p[-1] |= 0x80
    a = [[0] * 5 for _ in range(5)]
    for off in range(0, len(p), rate):
        for k in range(rate // 8):
            a[k % 5][k // 5] ^= int.from_bytes(p[off + 8 * k: off + 8 * k + 8], 'little')
        a = _keccak_f(a)
    return b''.join(a[k % 5][k // 5].to_bytes(8, 'little') for k in range(4))


def keccak256(data):
    return sponge256(data, 0x01)


for _n in (0, 1, 135, 136, 137, 300):
    assert sponge256(bytes(range(256)) * 2 + b'x' * 50, 0x06) == hashlib.sha3_256(bytes(range(256)) * 2 + b'x' * 50).digest()
    assert sponge256(b'k' * _n, 0x06) == hashlib.sha3_256(b'k' * _n).digest(), 'own sponge disagrees with hashlib'
assert keccak256(b'').hex() == 'c5d2460186f7233c927e7db2dcc703c0e500b653ca82273b7bfad8045d85a470'


def bytes_of(v):
    """payload of an <<"s"|"b"|"o", seq>> value or of a symbolic digest <<"h", alg, value>>"""
    if v[0] == 'h':
        return interpret_hash(v[1], bytes_of(v[2]))
    return bytes(v[1])


def value_json(t, v, mode='readable'):
    k = t[0]
    if k in ('int', 'nat', 'mutez'):
        return {'int': str(v[1])}
    if k == 'timestamp':
        return {'int': str(v[1])}
    if k == 'string':
        return {'string': bytes_of(v).decode('latin-1')}
    if k == 'bytes':
        return {'bytes': bytes_of(v).hex()}
    if k == 'bool':
        return {'prim': 'True' if v[1] else 'False'}
    if k == 'unit':
        return {'prim': 'Unit'}
    if k == 'pair':
        return {'prim': 'Pair', 'args': [value_json(t[1], v[1], mode), value_json(t[2], v[2], mode)]}
    if k == 'option':
        return {'prim': 'None'} if v[0] == 'none' else {'prim': 'Some', 'args': [value_json(t[1], v[1], mode)]}
    if k == 'or':
        return {'prim': 'Left', 'args': [value_json(t[1], v[1], mode)]} if v[0] == 'l' else {'prim': 'Right', 'args': [value_json(t[2], v[1], mode)]}
    if k in ('list', 'set'):
        return [value_json(t[1], x, mode) for x in v[1]]
    if k in ('map', 'big_map'):
        return [{'prim': 'Elt', 'args': [value_json(t[1], e[0], mode), value_json(t[2], e[1], mode)]} for e in v[1]]
    if k == 'lambda':
        if v[0] == 'lamrec':
            return {'prim': 'Lambda_rec', 'args': [[instr_json(i) for i in v[1]]]}
        return [instr_json(i) for i in v[1]]
    if k == 'address':
        if mode != 'readable':      # optimized forms: the 22 address bytes followed by the entrypoint name
            return {'bytes': (bytes(v[1]) + bytes(v[2])).hex()}
        s = b58.address_from_bytes(v[1])
        ep = bytes(v[2]).decode()
        return {'string': s + ('%' + ep if ep else '')}
    if k == 'key_hash':
        return {'string': b58.key_hash_from_bytes(v[1])}
    if k == 'key':
        return {'string': b58.key_from_bytes(v[1])}
    if k == 'signature':
        return {'string': b58.sig_from_bytes(v[1])}
    if k == 'chain_id':
        return {'string': b58.chain_from_bytes(v[1])}
    if k == 'ticket':       # <<"t", ticketer, contents, amount>>: a ticket that arrives from outside (parameter / storage) is written as the comb
        return {'prim': 'Pair', 'args': [value_json(('address',), v[1], mode), {'prim': 'Pair', 'args': [value_json(t[1], v[2], mode), {'int': str(v[3][1] if isinstance(v[3], tuple) else v[3])}]}]}
    raise Unsup('value_json ' + k)


ZERO = {'DROP': 1, 'DUP': 1, 'PAIR': 2, 'UNPAIR': 2}


def instr_json(i):
    op = i[0]
    body = lambda b: [instr_json(x) for x in b]
    if op == 'PUSH':
        return {'prim': 'PUSH', 'args': [type_json(i[1]), value_json(i[1], i[2])]}
    if op in ('DROP', 'DUP', 'PAIR', 'UNPAIR'):
        return {'prim': op} if i[1] == ZERO[op] else {'prim': op, 'args': [{'int': str(i[1])}]}
    if op in ('DIG', 'DUG'):
        return {'prim': op, 'args': [{'int': str(i[1])}]}
    if op == 'DIP':
        return {'prim': 'DIP', 'args': [body(i[2])]} if i[1] == 1 else {'prim': 'DIP', 'args': [{'int': str(i[1])}, body(i[2])]}
    if op in ('GET', 'UPDATE'):
        return {'prim': op, 'args': [{'int': str(i[1])}]}
    if op == 'GETK':
        return {'prim': 'GET'}
    if op == 'UPDATEK':
        return {'prim': 'UPDATE'}
    if op in ('LEFT', 'RIGHT', 'NONE', 'NIL', 'EMPTY_SET', 'CAST'):
        return {'prim': op, 'args': [type_json(i[1])]}
    if op in ('EMPTY_MAP', 'EMPTY_BIG_MAP'):
        return {'prim': op, 'args': [type_json(i[1]), type_json(i[2])]}
    if op in ('IF', 'IF_NONE', 'IF_LEFT', 'IF_CONS'):
        return {'prim': op, 'args': [body(i[1]), body(i[2])]}
    if op in ('LOOP', 'LOOP_LEFT', 'MAP', 'ITER'):
        return {'prim': op, 'args': [body(i[1])]}
    if op in ('LAMBDA', 'LAMBDA_REC'):
        return {'prim': op, 'args': [type_json(i[1]), type_json(i[2]), body(i[3])]}
    if op == 'SEQ':
        return body(i[1])
    if len(i) == 1:
        return {'prim': op}
    raise Unsup('instr_json ' + op)


# ---------------------------------------------------------------- Micheline -> spec
SKIP_TYPES = {'sapling_state', 'sapling_transaction', 'sapling_transaction_deprecated', 'bls12_381_fr', 'bls12_381_g1', 'bls12_381_g2',
              'chest', 'chest_key', 'tx_rollup_l2_address'}


def ptype(t):
    if not isinstance(t, dict) or 'prim' not in t:
        raise Unsup('type?')
    prim = t['prim']
    args = t.get('args', [])
    if prim in SKIP_TYPES:
        raise Unsup('type ' + prim)
    if prim == 'pair':
        a = [ptype(x) for x in args]
        while len(a) > 2:
            a = a[:-2] + [('pair', a[-2], a[-1])]
        return ('pair', a[0], a[1])
    return (prim,) + tuple(ptype(x) for x in args)


def ts_value(s):
    m = re.match(r'(\d+)-(\d+)-(\d+)T(\d+):(\d+):(\d+)Z$', s)
    if not m:
        return int(s)
    y, mo, d, h, mi, se = map(int, m.groups())
    return calendar.timegm((y, mo, d, h, mi, se))


def num(x):
    n = int(x)
    if abs(n) >= LIM:
        raise Unsup('bigint')
    return n


def pval(t, v):
    k = t[0]
    if isinstance(v, dict) and '_unrepr' in v:
        raise Unsup('unrepr')
    if k in ('int', 'nat', 'mutez'):
        return ('i', num(v['int']))
    if k == 'timestamp':
        return ('i', num(v['int']) if 'int' in v else num(ts_value(v['string'])))
    if k == 'string':
        return ('s', tuple(v['string'].encode('latin-1')))
    if k == 'bytes':
        return ('b', tuple(bytes.fromhex(v['bytes'])))
    if k == 'bool':
        return ('bool', v['prim'] == 'True')
    if k == 'unit':
        return ('unit',)
    if k == 'pair':
        args = v if isinstance(v, list) else v['args']
        if len(args) > 2:
            return ('p', pval(t[1], args[0]), pval(t[2], list(args[1:])))
        return ('p', pval(t[1], args[0]), pval(t[2], args[1]))
    if k == 'option':
        return ('none',) if v['prim'] == 'None' else ('some', pval(t[1], v['args'][0]))
    if k == 'or':
        return ('l', pval(t[1], v['args'][0])) if v['prim'] == 'Left' else ('r', pval(t[2], v['args'][0]))
    if k in ('list', 'set'):
        return (k, tuple(pval(t[1], x) for x in v))
    if k == 'map':
        return ('map', tuple((pval(t[1], e['args'][0]), pval(t[2], e['args'][1])) for e in v))
    if k == 'big_map':
        if isinstance(v, list):
            return ('map', tuple((pval(t[1], e['args'][0]), pval(t[2], e['args'][1])) for e in v))
        raise Unsup('big_map pointer')
    if k == 'lambda':
        if isinstance(v, dict) and v.get('prim') == 'Lambda_rec':
            return ('lamrec', tuple(pinstr(x) for x in v['args'][0]))
        return ('lam', tuple(pinstr(x) for x in v))
    if k == 'ticket':
        a = v['args'] if isinstance(v, dict) else v
        if len(a) == 2:
            a = [a[0]] + list(a[1]['args'])
        return ('t', pval(('address',), a[0]), pval(t[1], a[1]), num(a[2]['int']))
    if k == 'address':
        if 'bytes' in v:
            raw = bytes.fromhex(v['bytes'])
            return ('a', tuple(raw[:22]), tuple(raw[22:]))
        s = v['string']
        addr, sep, ep = s.partition('%')
        if sep and not ep:
            raise Unsup('address with an explicit empty entrypoint (protocol-dependent normalisation)')
        return ('a', tuple(b58.address_to_bytes(addr)), tuple(ep.encode()))
    if k == 'key_hash':
        return ('o', tuple(bytes.fromhex(v['bytes']) if 'bytes' in v else b58.key_hash_to_bytes(v['string'])))
    if k == 'key':
        return ('o', tuple(bytes.fromhex(v['bytes']) if 'bytes' in v else b58.key_to_bytes(v['string'])))
    if k == 'signature':
        return ('o', tuple(bytes.fromhex(v['bytes']) if 'bytes' in v else b58.sig_to_bytes(v['string'])))
    if k == 'chain_id':
        return ('o', tuple(bytes.fromhex(v['bytes']) if 'bytes' in v else b58.chain_to_bytes(v['string'])))
    raise Unsup('value of ' + k)


NOARG = {'SWAP', 'RENAME', 'UNIT', 'CAR', 'CDR', 'SOME', 'CONS', 'FAILWITH', 'EXEC', 'APPLY', 'COMPARE', 'EQ', 'NEQ', 'LT', 'GT', 'LE', 'GE',
         'ADD', 'SUB', 'SUB_MUTEZ', 'MUL', 'NEG', 'ABS', 'INT', 'ISNAT', 'EDIV', 'LSL', 'LSR', 'AND', 'OR', 'XOR', 'NOT', 'SIZE', 'CONCAT',
         'SLICE', 'MEM', 'GET_AND_UPDATE', 'NEVER', 'AMOUNT', 'BALANCE', 'SENDER', 'SOURCE', 'SELF_ADDRESS', 'NOW', 'LEVEL',
         'TOTAL_VOTING_POWER', 'MIN_BLOCK_TIME', 'CHAIN_ID', 'BLAKE2B', 'SHA256', 'SHA512', 'SHA3', 'KECCAK', 'TICKET', 'READ_TICKET',
         'SPLIT_TICKET', 'JOIN_TICKETS'}


def pinstr(i):
    if isinstance(i, list):
        return ('SEQ', tuple(pinstr(x) for x in i))
    p = i['prim']
    a = i.get('args', [])
    n = lambda x: int(x['int'])
    body = lambda x: tuple(pinstr(y) for y in x)
    if p == 'PUSH':
        t = ptype(a[0])
        return ('PUSH', t, pval(t, a[1]))
    if p in ('DROP', 'DUP'):
        return (p, n(a[0]) if a else 1)
    if p in ('DIG', 'DUG'):
        return (p, n(a[0]))
    if p in ('PAIR', 'UNPAIR'):
        return (p, n(a[0]) if a else 2)
    if p == 'DIP':
        return ('DIP', n(a[0]), body(a[1])) if len(a) == 2 else ('DIP', 1, body(a[0]))
    if p == 'GET':
        return ('GET', n(a[0])) if a else ('GETK',)
    if p == 'UPDATE':
        return ('UPDATE', n(a[0])) if a else ('UPDATEK',)
    if p in ('LEFT', 'RIGHT', 'NONE', 'NIL', 'EMPTY_SET', 'CAST'):
        return (p, ptype(a[0]))
    if p in ('EMPTY_MAP', 'EMPTY_BIG_MAP'):
        return (p, ptype(a[0]), ptype(a[1]))
    if p in ('IF', 'IF_NONE', 'IF_LEFT', 'IF_CONS'):
        return (p, body(a[0]), body(a[1]))
    if p in ('LOOP', 'LOOP_LEFT', 'MAP', 'ITER'):
        return (p, body(a[0]))
    if p in ('LAMBDA', 'LAMBDA_REC'):
        return (p, ptype(a[0]), ptype(a[1]), body(a[2]))
    if p in NOARG and not a:
        return (p,)
    raise Unsup('instr ' + p)


def strip_annots(x):
    if isinstance(x, list):
        return [strip_annots(y) for y in x]
    if isinstance(x, dict):
        return {k: strip_annots(v) for k, v in x.items() if k != 'annots'}
    return x


def pstack(st):
    out = []
    for t, v in st:
        tt = ptype(strip_annots(t))
        out.append((tt, pval(tt, v)))
    return tuple(out)
