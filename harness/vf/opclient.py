"""Driving the real pytezos operation client against `FakeNode` (shared by C25, C24, C23).

Nothing of pytezos is patched: a client is `pytezos.using(shell=ShellQuery(FakeNode), key=Key)`, groups are built,
filled, signed and injected through the public methods, and everything is observed at the fake node (binary
payloads) or in the returned objects.
"""
import hashlib

from .fakenode import FakeNode, b58check

DEST = 'tz1VSUr8wwNhLAzempoch5d6hLRiTh8Cjcjb'
CURVES = {'tz1': b'ed', 'tz2': b'sp', 'tz3': b'p2', 'tz4': b'BL'}
# a tiny contract (parameter unit; storage unit; code {CDR; NIL operation; PAIR})
SCRIPT = {'code': [{'prim': 'parameter', 'args': [{'prim': 'unit'}]}, {'prim': 'storage', 'args': [{'prim': 'unit'}]},
                   {'prim': 'code', 'args': [[{'prim': 'CDR'}, {'prim': 'NIL', 'args': [{'prim': 'operation'}]}, {'prim': 'PAIR'}]]}],
          'storage': {'prim': 'Unit'}}
SCRIPT_BIG = {'code': [SCRIPT['code'][0], SCRIPT['code'][1],
                       {'prim': 'code', 'args': [[x for _ in range(100) for x in ({'prim': 'DUP'}, {'prim': 'DROP'})] + SCRIPT['code'][2]['args'][0]]}],
              'storage': {'prim': 'Unit'}}
_keys = {}


def make_key(kind, n=0):
    """Deterministic key of the given address kind (tz1..tz4) from a fixed seed."""
    from pytezos.crypto.key import Key
    if (kind, n) in _keys:
        return _keys[(kind, n)]
    seed = hashlib.blake2b(b'vf key %s %d' % (kind.encode(), n), digest_size=32).digest()
    if kind == 'tz1':
        k = Key.from_secret_exponent(seed, curve=b'ed')
    elif kind == 'tz4':
        r = 0x73eda753299d7d483339d80809a1d80553bda402fffe5bfeffffffff00000001
        k = Key.from_secret_exponent(((int.from_bytes(seed, 'big') % (r - 1)) + 1).to_bytes(32, 'little'), curve=b'BL')
    else:
        k = Key.from_secret_exponent(seed, curve=CURVES[kind])
    _keys[(kind, n)] = k
    return k


def fresh_key(kind, n=0):
    """a new Key object (not the shared one) with the secret of make_key(kind, n)"""
    from pytezos.crypto.key import Key
    k0 = make_key(kind, n)
    return Key.from_encoded_key(k0.secret_key())


def make_client(key, **node_kw):
    from pytezos import pytezos
    from pytezos.rpc import ShellQuery
    node = FakeNode(key.public_key_hash(), **node_kw)
    return pytezos.using(shell=ShellQuery(node), key=key), node


def add_content(g, kind, j=0, dest=DEST):
    """g.<kind>(...) with every field the client can choose left to the client."""
    if kind == 'transaction':
        return g.transaction(destination=dest, amount=1 + j)
    if kind == 'transaction_kt':
        return g.transaction(destination=b58check(bytes([2, 90, 121]), bytes(range(20))), amount=1 + j)
    if kind == 'delegation':
        return g.delegation()
    if kind == 'reveal':
        return g.reveal()
    if kind == 'origination':
        return g.origination(script=SCRIPT, balance=j)
    if kind == 'smart_rollup_add_messages':
        return g.smart_rollup_add_messages(message=[bytes([1, j]), b''])
    if kind == 'origination_big':
        return g.origination(script=SCRIPT_BIG, balance=j)
    raise ValueError(kind)


class Session:
    """One client call history.  Groups are numbered like in OpClient.tla (built and filled objects in creation
    order); contexts are numbered in creation order."""

    KINDS = ('transaction', 'delegation', 'smart_rollup_add_messages', 'transaction', 'reveal')

    def __init__(self, key, chain0=10, mempool_key='applied', root_ctx=(), kinds=None):
        self.key = key
        self.client, self.node = make_client(key, chain_ctr=chain0, mempool_key=mempool_key)
        self.groups = []          # real OperationGroup objects
        self.meta = []            # dict(n, cx, filled, ...)
        self.roots = {}           # context number -> empty root group (only for contexts in root_ctx)
        self.ctx_obj = {}         # context number -> ExecutionContext object (identity only)
        self.root_ctx = set(root_ctx)
        self.kinds = kinds or self.KINDS
        self.refused = set()
        self.accepted = set()
        self.last_inj = 0

    # -- calls --
    def build(self, k, c):
        """A group of k contents in context c.  A context used for a single group is created the usual way,
        client.transaction(..); a context shared by several built groups is an empty root group
        (client.operation_group()) from which the groups are derived."""
        gid = len(self.groups) + 1
        if c in self.root_ctx:
            if c not in self.roots:
                self.roots[c] = self.client.operation_group()
                self.ctx_obj[c] = self.roots[c].context
            g = self.roots[c]
        else:
            g = self.client
        for j in range(k):
            g = add_content(g, self.kinds[(gid + j) % len(self.kinds)], j)
        if c not in self.ctx_obj:
            self.ctx_obj[c] = g.context
        assert g.context is self.ctx_obj[c], 'harness: group not in the intended context'
        self.groups.append(g)
        self.meta.append({'n': k, 'cx': c, 'filled': False})
        return gid

    def _outstanding(self):
        return {h + 1 for h, m in enumerate(self.meta) if m['filled'] and h + 1 > self.last_inj}

    def _filled(self, src, new):
        assert new.context is self.groups[src - 1].context
        m = self.meta[src - 1]
        self.groups.append(new)
        self.meta.append({'n': m['n'], 'cx': m['cx'], 'filled': True, 'outstanding_at_fill': self._outstanding(),
                          'ctrs': [int(c['counter']) for c in new.contents]})
        return len(self.groups)

    def fill(self, g):
        return self._filled(g, self.groups[g - 1].fill())

    def autofill(self, g, ok=True):
        """-> new group id, or None when the simulation failed (RpcError raised by autofill)."""
        from pytezos.rpc.node import RpcError
        self.node.sim_script.append(None if ok else 'fail')
        try:
            new = self.groups[g - 1].autofill()
        except RpcError:
            if ok:
                raise
            return None
        except Exception:   # noqa: whatever a failed simulation raises, the caller sees a failed autofill and goes on
            if ok:
                raise
            self.odd_failures = getattr(self, 'odd_failures', 0) + 1
            return None
        finally:
            del self.node.sim_script[:]
        assert ok, 'harness: simulation scripted to fail, autofill returned'
        return self._filled(g, new)

    def _note_injection(self, gid, before):
        recs = self.node.injections[before:]
        assert len(recs) == 1, 'harness: %d injection requests for one inject()' % len(recs)
        rec = recs[0]
        self.last_inj = max(self.last_inj, gid)
        (self.accepted if rec['accepted'] else self.refused).add(gid)
        rec['gid'] = gid
        rec['behind_refused'] = bool(self.meta[gid - 1].get('outstanding_at_fill', set()) & self.refused)
        return rec

    def inject(self, g):
        """sign().inject() -> the fake node's record of the request (got, want, accepted, raised)."""
        from pytezos.rpc.node import RpcError
        before = len(self.node.injections)
        signed = self.groups[g - 1].sign()
        raised = False
        try:
            signed.inject()
        except RpcError:
            raised = True
        rec = self._note_injection(g, before)
        rec['raised'] = raised
        return rec

    def send(self, g):
        """send(): autofill + sign + inject; the sent group becomes a new group object."""
        from pytezos.rpc.node import RpcError
        before = len(self.node.injections)
        nsim = len(self.node.simulations)
        out = self._outstanding()
        raised = False
        try:
            self.groups[g - 1].send()
        except RpcError:
            raised = True
        m = self.meta[g - 1]
        sim = self.node.simulations[nsim:]
        self.groups.append(None)
        self.meta.append({'n': m['n'], 'cx': m['cx'], 'filled': True, 'outstanding_at_fill': out, 'ctrs': None})
        gid = len(self.groups)
        rec = self._note_injection(gid, before)
        rec['raised'] = raised
        self.meta[-1]['ctrs'] = rec.get('got')
        return gid, rec

    def bake(self):
        self.node.bake()
