"""Faster reader for TLC -dump files whose values are built from tuples, sets, strings, integers and booleans only
(regex tokeniser + explicit stack; about 4x the speed of tlaparse.P).  Anything else falls back to tlaparse."""
import re

from . import tlaparse

_tok = re.compile(r'<<|>>|[{},]|"((?:[^"\\]|\\.)*)"|(-?\d+)|(TRUE|FALSE)|(\S)')
_state_split = re.compile(r'^State \d+:.*$', re.M)
_var = re.compile(r'^/\\ (\w+) = ', re.M)
_esc = re.compile(r'\\(.)')


class Unsupported(Exception):
    pass


def parse_value(text, start=0, end=None):
    stack, result = [], None
    for m in _tok.finditer(text, start, len(text) if end is None else end):
        t = m.group(0)
        if t == '<<' or t == '{':
            stack.append([])
            continue
        if t == ',':
            continue
        if t == '>>':
            v = tuple(stack.pop())
        elif t == '}':
            v = frozenset(stack.pop())
        elif m.group(2) is not None:
            v = int(t)
        elif m.group(1) is not None:
            v = m.group(1)
            if '\\' in v:
                v = _esc.sub(lambda e: {'n': '\n', 't': '\t'}.get(e.group(1), e.group(1)), v)
        elif m.group(3) is not None:
            v = t == 'TRUE'
        else:
            raise Unsupported(t)
        if stack:
            stack[-1].append(v)
        else:
            result = v
    return result


def iter_dump(path):
    """States of a -dump file as dicts var -> value."""
    txt = open(path).read()
    bounds = [m.end() for m in _state_split.finditer(txt)]
    starts = [m.start() for m in _state_split.finditer(txt)]
    for k, b in enumerate(bounds):
        e = starts[k + 1] if k + 1 < len(starts) else len(txt)
        ms = list(_var.finditer(txt, b, e))
        st = {}
        for i, m in enumerate(ms):
            ve = ms[i + 1].start() if i + 1 < len(ms) else e
            try:
                st[m.group(1)] = parse_value(txt, m.end(), ve)
            except Unsupported:
                st[m.group(1)] = tlaparse.P(txt[m.end():ve]).val()
        yield st
