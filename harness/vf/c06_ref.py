"""C06 helpers that do not use pytezos: base58check with the Tezos prefixes, a minimal Micheline
reference encoder for the few expressions used as opaque byte strings, and the concretisation of
OpForge.tla groups (tag-first tuples of byte sequences and limb integers) into the JSON form that
pytezos forges."""
import hashlib

ALPHABET = '123456789ABCDEFGHJKLMNPQRSTUVWXYZabcdefghijkmnopqrstuvwxyz'

# name -> (prefix bytes, payload length, expected leading text)
PREFIX = {
    'tz1': (bytes([6, 161, 159]), 20), 'tz2': (bytes([6, 161, 161]), 20), 'tz3': (bytes([6, 161, 164]), 20),
    'tz4': (bytes([6, 161, 166]), 20), 'KT1': (bytes([2, 90, 121]), 20), 'sr1': (bytes([6, 124, 117]), 20),
    'edpk': (bytes([13, 15, 37, 217]), 32), 'sppk': (bytes([3, 254, 226, 86]), 33), 'p2pk': (bytes([3, 178, 139, 127]), 33),
    'BLpk': (bytes([6, 149, 135, 204]), 48), 'B': (bytes([1, 52]), 32), 'o': (bytes([5, 116]), 32),
    'src1': (bytes([17, 165, 134, 138]), 32), 'BLsig': (bytes([40, 171, 64, 207]), 96), 'sig': (bytes([4, 130, 43]), 64),
}
PKH = ['tz1', 'tz2', 'tz3', 'tz4']
PK = ['edpk', 'sppk', 'p2pk', 'BLpk']


def _b58(raw):
    n = int.from_bytes(raw, 'big')
    s = ''
    while n:
        n, r = divmod(n, 58)
        s = ALPHABET[r] + s
    return '1' * (len(raw) - len(raw.lstrip(b'\0'))) + s


def b58check(name, payload):
    pre, ln = PREFIX[name]
    payload = bytes(payload)
    assert len(payload) == ln, (name, len(payload))
    raw = pre + payload
    out = _b58(raw + hashlib.sha256(hashlib.sha256(raw).digest()).digest()[:4])
    assert out.startswith(name), (name, out)     # the prefix table is self-checking
    return out


def b58check_decode(name, text):
    pre, ln = PREFIX[name]
    n = 0
    for ch in text:
        n = n * 58 + ALPHABET.index(ch)
    z = len(text) - len(text.lstrip('1'))
    raw = b'\0' * z + n.to_bytes((n.bit_length() + 7) // 8, 'big')
    body, chk = raw[:-4], raw[-4:]
    assert hashlib.sha256(hashlib.sha256(body).digest()).digest()[:4] == chk, text
    assert body.startswith(pre) and len(body) == len(pre) + ln, text
    return body[len(pre):]


# ---- minimal Micheline reference encoder (no annotations; primitives used by the pools and vectors only)
PRIM = {'parameter': 0, 'storage': 1, 'code': 2, 'Pair': 7, 'Unit': 11, 'CAR': 22, 'CDR': 23, 'NIL': 61, 'PAIR': 66,
        'int': 91, 'nat': 98, 'string': 104, 'unit': 108, 'operation': 109}


def zarith_z(v):
    a = abs(v)
    first = a & 0x3f
    a >>= 6
    out = [first | (0x40 if v < 0 else 0) | (0x80 if a else 0)]
    while a:
        b = a & 0x7f
        a >>= 7
        out.append(b | (0x80 if a else 0))
    return bytes(out)


def mich(e):
    if isinstance(e, list):
        body = b''.join(mich(x) for x in e)
        return b'\x02' + len(body).to_bytes(4, 'big') + body
    if 'int' in e:
        return b'\x00' + zarith_z(int(e['int']))
    if 'string' in e:
        s = e['string'].encode()
        return b'\x01' + len(s).to_bytes(4, 'big') + s
    if 'bytes' in e:
        s = bytes.fromhex(e['bytes'])
        return b'\x0a' + len(s).to_bytes(4, 'big') + s
    args = e.get('args', [])
    if e.get('annots') or len(args) > 2 or e['prim'] not in PRIM:
        raise NotImplementedError('outside the reference Micheline subset: %r' % (e,))
    return bytes([3 + 2 * len(args), PRIM[e['prim']]]) + b''.join(mich(a) for a in args)


# opaque byte strings of the model -> the Micheline JSON they encode
MICH = [
    {'prim': 'Unit'},
    {'int': '1'},
    {'int': '-64'},
    {'prim': 'Pair', 'args': [{'int': '1'}, {'prim': 'Unit'}]},
    {'string': 'Ticket'},
    {'prim': 'string'},
    {'prim': 'int'},
    [],
    [{'prim': 'parameter', 'args': [{'prim': 'unit'}]}, {'prim': 'storage', 'args': [{'prim': 'unit'}]},
     {'prim': 'code', 'args': [[{'prim': 'CDR'}, {'prim': 'NIL', 'args': [{'prim': 'operation'}]}, {'prim': 'PAIR'}]]}],
    # the same script with its sections in another order: the encoding keeps the order it is given
    [{'prim': 'storage', 'args': [{'prim': 'unit'}]}, {'prim': 'parameter', 'args': [{'prim': 'unit'}]},
     {'prim': 'code', 'args': [[{'prim': 'CDR'}, {'prim': 'NIL', 'args': [{'prim': 'operation'}]}, {'prim': 'PAIR'}]]}],
]
MICH_BY_BYTES = {mich(e): e for e in MICH}


def unmich(b):
    return MICH_BY_BYTES[bytes(b)]


# ---- model values
def tup(v):
    if isinstance(v, (list, tuple)):
        return tuple(tup(x) for x in v)
    return v


def nat(v):
    neg, limbs = v
    assert neg is False
    return sum(d << (8 * i) for i, d in enumerate(limbs))


def limbs(n):
    out = []
    while n:
        out.append(n & 255)
        n >>= 8
    return (False, tuple(out))


def pkh(v):
    return b58check(PKH[v[0]], v[1])


def addr(v):
    if v[0] == 'implicit':
        return pkh(v[1])
    return b58check({'originated': 'KT1', 'rollup': 'sr1'}[v[0]], v[1])


def text(v):
    return bytes(v).decode('ascii')


FIELDS = {
    'reveal': ['source', 'fee', 'counter', 'gas_limit', 'storage_limit', 'public_key', 'proof'],
    'transaction': ['source', 'fee', 'counter', 'gas_limit', 'storage_limit', 'amount', 'destination', 'parameters'],
    'origination': ['source', 'fee', 'counter', 'gas_limit', 'storage_limit', 'balance', 'delegate', 'script.code', 'script.storage'],
    'delegation': ['source', 'fee', 'counter', 'gas_limit', 'storage_limit', 'delegate'],
    'register_global_constant': ['source', 'fee', 'counter', 'gas_limit', 'storage_limit', 'value'],
    'transfer_ticket': ['source', 'fee', 'counter', 'gas_limit', 'storage_limit', 'ticket_contents', 'ticket_ty', 'ticket_ticketer',
                        'ticket_amount', 'destination', 'entrypoint'],
    'smart_rollup_add_messages': ['source', 'fee', 'counter', 'gas_limit', 'storage_limit', 'message'],
    'smart_rollup_execute_outbox_message': ['source', 'fee', 'counter', 'gas_limit', 'storage_limit', 'rollup', 'cemented_commitment', 'output_proof'],
    'failing_noop': ['arbitrary'],
    'activate_account': ['pkh', 'secret'],
}
MANAGER = [k for k in FIELDS if k not in ('failing_noop', 'activate_account')]
RESERVED_6_9 = {6: 'stake', 7: 'unstake', 8: 'finalize_unstake', 9: 'set_delegate_parameters'}


def content_json(c, explicit_default=False):
    """Model content -> the JSON content of the Tezos RPC / pytezos.  `explicit_default`: write absent
    parameters as {default, Unit} (the same group for the protocol)."""
    kind = c[0]
    d = {'kind': kind}
    f = c[1:]
    if kind in MANAGER:
        d.update(source=pkh(f[0]), fee=str(nat(f[1])), counter=str(nat(f[2])), gas_limit=str(nat(f[3])), storage_limit=str(nat(f[4])))
        f = f[5:]
    if kind == 'reveal':
        d['public_key'] = b58check(PK[f[0][0]], f[0][1])
        if f[1][0] == 'some':
            d['proof'] = b58check('BLsig', f[1][1])
    elif kind == 'transaction':
        d['amount'] = str(nat(f[0]))
        d['destination'] = addr(f[1])
        if f[2][0] == 'some':
            d['parameters'] = {'entrypoint': text(f[2][1]), 'value': unmich(f[2][2])}
        elif explicit_default:
            d['parameters'] = {'entrypoint': 'default', 'value': {'prim': 'Unit'}}
    elif kind == 'origination':
        d['balance'] = str(nat(f[0]))
        if f[1][0] == 'some':
            d['delegate'] = pkh(f[1][1])
        d['script'] = {'code': unmich(f[2]), 'storage': unmich(f[3])}
    elif kind == 'delegation':
        if f[0][0] == 'some':
            d['delegate'] = pkh(f[0][1])
    elif kind == 'register_global_constant':
        d['value'] = unmich(f[0])
    elif kind == 'transfer_ticket':
        d.update(ticket_contents=unmich(f[0]), ticket_ty=unmich(f[1]), ticket_ticketer=addr(f[2]), ticket_amount=str(nat(f[3])),
                 destination=addr(f[4]), entrypoint=text(f[5]))
    elif kind == 'smart_rollup_add_messages':
        d['message'] = [bytes(m).hex() for m in f[0]]
    elif kind == 'smart_rollup_execute_outbox_message':
        d.update(rollup=b58check('sr1', f[0]), cemented_commitment=b58check('src1', f[1]), output_proof=bytes(f[2]).hex())
    elif kind == 'failing_noop':
        d['arbitrary'] = text(f[0])
    elif kind == 'activate_account':
        d.update(pkh=b58check('tz1', f[0]), secret=bytes(f[1]).hex())
    else:
        raise KeyError(kind)
    return d


def group_json(g, explicit_default=False):
    return {'branch': b58check('B', g[0]), 'contents': [content_json(c, explicit_default) for c in g[1]]}


# ---- recorded operations (Leg C): RPC JSON -> model group
def _pkh_model(s):
    for i, p in enumerate(PKH):
        if s.startswith(p):
            return (i, tuple(b58check_decode(p, s)))
    raise KeyError(s)


def _addr_model(s):
    if s.startswith('KT1'):
        return ('originated', tuple(b58check_decode('KT1', s)))
    if s.startswith('sr1'):
        return ('rollup', tuple(b58check_decode('sr1', s)))
    return ('implicit', _pkh_model(s))


def content_model(d):
    kind = d['kind']
    c = [kind]
    if kind in MANAGER:
        c += [_pkh_model(d['source'])] + [limbs(int(d[k])) for k in ('fee', 'counter', 'gas_limit', 'storage_limit')]
    if kind == 'transaction':
        p = d.get('parameters')
        if p is None or (p['entrypoint'] == 'default' and p['value'] == {'prim': 'Unit'}):
            par = ('none',)
        else:
            par = ('some', tuple(p['entrypoint'].encode()), tuple(mich(p['value'])))
        c += [limbs(int(d['amount'])), _addr_model(d['destination']), par]
    elif kind == 'transfer_ticket':
        c += [tuple(mich(d['ticket_contents'])), tuple(mich(d['ticket_ty'])), _addr_model(d['ticket_ticketer']), limbs(int(d['ticket_amount'])),
              _addr_model(d['destination']), tuple(d['entrypoint'].encode())]
    elif kind == 'smart_rollup_add_messages':
        c += [tuple(tuple(bytes.fromhex(m)) for m in d['message'])]
    elif kind == 'smart_rollup_execute_outbox_message':
        c += [tuple(b58check_decode('sr1', d['rollup'])), tuple(b58check_decode('src1', d['cemented_commitment'])), tuple(bytes.fromhex(d['output_proof']))]
    else:
        raise NotImplementedError(kind)
    return tuple(c)


def group_model(d):
    return (tuple(b58check_decode('B', d['branch'])), tuple(content_model(c) for c in d['contents']))


def operation_hash(forged, signature_b58):
    sig = b58check_decode('sig', signature_b58)
    return b58check('o', hashlib.blake2b(bytes(forged) + sig, digest_size=32).digest())
