"""X04, second part: the two places of pytezos/rpc/shell.py that produce or look up receipts -
mempool.pending_operations (make_operation_result) against OpReceiptMempool.tla and
ShellQuery.get_confirmations against OpReceiptConf.tla.  The node is an RpcNode subclass (only request() is
overridden); nothing of pytezos is patched."""
import collections
import json

from .tlaparse import to_json, to_tla

OPH = {h: 'oo%dverifverifverifverifverifverifverifverifverifve' % h for h in range(0, 10)}      # shape of an operation hash; never decoded


def _node_cls():
    from pytezos.rpc.node import RpcError, RpcNode

    class Resp:
        def __init__(self, data):
            self._d = data
            self.status_code = 200
            self.text = json.dumps(data)

        def json(self):
            return json.loads(self.text)      # a fresh object per answer, like a real response

    class Node(RpcNode):
        def __init__(self, handler):
            super().__init__('http://receipts.invalid')
            self.handler = handler
            self.calls = []

        def request(self, method, path, **kw):
            path = path.split('?')[0]
            self.calls.append(path)
            r = self.handler(path)
            if r is None:
                raise RpcError('unexpected path ' + path)
            return Resp(r)
    return Node


# ---------------------------------------------------------------- mempool
MEM_MC = """---- MODULE OpReceiptMempoolMC ----
EXTENDS OpReceiptMempool
CatsV == %s
====
"""
MEM_CFG = """SPECIFICATION Spec
CONSTANTS Cats <- CatsV
 Hashes = {%s}
 MaxOps = %d
 Nerrs = {%s}
INVARIANT GetFindsIt
INVARIANT FlattenListsAll
INVARIANT OnlyNamedDeviations
INVARIANT Export
"""


def mem_json(pool, cats):
    out = collections.OrderedDict()
    for i, entries in enumerate(pool):
        lst = []
        for h, form, nerr in entries:
            body = {'branch': 'BLockGenesisGenesisGenesisGenesisGenesisf79b5d1CoW2',
                    'contents': [{'kind': 'transaction', 'source': 'tz1grSQDByRpnVs7sPtaprNZRp531ZKz6Jmm', 'fee': '0', 'counter': str(h), 'gas_limit': '0',
                                  'storage_limit': '0', 'amount': '1', 'destination': 'tz1grSQDByRpnVs7sPtaprNZRp531ZKz6Jmm'}],
                    'signature': 'sigUHx32f9wesZ1n2BWpixXz4AQaZggEtchaQNHYGRCoWNAXx45WGW2ua3apUUUAGMLPwAU41QoaFCzVSL61VaessLg4YbbP'}
            if nerr >= 0:
                body['error'] = [{'kind': 'temporary', 'id': 'proto.x.err', 'n': 10 * h + j} for j in range(1, nerr + 1)]
            lst.append(dict(hash=OPH[h], **body) if form == 'dict' else [OPH[h], body])
        out[cats[i]] = lst
    return out


def dressed(e):
    """A returned entry -> the tuple the model uses."""
    res = e.get('metadata', {}).get('operation_result', {})
    errs = tuple(x.get('n') for x in res['errors']) if 'errors' in res else (-1,)
    h = [k for k, v in OPH.items() if v == e.get('hash')]
    return (h[0] if h else -1, res.get('status'), errs, 'top' if 'error' in e else 'none')


def run_mempool(ctx):
    from pytezos.operation.result import OperationResult
    from pytezos.rpc.shell import ShellQuery
    Node = _node_cls()
    cats = ['validated', 'refused', 'branch_delayed'] if ctx.quick else ['applied', 'refused', 'outdated', 'branch_refused']
    hashes, maxops, nerrs = ([1, 2], 2, [0, 2]) if ctx.quick else ([1, 2, 3], 2, [0, 1, 2])
    r = ctx.tlc('OpReceiptMempoolMC', MEM_CFG % (', '.join(map(str, hashes)), maxops, ', '.join(map(str, nerrs))), name='OpReceiptMempoolMC', coverage=False,
                timeout=1500, gen={'OpReceiptMempoolMC': MEM_MC % to_tla(frozenset((i + 1, c) for i, c in enumerate(cats)))})
    ctx.require_no_violation(r, 'OpReceiptMempool')
    outs = [v for v in r.printed if v[0] == 'OUT']
    if not outs:
        raise Exception('mempool: nothing exported')
    dev = collections.Counter()
    for _, pool, mode, target, out, intended in outs:
        answer = mem_json(pool, cats)
        node = Node(lambda p: answer if p.endswith('mempool/pending_operations') else None)
        q = ShellQuery(node=node).mempool.pending_operations
        entries = []
        if mode == 'flatten':
            try:
                entries = q.flatten()
                got = tuple(dressed(e) for e in entries)
            except Exception as e:   # noqa
                got = ((0, type(e).__name__, (-1,), 'none'),)
        else:
            try:
                entries = [q[OPH[target]]]
                got = (dressed(entries[0]),)
            except StopIteration:
                got = ((0, 'StopIteration', (-1,), 'none'),)
            except RuntimeError as e:
                got = ((0, 'StopIteration' if 'StopIteration' in repr(e.__cause__) + str(e) else 'RuntimeError', (-1,), 'none'),)
            except Exception as e:   # noqa
                got = ((0, type(e).__name__, (-1,), 'none'),)
        want = tuple((o[0], o[1], tuple(o[2]), o[3]) for o in out)
        want_i = tuple((o[0], o[1], tuple(o[2]), o[3]) for o in intended)
        ctx.replayed += 1
        ctx.count(('mempool', pool, mode, target), nontrivial=any(pool))
        M1 = 'M1 the errors of a {hash, ..., error} mempool entry are not moved into metadata.operation_result.errors'
        M2 = 'M2 DEFECT pending_operations[hash] raises AttributeError (dict.pop1) for an entry listed as [hash, operation] (retired answer version 0)'
        M3 = 'M3 OperationResult.is_applied(mempool entry) is True / errors() empty whatever category make_operation_result recorded'
        # every entry must be the model's as the code stands or the intended one (a repaired deviation never alarms)
        bad = None
        if len(got) != len(want):
            bad = 'length'
        else:
            for g, w, wi in zip(got, want, want_i):
                as_intended = g[:2] == wi[:2] and (g[2] == wi[2] or (wi[2] == (-1,) and g[2] == ()))
                if g == w:
                    if w[1] == 'AttributeError':
                        dev[M2] += 1
                    elif w[3] == 'top':
                        dev[M1] += 1
                elif as_intended:
                    dev['(no longer present) ' + (M2 if w[1] == 'AttributeError' else M1)] += 1
                else:
                    bad = next('field%d' % n for n in range(4) if g[n] != w[n])
                    break
        if bad:
            ctx.mismatch('X04:mempool:%s:%s' % (mode, bad), 'node answer %s, %s %s: pytezos %s, model %s (intended %s)' % (json.dumps(answer), mode, target or '', got, want, want_i),
                         {'pool': to_json(pool), 'mode': mode, 'target': target})
            continue
        for e, o in zip(entries, want_i):
            if o[1] not in ('applied', 'validated'):
                # M3: the receipt helpers look at the contents (which have no metadata), not at the dressed status
                ia, er = OperationResult.is_applied(e), OperationResult.errors(e)
                if ia is True and er == []:
                    dev[M3] += 1
                elif ia is False and [x.get('n') for x in er] == [x for x in o[2] if x != -1]:
                    dev['(no longer present) ' + M3] += 1
                else:
                    ctx.mismatch('X04:mempool:receipt-view', 'entry %s: is_applied %s errors %s; model: True, [] as the code stands, False and the entry\'s errors as intended' % (
                        e, ia, er), {'pool': to_json(pool), 'mode': mode, 'target': target})
    for k, n in sorted(dev.items()):
        print('INFO X04 deviation modelled as coded: %s [%d cases]' % (k, n))
        ctx.notes.append('%s [%d cases]' % (k, n))


# ---------------------------------------------------------------- get_confirmations
CONF_CFG = """SPECIFICATION Spec
CONSTANTS MaxHead = %d
 Passes = {%s}
 Kinds = {%s}
INVARIANT CountsFromInclusion
INVARIANT ZeroIffNotFound
INVARIANT ScansDownward
INVARIANT NoBlockBeyondTheOperation
INVARIANT Export
"""
KIND_OF_PASS = {0: ['endorsement'], 1: ['ballot', 'proposals'], 2: ['activate_account', 'double_baking_evidence'],
                3: ['transaction', 'origination', 'delegation', 'reveal']}     # the four validation passes of the protocol


def run_confirmations(ctx):
    from pytezos.rpc.shell import ShellQuery
    Node = _node_cls()
    maxhead, passes, kinds = (4, [0, 3], [0, 3]) if ctx.quick else (7, [0, 1, 2, 3], [0, 1, 2, 3])
    r = ctx.tlc('OpReceiptConf', CONF_CFG % (maxhead, ', '.join(map(str, passes)), ', '.join(map(str, kinds))), name='OpReceiptConf', coverage=False, timeout=1500)
    ctx.require_no_violation(r, 'OpReceiptConf')
    outs = [v for v in r.printed if v[0] == 'OUT']
    if not outs:
        raise Exception('confirmations: nothing exported')
    base = 100
    for n, (_, inp, result, probes) in enumerate(outs):
        head, branch, at, pas, idx, ask = inp
        kind = KIND_OF_PASS[ask][n % len(KIND_OF_PASS[ask])]

        def hashes(level, p):
            fill = [OPH[7], OPH[8]]
            if level == base + at and at > 0 and p == pas:
                return fill[:idx] + [OPH[1]] + fill[idx:]
            return fill

        def handler(path, hashes=hashes):
            if '/blocks/' not in path:
                return None
            bid, _, rest = path.split('/blocks/')[1].partition('/')
            lv = int(bid[1:]) if bid.startswith('B') else int(bid)
            parts = rest.split('/')
            if parts == ['header']:
                return {'level': lv, 'hash': 'B%d' % lv, 'timestamp': '2020-01-01T00:00:00Z'}
            if parts[0] == 'operation_hashes' and len(parts) == 2:
                return hashes(lv, int(parts[1]))
            if parts[0] == 'operation_hashes' and len(parts) == 1:
                return [hashes(lv, p) for p in range(4)]
            if parts[0] == 'operations' and len(parts) == 3:
                return {'hash': hashes(lv, int(parts[1]))[int(parts[2])], 'contents': []}
            return None
        node = Node(handler)
        sh = ShellQuery(node=node)
        try:
            got = sh.get_confirmations(OPH[1], kind, 'B%d' % (base + branch), 'B%d' % (base + head))
        except Exception as e:   # noqa
            got = 'raised %s' % type(e).__name__
        scanned = []
        for p in node.calls:
            if '/operation_hashes' in p:
                lv = p.split('/blocks/')[1].split('/')[0]
                lv = int(lv[1:]) if lv.startswith('B') else int(lv)
                if lv - base not in scanned:
                    scanned.append(lv - base)
        ctx.replayed += 1
        ctx.count(('conf', inp), nontrivial=at > 0)
        if got != result:
            cls = 'raised' if isinstance(got, str) else 'missed' if got == 0 else 'phantom' if result == 0 else 'off-by-%d' % (got - result)
            ctx.mismatch('X04:get_confirmations:%s' % cls, 'head %d branch %d, operation at level %s pass %d position %d, asked as %s: pytezos %s, model %s' % (
                head, branch, at or 'none', pas, idx, kind, got, result), {'input': to_json(inp)})
        elif any(lv <= branch or lv > head for lv in scanned):
            # only the segment (branch, head] may be searched; the order of the search is the model's, not demanded of the code
            ctx.mismatch('X04:get_confirmations:blocks-outside-segment', 'head %d branch %d at %s: pytezos looked into blocks %s, model %s' % (
                head, branch, at or 'none', scanned, list(probes)), {'input': to_json(inp)})
