"""X07: the simulated world behind contract metadata resolution - a node (subclass of the public RpcNode; only `request()` is
overridden, so ShellQuery / RpcQuery run unchanged) that serves two contracts and their big_maps, and an HTTP boundary
(requests' transport adapter; no pytezos function is patched) that serves http documents and an IPFS gateway.

Everything here is written from the protocol's / the standards' side: script-expression hashes of big_map keys are computed with
hashlib (PACK of a string / a nat + blake2b + base58check), not with pytezos."""
import hashlib, json, re

import requests
import requests.adapters

from .fakenode import b58check

SELF = 'KT1BEqzn5Wx8uJrZNvuS9DVHmLvG9td3fDLi'
OTHER = 'KT1QDFEu8JijYbsJqzoXq7mKvfaQQamHD1kX'
GHOST = 'KT1REEb5VxWRjcHm5GzDMwErMmNFftsE5Gpf'
CHAIN = 'NetXdQprcVkpaWU'
OTHER_CHAIN = 'NetXnHfVqm9iesp'
DEFAULT_GATEWAY = 'https://ipfs.io/ipfs'

HTTP = {}          # url -> (status, body bytes)
FETCHED = []       # urls requested, in order
_installed = False


def _send(self, request, **kw):
    FETCHED.append(request.url)
    r = requests.Response()
    r.url, r.request = request.url, request
    r.status_code, r._content = HTTP.get(request.url, (404, b'404 page not found\n'))
    r.encoding = 'utf-8'
    r.headers['content-type'] = 'application/json' if r._content[:1] == b'{' else 'text/plain'
    return r


def install():
    """every HTTP request of the `requests` library ends here (the lowest layer of the library, below Session)"""
    global _installed
    if not _installed:
        requests.adapters.HTTPAdapter.send = _send
        _installed = True


def expr_hash(packed):
    return b58check(bytes([13, 44, 64, 27]), hashlib.blake2b(packed, digest_size=32).digest())


def string_key_hash(s):
    b = s.encode() if isinstance(s, str) else bytes(s)
    return expr_hash(b'\x05\x01' + len(b).to_bytes(4, 'big') + b)


def nat_key_hash(n):
    # zarith: 6 bits + sign in the first byte, 7 bits in the following ones
    out, first = [], True
    while True:
        if first:
            byte, n, first = n & 0x3f, n >> 6, False
        else:
            byte, n = n & 0x7f, n >> 7
        out.append(byte | (0x80 if n else 0))
        if not n:
            break
    return expr_hash(b'\x05\x00' + bytes(out))


class _Resp:
    def __init__(self, data):
        self._d = data
        self.status_code = 200
        self.text = json.dumps(data)

    def json(self):
        return self._d


def make_node(contracts, big_maps, chain_id=CHAIN, past=None):
    """contracts: {address: {'code': micheline, 'storage': micheline}}; big_maps: {id: {script_expr: micheline value}};
    past: optional (contracts, big_maps) served for every block id other than `head`"""
    from pytezos.rpc.node import RpcError, RpcNode

    class WorldNode(RpcNode):
        def __init__(self):
            super().__init__('http://x07.invalid')
            self.asked = []        # addresses whose script / storage was requested
            self.gets = []         # (big_map id, script_expr) requested
            self.reads = []        # (block id, 'storage' | 'script' | 'big_map') in order
            self.other = []

        def request(self, method, path, **kw):
            m = re.match(r'/?chains/main/blocks/([^/]+)/context/(.*)$', path)
            if m:
                block, rest = m.group(1), m.group(2)
                cs, bms = (contracts, big_maps) if block == 'head' or past is None else past
                m = re.match(r'contracts/([^/]*)/(script|storage)$', rest)
                if m:
                    self.asked.append(m.group(1))
                    self.reads.append((block, m.group(2)))
                    c = cs.get(m.group(1))
                    if c is None:
                        raise RpcError('no contract at ' + path)
                    return _Resp(c if m.group(2) == 'script' else c['storage'])
                m = re.match(r'big_maps/(-?\d+)/(expr\w+)$', rest)
                if m:
                    self.gets.append((int(m.group(1)), m.group(2)))
                    self.reads.append((block, 'big_map'))
                    bm = bms.get(int(m.group(1)), {})
                    if m.group(2) in bm:
                        return _Resp(bm[m.group(2)])
                    raise RpcError('no such key: ' + path)
            self.other.append(path)
            if path.endswith('/chain_id'):
                return _Resp(chain_id)
            raise RpcError('unexpected path ' + path)
    return WorldNode()
