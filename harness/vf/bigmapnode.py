"""A simulated node that serves on-chain big_map contents (subclass of the public RpcNode; the real ShellQuery path is used)."""
import re

from pytezos.rpc.node import RpcError, RpcNode


class _Resp:
    def __init__(self, data):
        self._data = data
        self.status_code = 200
        self.text = str(data)

    def json(self):
        return self._data


class BigMapNode(RpcNode):
    def __init__(self, big_maps):
        """big_maps: {id: {script_expr_hash: micheline value}}"""
        super().__init__('http://bigmap.invalid')
        self.big_maps = big_maps
        self.requests_seen = []

    def request(self, method, path, **kwargs):
        self.requests_seen.append(path)
        m = re.search(r'context/big_maps/(-?\d+)/(expr\w+)$', path)
        if m:
            bm = self.big_maps.get(int(m.group(1)), {})
            if m.group(2) in bm:
                return _Resp(bm[m.group(2)])
            raise RpcError('Not found: %s' % path)
        raise RpcError('unexpected path %s' % path)
