"""Shared binding of spec/MichData.tla (properties C04 and C11) to pytezos.

Concretisation: Micheline nodes of the model -> Micheline JSON.  The symbolic text leaves are interpreted here,
independently of pytezos: Base58Check notation through b58.py (own sha256d / base-58), RFC 3339 notation through
`rfc3339` (civil-from-days arithmetic on Python integers).
Projection: a pytezos typed value -> model value, through its *optimized* rendering read by terms.pval (a reader of
every notation Tezos accepts that shares no code with pytezos)."""
import json

from . import b58, terms
from .props import C05

SCHEMES = ['field-all', 'type-all', 'both-all', 'field-inner-pairs', 'type-inner-pairs']
MODES = ('readable', 'optimized', 'legacy_optimized')


def unlimb(x):
    n = 0
    for d in reversed(x[1]):
        n = n * 256 + d
    return -n if x[0] else n


# ---------- RFC 3339 ----------
def civil_from_days(z):
    """days since 1970-01-01 -> (year, month, day) of the proleptic Gregorian calendar (any integer)."""
    z += 719468
    era = z // 146097
    doe = z - era * 146097
    yoe = (doe - doe // 1460 + doe // 36524 - doe // 146096) // 365
    y = yoe + era * 400
    doy = doe - (365 * yoe + yoe // 4 - yoe // 100)
    mp = (5 * doy + 2) // 153
    d = doy - (153 * mp + 2) // 5 + 1
    m = mp + 3 if mp < 10 else mp - 9
    return (y + 1 if m <= 2 else y), m, d


def rfc3339(n):
    days, rem = divmod(n, 86400)
    y, m, d = civil_from_days(days)
    if not 0 <= y <= 9999:
        raise ValueError('no RFC 3339 notation for year %d' % y)
    return '%04d-%02d-%02dT%02d:%02d:%02dZ' % (y, m, d, rem // 3600, rem % 3600 // 60, rem % 60)


def selfcheck():
    """the calendar routine against Python's datetime (an independent implementation) on its whole range, sampled"""
    import datetime
    e = datetime.date(1970, 1, 1).toordinal()
    for o in list(range(1, 3652059, 9973)) + [1, 3652059, e, e - 1, 730179, 730180]:
        dt = datetime.date.fromordinal(o)
        if civil_from_days(o - e) != (dt.year, dt.month, dt.day):
            raise AssertionError('civil_from_days(%d)' % (o - e))
    assert rfc3339(0) == '1970-01-01T00:00:00Z' and rfc3339(-1) == '1969-12-31T23:59:59Z' and rfc3339(253402300799) == '9999-12-31T23:59:59Z'
    assert rfc3339(-62167219200) == '0000-01-01T00:00:00Z' and rfc3339(951827696) == '2000-02-29T12:34:56Z'


# ---------- nodes -> Micheline JSON ----------
def text_of(kind, payload):
    if kind == 'rfc3339':
        return rfc3339(unlimb(payload))
    if kind == 'address':
        s = b58.address_from_bytes(payload[1])
        ep = bytes(payload[2]).decode()
        return s + ('%' + ep if ep else '')
    f = {'key_hash': b58.key_hash_from_bytes, 'key': b58.key_from_bytes, 'signature': b58.sig_from_bytes, 'chain_id': b58.chain_from_bytes}[kind]
    return f(payload[1])


def node_json(n, names):
    k = n[0]
    if k == 'text':
        return {'string': text_of(n[1], n[2])}
    if k == 'seq':
        return [node_json(x, names) for x in n[1]]
    if k == 'prim':
        d = {'prim': names[n[1]]}
        if n[2]:
            d['args'] = [node_json(x, names) for x in n[2]]
        return d
    return C05.to_expr(n, names)


def canon(j):
    """Micheline JSON without empty args / annots lists"""
    if isinstance(j, list):
        return [canon(x) for x in j]
    if isinstance(j, dict) and 'prim' in j:
        d = {'prim': j['prim']}
        if j.get('args'):
            d['args'] = [canon(x) for x in j['args']]
        if j.get('annots'):
            d['annots'] = list(j['annots'])
        return d
    return j


# ---------- values ----------
def norm(t, v):
    """model value (limb numbers) -> the same term with Python integers (the vocabulary of terms.pval)"""
    k = t[0]
    if k in ('int', 'nat', 'mutez', 'timestamp'):
        return ('i', unlimb(v[1]))
    if k == 'pair':
        return ('p', norm(t[1], v[1]), norm(t[2], v[2]))
    if k == 'option':
        return v if v[0] == 'none' else ('some', norm(t[1], v[1]))
    if k == 'or':
        return (v[0], norm(t[1] if v[0] == 'l' else t[2], v[1]))
    if k in ('list', 'set'):
        return (k, tuple(norm(t[1], x) for x in v[1]))
    if k == 'map':
        return ('map', tuple((norm(t[1], e[0]), norm(t[2], e[1])) for e in v[1]))
    return v


def ts_zones(t, v, acc=None):
    """zones (TsZone of the spec, recomputed on Python integers) of the timestamps inside a value"""
    acc = set() if acc is None else acc
    k = t[0]
    if k == 'timestamp':
        n = unlimb(v[1])
        if -30610224000 <= n < 253402300800:
            acc.add('text')
        elif -62135596800 <= n < -30610224000:
            acc.add('year1-999')
        elif -62167219200 <= n < -62135596800:
            acc.add('year0')
        elif n < -62167219200:
            acc.add('before-year0')
        else:
            acc.add('year>=10000')
    elif k == 'pair':
        ts_zones(t[1], v[1], acc), ts_zones(t[2], v[2], acc)
    elif k == 'option' and v[0] == 'some':
        ts_zones(t[1], v[1], acc)
    elif k == 'or':
        ts_zones(t[1] if v[0] == 'l' else t[2], v[1], acc)
    elif k in ('list', 'set'):
        for x in v[1]:
            ts_zones(t[1], x, acc)
    elif k == 'map':
        for e in v[1]:
            ts_zones(t[1], e[0], acc), ts_zones(t[2], e[1], acc)
    return acc


def has(t, prim):
    return t[0] == prim or any(has(x, prim) for x in t[1:])


def comb_len(t):
    """length of the longest right comb in the type"""
    if t[0] != 'pair':
        return max([0] + [comb_len(x) for x in t[1:]])
    n, u, inner = 1, t, [comb_len(t[1])]
    while u[2][0] == 'pair':
        u = u[2]
        n += 1
        inner.append(comb_len(u[1]))
    inner.append(comb_len(u[2]))
    return max([n + 1] + inner)


def type_class(t):
    """coarse class of a type for mismatch signatures"""
    if len(t) == 1 or t[0] == 'lambda':
        return t[0]
    if t[0] == 'pair':
        return 'comb%d' % comb_len(t) if comb_len(t) > 2 else 'pair'
    return t[0]


_types = {}


def mtype(tj):
    from pytezos.michelson.types.base import MichelsonType
    import pytezos.michelson.types  # noqa: registers the type classes
    k = json.dumps(tj, sort_keys=True)
    if k not in _types:
        _types[k] = MichelsonType.match(tj)
    return _types[k]


def project(t, x):
    """pytezos typed value -> model term (Python integers), read from its optimized rendering"""
    lim, terms.LIM = terms.LIM, 1 << 200000
    try:
        return terms.pval(t, x.to_micheline_value(mode='optimized'))
    finally:
        terms.LIM = lim


def tup(x):
    return tuple(tup(y) for y in x) if isinstance(x, list) else x


def short(j, n=300):
    s = json.dumps(j)
    return s if len(s) <= n else s[:n] + '...'
