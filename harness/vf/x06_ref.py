"""Reference interpretations for the replay of BlockBake.tla (X06).  Nothing here imports pytezos.

Written from the public Tezos encodings: base58check prefixes (src/lib_crypto/base58.ml), the shell block
header (level int32, proto uint8, predecessor, timestamp int64, validation_pass uint8, operations_hash,
fitness = dynamic list of dynamic byte strings, context), the Tenderbake protocol header contents
(payload_hash, payload_round int32, proof_of_work_nonce 8 bytes, optional seed_nonce_hash, one byte of
per-block votes), the genesis protocol's activation command, the Blake2B Merkle tree of lib_crypto (a complete
binary tree whose missing leaves repeat the last one), Block_payload_repr.hash, and the proof-of-work stamp
(first 8 bytes, big endian, of the hash of the header carrying the all-zero signature).
"""
import hashlib
import time
import calendar

ALPH = '123456789ABCDEFGHJKLMNPQRSTUVWXYZabcdefghijkmnopqrstuvwxyz'
PREFIX = {
    'B': (bytes([1, 52]), 32), 'o': (bytes([5, 116]), 32), 'Lo': (bytes([133, 233]), 32), 'LLo': (bytes([29, 159, 109]), 32),
    'P': (bytes([2, 170]), 32), 'Co': (bytes([79, 199]), 32), 'vh': (bytes([1, 106, 242]), 32), 'nce': (bytes([69, 220, 169]), 32),
    'Net': (bytes([87, 82, 0]), 4), 'sig': (bytes([4, 130, 43]), 64), 'edsig': (bytes([9, 245, 205, 134, 18]), 64),
}
# public protocol hashes by version number (0 = the sandbox genesis protocol)
PROTO_HASH = {
    0: 'ProtoGenesisGenesisGenesisGenesisGenesisGenesk612im',
    11: 'PtHangz2aRngywmSRGGvrcTyMbbdpWdpFKuS4uMWxg2RaH9i1qx',
    12: 'Psithaca2MLRFYargivpo7YvUr7wUDqyxrdhC5CQq78mRvimz6A',
    17: 'PtNairobiyssHuh87hEhfVBGCVrK3WnS8Z2FT4ymB5tAa4r1nQf',
    18: 'ProxfordYmVfjWnRcgjWH36fW6PArwqykTFzotUxRs6gmTcZDuH',
    23: 'PtSeouLouXkxhg39oWzjxDWaCydNfR3RxCUrNe4Q9Ro8BTehcbh',
    24: 'PtTALLiNtPec7mE7yY4m3k26J8Qukef3E3ehzhfXgFZKGtDdAXu',
}


def H(data):
    return hashlib.blake2b(data, digest_size=32).digest()


def _b58(raw):
    n = int.from_bytes(raw, 'big')
    out = ''
    while n:
        n, r = divmod(n, 58)
        out = ALPH[r] + out
    return '1' * (len(raw) - len(raw.lstrip(b'\0'))) + out


def _unb58(s):
    n = 0
    for c in s:
        n = n * 58 + ALPH.index(c)
    pad = len(s) - len(s.lstrip('1'))
    return b'\0' * pad + (n.to_bytes((n.bit_length() + 7) // 8, 'big') if n else b'')


def enc(kind, payload):
    pre, ln = PREFIX[kind]
    assert len(payload) == ln, (kind, len(payload))
    raw = pre + payload
    s = _b58(raw + hashlib.sha256(hashlib.sha256(raw).digest()).digest()[:4])
    assert s.startswith(kind), (kind, s)
    return s


def dec(kind, s):
    """payload of a base58check string of the given kind; ValueError if it is not one."""
    pre, ln = PREFIX[kind]
    try:
        raw = _unb58(s)
    except (ValueError, TypeError):
        raise ValueError('not base58: %r' % (s,))
    body, chk = raw[:-4], raw[-4:]
    if hashlib.sha256(hashlib.sha256(body).digest()).digest()[:4] != chk or not body.startswith(pre) or len(body) != len(pre) + ln:
        raise ValueError('not a %s value: %r' % (kind, s))
    return body[len(pre):]


def rfc3339(ts):
    return time.strftime('%Y-%m-%dT%H:%M:%SZ', time.gmtime(ts))


def unix(ts):
    if isinstance(ts, int):
        return ts
    try:
        return int(ts)
    except ValueError:
        return calendar.timegm(time.strptime(ts, '%Y-%m-%dT%H:%M:%SZ'))


# ---------------------------------------------------------------- Merkle tree / payload hash
def merkle(leaves):
    """Blake2B.Make_merkle_tree.compute: H(b'') for no element, otherwise the root of the full binary tree over
    H(leaf) of the smallest power-of-two width, the missing positions repeating the LAST LEAF."""
    if not leaves:
        return H(b'')
    n = 1
    while n < len(leaves):
        n *= 2
    level = [H(x) for x in list(leaves) + [leaves[-1]] * (n - len(leaves))]
    while len(level) > 1:
        level = [H(level[i] + level[i + 1]) for i in range(0, len(level), 2)]
    return level[0]


def _merkle_rec(leaves):
    """Second formulation (recursive over index ranges, positions past the end read the last leaf): self-check of `merkle`."""
    if not leaves:
        return H(b'')
    depth = 0
    while (1 << depth) < len(leaves):
        depth += 1

    def sub(lo, d):
        if d == 0:
            return H(leaves[min(lo, len(leaves) - 1)])
        return H(sub(lo, d - 1) + sub(lo + (1 << (d - 1)), d - 1))
    return sub(0, depth)


def payload_hash(predecessor, payload_round, op_hashes):
    """Block_payload_repr.hash: blake2b(predecessor || round int32 || operation list hash), as a `vh` string."""
    leaves = [dec('o', h) for h in op_hashes]
    root = merkle(leaves)
    assert root == _merkle_rec(leaves)
    return enc('vh', H(dec('B', predecessor) + payload_round.to_bytes(4, 'big') + root))


# ---------------------------------------------------------------- forging
def forge_fitness(fitness):
    body = b''.join(len(bytes.fromhex(x)).to_bytes(4, 'big') + bytes.fromhex(x) for x in fitness)
    return len(body).to_bytes(4, 'big') + body


def forge_shell(sh):
    return (sh['level'].to_bytes(4, 'big') + sh['proto'].to_bytes(1, 'big') + dec('B', sh['predecessor'])
            + unix(sh['timestamp']).to_bytes(8, 'big') + sh['validation_pass'].to_bytes(1, 'big')
            + dec('LLo', sh['operations_hash']) + forge_fitness(sh['fitness']) + dec('Co', sh['context']))


def forge_contents(payload_hash_b58, payload_round, nonce, seed_nonce_hash, votes_byte):
    return (dec('vh', payload_hash_b58) + payload_round.to_bytes(4, 'big') + nonce.to_bytes(8, 'big')
            + (b'\xff' + dec('nce', seed_nonce_hash) if seed_nonce_hash else b'\x00') + bytes([votes_byte]))


def forge_activation(proto_hash, fitness, params_bytes):
    """genesis protocol command: tag 0 (activate), protocol hash, fitness, protocol parameters (opaque here)."""
    return b'\x00' + dec('P', proto_hash) + forge_fitness(fitness) + params_bytes


def pow_stamp(unsigned_header):
    return int.from_bytes(H(unsigned_header + b'\x00' * 64)[:8], 'big')


def block_hash(signed_header):
    return enc('B', H(signed_header))


def tenderbake_fitness(level):
    """[version 2, level, locked round (none), -(predecessor round)-1, round] for round 0 after round 0."""
    return ['02', level.to_bytes(4, 'big').hex(), '', 'ffffffff', '00000000']


def threshold_for(classes, stamps):
    """A threshold T with stamp < T for 'below', = T for 'equal', > T for 'above' - or None."""
    eq = [s for c, s in zip(classes, stamps) if c == 'equal']
    lo = [s for c, s in zip(classes, stamps) if c == 'below']
    hi = [s for c, s in zip(classes, stamps) if c == 'above']
    if len(eq) > 1:
        return None
    if eq:
        t = eq[0]
    elif lo:
        t = max(lo) + 1
    else:
        t = min(hi) - 1
    if all(s < t for s in lo) and all(s > t for s in hi) and all(s == t for s in eq) and 0 <= t < 2 ** 64:
        return t
    return None
