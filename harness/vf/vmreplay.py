"""Leg B for the interpreter: replay model behaviours (initial stack, environment, program) through the real
pytezos instruction classes and project the resulting stack back to model terms."""
import json

from . import terms
from .tlaparse import to_json, to_tla

MC = """---- MODULE {name} ----
EXTENDS VM
FamsV == {fams}
AlphabetOfV(f) == {alphabet}
InitsOfV(f) == {inits}
EnvsOfV(f) == {envs}
DepthOfV(f) == {depth}
MaxStackOfV(f) == {maxstack}
====
"""
CFG = """SPECIFICATION Spec
CONSTANTS Fams <- FamsV
 AlphabetOf <- AlphabetOfV
 InitsOf <- InitsOfV
 EnvsOf <- EnvsOfV
 DepthOf <- DepthOfV
 MaxStackOf <- MaxStackOfV
 Fuel = {fuel}
INVARIANT TypePreservation
INVARIANT FailConsistent
{extra}
"""
ENV_KW = {'AMOUNT': 'amount', 'BALANCE': 'balance', 'SENDER': 'sender', 'SOURCE': 'source', 'SELF_ADDRESS': 'address', 'NOW': 'now',
          'LEVEL': 'level', 'CHAIN_ID': 'chain_id', 'TOTAL_VOTING_POWER': 'total_voting_power', 'MIN_BLOCK_TIME': 'min_block_time'}
ENV_T = {'AMOUNT': ('mutez',), 'BALANCE': ('mutez',), 'SENDER': ('address',), 'SOURCE': ('address',), 'SELF_ADDRESS': ('address',),
         'NOW': ('timestamp',), 'LEVEL': ('nat',), 'CHAIN_ID': ('chain_id',), 'TOTAL_VOTING_POWER': ('nat',), 'MIN_BLOCK_TIME': ('nat',)}


def env_tla(e):
    if not e:
        return '[x \\in {} |-> 0]'
    return '[' + ', '.join('%s |-> %s' % (k, to_tla(v)) for k, v in sorted(e.items())) + ']'


def case_of(fams, f):
    return 'CASE ' + '\n   [] '.join('f = "%s" -> %s' % (n, f(fm)) for n, fm in fams.items())


def families_module(name, fams):
    return MC.format(name=name, fams=to_tla(set(fams)),
                     alphabet=case_of(fams, lambda fm: to_tla(set(fm['alphabet']))),
                     inits=case_of(fams, lambda fm: to_tla(set(fm['inits']))),
                     envs=case_of(fams, lambda fm: '{' + ', '.join(env_tla(e) for e in (fm.get('envs') or [{}])) + '}'),
                     depth=case_of(fams, lambda fm: str(fm['depth'])),
                     maxstack=case_of(fams, lambda fm: str(fm.get('maxstack', 5))))


def run_tlc(ctx, name, fams, dump=True, extra='', simulate=None, timeout=1500, depth=None):
    """One TLC run over several families (dict name -> family)."""
    cfg = CFG.format(fuel=max(fm.get('fuel', 4) for fm in fams.values()), extra=extra)
    mod = 'VM_' + name
    return ctx.tlc(mod, cfg, name=mod, gen={mod: families_module(mod, fams)}, dump=dump, simulate=simulate, depth=depth,
                   timeout=timeout, seed=ctx.seed if simulate else None, coverage=False)


_cache = {}


def _mtype(tj):
    from pytezos.michelson.types.base import MichelsonType
    k = json.dumps(tj, sort_keys=True)
    if k not in _cache:
        _cache[k] = MichelsonType.match(tj)
    return _cache[k]


def make_item(t, v, annotate=None):
    tj = terms.type_json(t)
    if annotate:
        tj = annotate(tj)
    return _mtype(tj).from_micheline_value(_ts_text(t, terms.value_json(t, v)))


def _ts_text(t, j):
    """A timestamp literal may be written as an integer or as RFC 3339 text; every other timestamp handed to pytezos (even values, years 1..9999) is
    written as text - the same value, whatever the time zone of the process."""
    if t[0] == 'timestamp' and isinstance(j, dict) and 'int' in j:
        v = int(j['int'])
        if v % 2 == 0 and -62135596800 <= v < 253402300800:
            import datetime
            d = datetime.datetime(1970, 1, 1) + datetime.timedelta(seconds=v)
            return {'string': d.strftime('%Y-%m-%dT%H:%M:%SZ') if d.year >= 1000 else '%04d' % d.year + d.strftime('-%m-%dT%H:%M:%SZ')}
        return j
    if isinstance(j, dict) and 'args' in j and t[0] in ('pair', 'option', 'or') :
        args = list(j['args'])
        if t[0] == 'pair' and len(args) == 2:
            args = [_ts_text(t[1], args[0]), _ts_text(t[2], args[1])]
        elif t[0] == 'option' and len(args) == 1:
            args = [_ts_text(t[1], args[0])]
        elif t[0] == 'or' and len(args) == 1:
            args = [_ts_text(t[1] if j['prim'] == 'Left' else t[2], args[0])]
        return dict(j, args=args)
    return j


def make_context(env):
    from pytezos.context.impl import ExecutionContext
    kw = {}
    for k, v in (env or {}).items():
        t = ENV_T[k]
        j = terms.value_json(t, v)
        kw[ENV_KW[k]] = int(j['int']) if 'int' in j else j['string']
    return ExecutionContext(**kw)


def project_stack(stack):
    out = []
    lim, terms.LIM = terms.LIM, 1 << 100000      # Leg B compares in Python: no 32-bit restriction
    try:
        for item in stack.items[stack.protected:]:
            t = terms.ptype(terms.strip_annots(type(item).as_micheline_expr()))
            try:
                v = terms.pval(t, item.to_micheline_value(mode='readable'))
            except (KeyError, TypeError, ValueError, IndexError, AssertionError, AttributeError) as e:
                # the value does not have the shape of the type pytezos says it has: an observation, not a machinery failure
                v = ('#value-does-not-fit-its-type', type(e).__name__)
            out.append((t, v))
    finally:
        terms.LIM = lim
    return tuple(out)


def run_impl(init, env, program, annotate=None, instr_annotate=None):
    """Returns (status, projected stack | None, failure text)."""
    from pytezos.michelson.instructions.base import MichelsonInstruction
    from pytezos.michelson.micheline import MichelsonRuntimeError
    from pytezos.michelson.stack import MichelsonStack
    stack = MichelsonStack([make_item(t, v, annotate) for (t, v) in init])
    ctx = make_context(env)
    stdout = []
    try:
        for i in program:
            ij = terms.instr_json(i)
            if instr_annotate:
                ij = instr_annotate(ij)
            MichelsonInstruction.match(ij).execute(stack, stdout, ctx)
    except MichelsonRuntimeError as e:
        args = [str(a) for a in e.args]
        if 'FAILWITH' in args:
            return 'fail', None, args[args.index('FAILWITH') + 1] if args.index('FAILWITH') + 1 < len(args) else ''
        return 'err', None, ' / '.join(args)[:300]
    return 'running', project_stack(stack), ''


def fail_repr(slot):
    """text pytezos prints for a FAILWITH value (used only to compare the failure payload)"""
    return repr(make_item(slot[0], slot[1]))


def concretise(v):
    """interpret symbolic digests inside a model stack"""
    if isinstance(v, tuple):
        if len(v) == 3 and v[0] == 'h' and isinstance(v[1], str):
            return ('b', tuple(terms.bytes_of(v)))
        return tuple(concretise(x) for x in v)
    return v


def classify(model_status, model_stack, model_fail, got):
    """None if pytezos agrees with the model, else a short class name + text."""
    status, stack, text = got
    if model_status != status:
        return 'status', 'model %s, pytezos %s (%s)' % (model_status, status, text)
    if status == 'running':
        want = concretise(model_stack)
        if stack != want:
            if tuple(s[0] for s in stack) != tuple(s[0] for s in want):
                return 'type', 'types differ: model %s, pytezos %s' % (to_json([s[0] for s in want]), to_json([s[0] for s in stack]))
            return 'value', 'stack differs: model %s, pytezos %s' % (to_json(want), to_json(stack))
    if status == 'fail':
        try:
            want = fail_repr(concretise(model_fail))
        except Exception as e:     # value pytezos cannot even build
            return None
        if want != text:
            return 'failwith-value', 'FAILWITH value: model %s, pytezos %s' % (want, text)
    return None
