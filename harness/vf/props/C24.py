"""C24 - automatically chosen fees meet the node's default minimal fee.  Spec: OpFees.tla."""
import json

from ..tlaparse import iter_dump, to_json

CFG = """SPECIFICATION Spec
CONSTANTS MaxBatch = %(batch)d
 BigBatches = {%(big)s}
 Kinds = {%(kinds)s}
 KeyKinds = {%(keys)s}
 Modes = {%(modes)s}
 SimPool = {%(sims)s}
 Chains = {%(chains)s}
 NodeHardGas = %(hard_gas)d
 NodeHardStorage = %(hard_storage)d
 ScriptSize = 38
 UniformSim = %(uniform)s
"""
INV_AS_CODED = "INVARIANT FeeOKmodDev\nINVARIANT DevIsReal\nINVARIANT LimitsWithinHard\n"
INV_IDEAL = "INVARIANT FeeOK\n"
ALL_KINDS = ('transaction', 'transaction_kt', 'reveal', 'delegation', 'origination')
ALL_KEYS = ('tz1', 'tz2', 'tz3', 'tz4')
CLASSES = ('bls-signature-size-not-budgeted', 'fill-prices-only-first-content-of-batch')
# must equal Sims of OpFees.tla (checked at start-up against a value printed by TLC would be overkill: the replay compares
# every limit the model derives from them with the implementation's)
SIMS = [(0, 0, False, 0), (1, 0, False, 0), (100000, 0, False, 0), (1000999, 300, True, 0), (1040000000, 59643, True, 0), (168000, 0, True, 0),
        (12345678, 16384, False, 0), (2000000, 0, False, 1), (100000, 77, True, 2)]
INT_MILLIGAS = 1500500
SWEEP_BASE = 160700


def sim_at(ix):
    return SIMS[ix - 1] if ix < 1000 else ((SWEEP_BASE + ix - 1000) * 1000, 0, False, 0)


BLS_SIGN_ATTEMPTS = 2
_bls = {'attempts': 0, 'siglen': None}


def q(xs):
    return ', '.join('"%s"' % x for x in xs)


def fam(name, batch, kinds=ALL_KINDS, keys=ALL_KEYS, modes=('fill', 'autofill'), sims=(1, 2, 3, 4, 5), chains=(10,), uniform=True,
        hard_gas=1040000, hard_storage=60000, big=()):
    return dict(name=name, batch=batch, big=', '.join(map(str, big)), kinds=q(kinds), keys=q(keys), modes=q(modes), sims=', '.join(map(str, sims)),
                chains=', '.join(map(str, chains)), uniform='TRUE' if uniform else 'FALSE', hard_gas=hard_gas, hard_storage=hard_storage)


def families(quick):
    if quick:
        return [fam('b2', 2), fam('big', 1, kinds=('transaction',), keys=('tz1', 'tz4'), modes=('autofill', 'fill'), sims=(1, 2, 6), big=(17, 33, 49)),
                fam('internal', 2, kinds=('transaction', 'transaction_kt', 'origination'), modes=('autofill',), sims=(8, 9, 3), uniform=False), fam('b3', 3, kinds=('transaction', 'reveal', 'origination'), sims=(2, 4, 5)),
                fam('mixed-sims', 2, kinds=('transaction', 'origination'), keys=('tz1', 'tz4'), modes=('autofill',), sims=(1, 3, 5, 7), uniform=False),
                fam('mixed-sizes', 3, kinds=('transaction', 'origination_big'), keys=('tz1', 'tz4'), sims=(2, 3)),
                fam('other-hard-limits', 2, kinds=('transaction', 'transaction_kt', 'origination'), keys=('tz1',), sims=(3, 4), hard_gas=2080000, hard_storage=30000),
                fam('fee-byte-boundary', 1, kinds=('transaction',), keys=('tz1',), modes=('autofill',), sims=tuple(range(1000, 2200, 3)))]
    return [fam('b3', 3, sims=(1, 2, 3, 4, 5, 6, 7), chains=(10, 16383)),
            fam('big', 1, kinds=('transaction',), modes=('autofill', 'fill'), sims=(1, 2, 3, 6), big=(17, 25, 33, 40, 47, 49, 64, 95)),
            fam('b4', 4, kinds=('transaction', 'reveal', 'origination'), sims=(1, 4, 5)),
            fam('internal', 3, kinds=('transaction', 'transaction_kt', 'origination'), modes=('autofill',), sims=(8, 9, 3, 4), uniform=False),
            fam('mixed-sims', 3, kinds=('transaction', 'transaction_kt', 'origination'), modes=('autofill',), sims=(1, 2, 3, 4, 5, 6, 7), uniform=False),
            fam('mixed-sizes', 4, kinds=('transaction', 'reveal', 'origination_big'), sims=(2, 3, 4)),
            fam('other-hard-limits', 2, sims=(3, 4, 5), hard_gas=2080000, hard_storage=30000), fam('small-hard-limits', 2, sims=(3, 4), hard_gas=520000, hard_storage=70000),
            fam('fee-byte-boundary', 1, kinds=('transaction', 'transaction_kt'), keys=('tz1', 'tz4'), modes=('autofill',), sims=tuple(range(1000, 3000)))]
    # other-hard-limits / small-hard-limits: a node serving other constants than mainnet's 1040000 / 60000 (before the fee repair fill() priced the gas of
    # fees.DEFAULT_CONSTANTS while taking the limit from the node; the repaired code prices the limit it sets, so these families hold now).


def observe(kinds, key_kind, mode, sim_ix, chain, hard_gas, hard_storage, via_bulk=False, gas_reserve=None, again=False, pending=0):
    """Real fill()/autofill() against FakeNode -> dict(fees, gases, storages, counters, forged, size, signed)."""
    from ..fakenode import DecodeError, decode_manager_group
    from ..opclient import add_content, make_client, make_key
    key = make_key(key_kind)
    client, node = make_client(key, chain_ctr=chain, constants={'hard_gas_limit_per_operation': str(hard_gas),
                                                               'hard_storage_limit_per_operation': str(hard_storage)})
    for j in range(pending):
        # operations of the account already waiting in the mempool (calls of the very contract the group calls): they move the counter, not the price
        add_content(client, 'transaction_kt', 0).autofill().sign().inject()
    g = client
    if via_bulk:
        # every content has been a group of its own and was autofilled (a cost preview) before the groups are batched: the batch is
        # a new, unfilled group and is priced from scratch
        parts = [add_content(client, kind, j).autofill() for j, kind in enumerate(kinds)]
        g = client.bulk(*parts)
    else:
        for j, kind in enumerate(kinds):
            g = add_content(g, kind, j)
    if mode == 'autofill':
        spec = []
        for j, kind in enumerate(kinds):
            mg, pdiff, alloc, nint = sim_at(sim_ix[0] if j == 0 else sim_ix[1])
            spec.append({'consumed_milligas': mg, 'paid_storage_size_diff': pdiff, 'internal': [INT_MILLIGAS] * nint,
                         'originated' if kind.startswith('origination') else 'allocated_destination_contract': alloc})
        node.sim_script.append(spec)
        f = g.autofill() if gas_reserve is None else g.autofill(gas_reserve=gas_reserve)
        if again:
            # the priced group goes through autofill once more (autofill() for a preview, then send()), and the second simulation consumes more
            spec2 = [dict(x, consumed_milligas=x['consumed_milligas'] * 3 + 250000) for x in spec]
            node.sim_script.append(spec2)
            f = f.autofill()
    else:
        f = g.fill()
    if node.unknown:
        raise RuntimeError('FakeNode does not know %s' % node.unknown[:3])
    out = {'fees': [int(c['fee']) for c in f.contents], 'gases': [int(c['gas_limit']) for c in f.contents],
           'storages': [int(c['storage_limit']) for c in f.contents], 'counters': [int(c['counter']) for c in f.contents]}
    forged = bytes.fromhex(f.forge())
    out['forged'] = len(forged)
    if key_kind == 'tz4' and _bls['attempts'] >= BLS_SIGN_ATTEMPTS:
        # py_ecc signing costs about a second; after a few real attempts the BLS signature length (96) is taken as given
        payload = forged + bytes(_bls['siglen'] or 96)
        out['signed'] = False
    else:
        try:
            payload = f.sign().binary_payload()
            out['signed'] = True
            if key_kind == 'tz4':
                _bls['attempts'] += 1
                _bls['siglen'] = len(payload) - len(forged)
        except Exception as e:   # tz4: Key.sign(generic=True) raises (C23 finding); the size of a BLS-signed operation is forged + 96
            if key_kind != 'tz4':
                raise
            _bls['attempts'] += 1
            payload = forged + bytes(96)
            out['signed'] = False
            out['sign_error'] = '%s: %s' % (type(e).__name__, str(e)[:80])
    out['size'] = len(payload)
    try:
        dec = decode_manager_group(payload)      # the measured bytes are one well-formed signed manager operation
        out['decoded_ok'] = [c['fee'] for c in dec['contents']] == out['fees'] and [c['gas_limit'] for c in dec['contents']] == out['gases']
    except DecodeError as e:
        out['decoded_ok'] = False
        out['decode_error'] = str(e)
    return out


def judge(ctx, st, obs, case):
    m = st['out']
    fee, gas, size = sum(obs['fees']), sum(obs['gases']), obs['size']
    ok = 1000 * fee >= 100000 + 1000 * size + 100 * gas
    model_same = (fee, gas, size) == (m['fee'], m['gas'], m['forged'] + m['sig'])
    limits_same = (list(m['fees']), list(m['gases']), list(m['storages']), list(m['counters'])) == (obs['fees'], obs['gases'], obs['storages'], obs['counters'])
    if not obs['decoded_ok']:     # the measured bytes are not what the filled group says: the size cannot be trusted (machinery, not a verdict)
        raise RuntimeError('signed bytes do not decode to the filled contents (%s): %s' % (obs.get('decode_error'), case))
    if ok:
        if not (model_same and limits_same):
            ctx.extra['as_coded_model_differs_where_property_holds'] = ctx.extra.get('as_coded_model_differs_where_property_holds', 0) + 1
        return
    need = -(-(100000 + 1000 * size + 100 * gas) // 1000)
    detail = ('%s of %s signed by %s (simulation %s): total fee %d mutez < node minimum %d = 100 + %d bytes + ceil(%d gas / 10)'
              % (case['mode'], case['kinds'], case['key'], case['sim'], fee, need, size, gas))
    if 'gas_reserve' in case or case.get('again') or case.get('pending'):
        ctx.mismatch('C24:%s' % ('autofill-with-gas_reserve' if 'gas_reserve' in case else 'autofill-with-pending-operations' if case.get('pending') else 'second-autofill-of-a-priced-group'), detail + '\n(%s)' % (
            'gas_reserve=%s' % case.get('gas_reserve') if 'gas_reserve' in case else '%d operation(s) of the account pending in the mempool' % case['pending'] if case.get('pending') else
            'autofill() of the group autofill() returned, the second simulation consuming more'), case)
    elif model_same and limits_same and m['cls'] in CLASSES:
        ctx.mismatch('C24:' + m['cls'], detail + '\n(OpFees.tla: the as-coded computation gives exactly this fee; class %s)' % m['cls'], case)
    else:
        ctx.mismatch('C24:unexplained', detail + '\nas-coded model: %s\nobserved: %s' % (to_json(m), obs), case)


def replay_state(ctx, st, f):
    case = {'kinds': list(st['kinds']), 'key': st['keyKind'], 'mode': st['mode'], 'sim': list(st['simIx']), 'chain': st['chain'],
            'hard_gas': f['hard_gas'], 'hard_storage': f['hard_storage'], 'model': to_json(st['out'])}
    obs = observe(case['kinds'], case['key'], case['mode'], case['sim'], case['chain'], f['hard_gas'], f['hard_storage'])
    judge(ctx, st, obs, case)
    if case['mode'] == 'autofill' and len(case['kinds']) <= 2 and case['key'] in ('tz1', 'tz4'):
        # the caller's knobs: other gas reserves than the default, and a second pass over an already priced group; the node's rule is judged on what comes out
        for kw in ({'gas_reserve': 0}, {'gas_reserve': 7}, {'gas_reserve': 1000}, {'again': True}) + (({'pending': 1}, {'pending': 3}) if case['key'] == 'tz1' else ()):
            obs3 = observe(case['kinds'], case['key'], case['mode'], case['sim'], case['chain'], f['hard_gas'], f['hard_storage'], **kw)
            ctx.count(('knob', tuple(kw.items())) + tuple(case['kinds']) + (case['key'], tuple(case['sim']), f['hard_gas']), nontrivial=True)
            judge(ctx, {'out': dict(st['out'], cls='with-caller-knobs')}, obs3, dict(case, **kw))
    if case['mode'] == 'fill' and case['key'] == 'tz1' and len(case['kinds']) <= 2 and 'reveal' not in case['kinds'] and 'delegation' not in case['kinds']:
        obs2 = observe(case['kinds'], case['key'], case['mode'], case['sim'], case['chain'], f['hard_gas'], f['hard_storage'], via_bulk=True)
        ctx.count(('bulk',) + tuple(case['kinds']) + (f['hard_gas'],), nontrivial=True)
        judge(ctx, st, obs2, dict(case, via_bulk=True))
    return obs


def refused_then_sent(ctx):
    """send() when the node refuses a first injection for a reason of its own (gas exhausted because the state moved on, a full mempool): whatever the client
    does next - give up or try again - every operation that reaches the node pays the node's minimum for the limits it carries."""
    from ..opclient import add_content, make_client, make_key
    for key_kind in ('tz1', 'tz2'):
        for kind in ('transaction', 'transaction_kt', 'origination'):
            for refusal in ('proto.024-PtTALLiN.gas_exhausted.operation', 'proto.024-PtTALLiN.gas_exhausted.block', 'node.mempool.rejected_by_full_mempool', 'node.prevalidation.oversized_operation'):
                for mg in (1000000, 3456789, 20000000):
                    client, node = make_client(make_key(key_kind), chain_ctr=10)
                    node.inject_refusals = [refusal]
                    node.sim_script.append([{'consumed_milligas': mg, 'paid_storage_size_diff': 10}])
                    case = {'refused_then_sent': True, 'key': key_kind, 'kind': kind, 'refusal': refusal, 'milligas': mg}
                    try:
                        add_content(client, kind, 0).send()
                    except Exception:   # noqa: giving up is fine
                        pass
                    ctx.count(('refused', key_kind, kind, refusal, mg), nontrivial=True)
                    ctx.replayed += 1
                    for rec in node.injections:
                        if rec.get('decoded') and not rec['fee_ok']:
                            ctx.mismatch('C24:operation-reached-node-underpaid:after-refusal', 'send() of a %s by %s, first injection refused with %s: an operation reached the node with fee %d for %d bytes and gas limit %d (minimum %d)' % (
                                kind, key_kind, refusal, rec['fee'], rec['size'], rec['gas'], -(-(100000 + 1000 * rec['size'] + 100 * rec['gas']) // 1000)), case)
                            break


def run(ctx):
    ctx.rule = ('Leg A: OpFees.tla (fee computation as coded + the node\'s minimal-fee rule) for every batch over the kind pool x key kind x '
                'fill/autofill x simulated consumption; Leg B: every scenario is run through the real fill()/autofill() against FakeNode, '
                'signed with a real key, and the bound is evaluated on the real fee, gas limits and signed length; every scenario counts '
                'as non-trivial (each has its own kinds/key/simulation combination)')
    ctx.assumptions = [
        'node rule: 1000*fee >= 100000 + 1000*signed_size + 100*total_gas_limit (default minimal_fees / nanotez_per_byte / nanotez_per_gas_unit)',
        'a tz4-signed operation is at least forged bytes + 96 (BLS signature); used when Key.sign cannot produce the signature (C23 finding)',
        'the node serves the mainnet constants hard_gas_limit_per_operation = 1040000, hard_storage_limit_per_operation = 60000, and in two families a node with other constants (2080000 / 30000, 520000 / 70000)',
        'simulation results are served by FakeNode (consumed_milligas, paid_storage_size_diff, allocation flags from the model\'s pool); the mempool is empty',
        'contents: transfers to an implicit / originated account, reveal, self-delegation, origination of a fixed 28-byte script; amounts 1..4 mutez',
        'no Leg C: the fee computation is a function of the scenario, recorded calls would repeat Leg B',
    ]
    exemplars = {}
    for f in families(ctx.quick):
        r = ctx.tlc('OpFees', CFG % f + INV_AS_CODED, name='OpFees-' + f['name'], dump=True, timeout=900, workers=4 if ctx.quick else None)
        ctx.require_no_violation(r, 'OpFees ' + f['name'])
        ctx.require_coverage(r, ['FillStep', 'Sign'] + (['AutoStep', 'Place'] if 'autofill' in f['modes'] else []))
        for st in iter_dump(r.dump):
            if st['pc'] != 'done':
                continue
            obs = replay_state(ctx, st, f)
            ctx.replayed += 1
            ctx.count((f['hard_gas'], st['kinds'], st['keyKind'], st['mode'], st['simIx'], st['chain']), nontrivial=True)
            cls = st['out']['cls']
            if cls in CLASSES:
                n = (len(st['kinds']), st['mode'] != 'fill')
                if cls not in exemplars or n < exemplars[cls][0]:
                    exemplars[cls] = (n, {'kinds': list(st['kinds']), 'key': st['keyKind'], 'mode': st['mode'], 'fee': st['out']['fee'],
                                          'gas': st['out']['gas'], 'signed_size': st['out']['forged'] + st['out']['sig']})
            if len(st['kinds']) <= 2:
                ctx.sample({'kinds': st['kinds'], 'key': st['keyKind'], 'mode': st['mode'], 'sim': st['simIx'], 'fee': sum(obs['fees']),
                            'gas': sum(obs['gases']), 'signed_size': obs['size'], 'class': cls}, limit=6)
    ctx.exhaustive = True
    refused_then_sent(ctx)
    f = fam('ideal', 2)
    r = ctx.tlc('OpFees', CFG % f + INV_IDEAL, name='OpFees-ideal', workers=1, timeout=600, coverage=False)
    ctx.extra['ideal_invariant_on_as_coded_computation'] = {'violated': r.violation}
    ctx.extra['smallest_scenario_per_deviation_class'] = {k: v[1] for k, v in exemplars.items()}
    if r.violation is None:
        ctx.notes.append('FeeOK (ideal) is no longer violated by the as-coded computation: OpFees.tla has been changed')


def replay(ctx, rep):
    c = rep['case']
    if c.get('refused_then_sent'):
        refused_then_sent(ctx)
        return report_replay(ctx, rep)
    m = c['model']
    st = {'kinds': tuple(c['kinds']), 'keyKind': c['key'], 'mode': c['mode'], 'simIx': tuple(c['sim']), 'chain': c['chain'],
          'out': dict(m, fees=tuple(m['fees']), gases=tuple(m['gases']), storages=tuple(m['storages']), counters=tuple(m['counters']))}
    replay_state(ctx, st, {'hard_gas': c['hard_gas'], 'hard_storage': c['hard_storage']})
    return report_replay(ctx, rep)



def report_replay(ctx, rep):
    """exit 1 iff the saved disagreement (same signature) shows again."""
    hits = [m for m in ctx.mismatches if m.signature == rep.get('signature')]
    for m in hits:
        print('REPRODUCED', m.signature, m.detail)
    for sig in sorted(set(m.signature for m in ctx.mismatches if m not in hits)):
        print('NOT-THE-SAVED-CASE: this run shows', sig)
    if not hits:
        print('not reproduced:', rep.get('signature'))
    return 1 if hits else 0


META = {
    'category': 'model_checking',
    'text': ('OpFees.tla states the node\'s default minimal-fee rule and, separately, the fee computation of fill()/autofill() as coded, one '
             'action per content. TLC checks over every batch of the kind pool, every key kind, both filling modes and a pool of simulated '
             'consumptions that the as-coded fee misses the rule only in named classes; every scenario is run through the real '
             'fill()/autofill() against a simulated node, signed with a real key, and the rule is evaluated on the real fee, gas limits and '
             'signed byte length; a miss is a known-finding class only if it is exactly the as-coded machine\'s, otherwise C24:unexplained.'),
    'design_ref': 'DESIGN.md section 5 C24, A.5',
    'note': ('Trusted: FakeNode constants/simulation answers, the size of a BLS-signed operation taken as forged + 96 while tz4 keys cannot sign. '
             'Bounds: batches <= 3 (4 thorough) over 5 manager content shapes, 4 key kinds, 5-7 simulated consumptions incl. 0 and the hard limits.'),
    'technique': 'TLA+ spec + TLC exhaustive model checking; spec-scenario replay into OperationGroup.fill/autofill/sign against a simulated node',
}
