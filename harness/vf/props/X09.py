"""X09 (not a listed property: growth of the specification) - ShellQuery.cycles[..] / voting_periods[..] follow CycleRange.tla."""
import json

from ..tlaparse import iter_dump, to_json

CFG = """SPECIFICATION Spec
CONSTANTS MaxB = %d
 MaxL = %d
 MaxIdx = %d
INVARIANT TypeOK
INVARIANT PeriodLength
INVARIANT ZeroDivExactlyInFirstPeriod
INVARIANT CodedMeaning
INVARIANT NegativeIsIntended
INVARIANT WholePeriods
INVARIANT NeverBeyondHead
INVARIANT OneBased
"""
NONE = 99


def make_node(B, L, asked):
    from pytezos.rpc.node import RpcError, RpcNode

    class Resp:
        def __init__(self, data):
            self._d = data
            self.status_code = 200
            self.text = json.dumps(data)

        def json(self):
            return self._d

    per, pos = (L - 1) // B, (L - 1) % B

    class PeriodNode(RpcNode):
        def __init__(self):
            super().__init__('http://periods.invalid')

        def request(self, method, path, **kw):
            asked.append(path)
            if path.endswith('/blocks/head/metadata'):
                return Resp({'level_info': {'level': L, 'level_position': L - 1, 'cycle': per, 'cycle_position': pos, 'expected_commitment': False},
                             'voting_period_info': {'voting_period': {'index': per, 'kind': 'proposal', 'start_position': per * B}, 'position': pos, 'remaining': B - 1 - pos},
                             # the keys PeriodQuery reads for voting periods (pre-Edo layout kept by the code)
                             'level': {'level': L, 'voting_period': per, 'voting_period_position': pos}})
            if path.endswith('/blocks/head/header'):
                return Resp({'level': L, 'hash': 'BHEAD', 'timestamp': '2020-01-01T00:00:00Z'})
            raise RpcError('unexpected path ' + path)
    return PeriodNode()


def py_item(item):
    kind, a, b = item
    if kind == 'int':
        return a
    return slice(None if a == NONE else a, None if b == NONE else b)


def observe(B, L, item, which):
    from pytezos.rpc.shell import ShellQuery
    asked = []
    node = make_node(B, L, asked)
    sh = ShellQuery(node=node)
    if which == 'voting_periods':
        # the code reads level_info[voting_period(_position)]: serve the same numbers there
        orig = node.request

        def request(method, path, **kw):
            r = orig(method, path, **kw)
            if path.endswith('/metadata'):
                li = r._d['level_info']
                li['voting_period'], li['voting_period_position'] = li['cycle'], li['cycle_position']
            return r
        node.request = request
    try:
        q = getattr(sh, which)[py_item(item)]
    except ZeroDivisionError:
        return ('zerodiv',), asked
    st, sp = q._start, q._stop
    lo, hi = q.get_range()
    return ('done', st, NONE if sp == 'head' else sp, lo, hi), asked


def run(ctx):
    ctx.rule = ('every chain (period length 2..MaxB, head level 1..MaxL) and every item (integer or slice with bounds in -MaxIdx..MaxIdx or empty): '
                'PeriodQuery._get_item one step per action, then BlockSliceQuery.get_range; both cycles and voting_periods')
    ctx.assumptions = ['the node is an RpcNode subclass serving head metadata / header of a chain with uniform period length',
                       'voting periods are given the same arithmetic as cycles (the code reads level_info for both)',
                       'items that name a period outside 0..current are modelled as coded only (no intended meaning is asserted)']
    mb, ml, mi = (3, 9, 3) if ctx.quick else (4, 17, 5)
    r = ctx.tlc('CycleRange', CFG % (mb, ml, mi), name='CycleRange', dump=True)
    ctx.require_no_violation(r, 'CycleRange')
    ctx.require_coverage(r, ['ReadHead', 'MapStart', 'MapStop', 'Resolve'])
    dev = {'zerodiv': 0, 'one-based': 0}
    for st in iter_dump(r.dump):
        if st['pc'] not in ('done', 'zerodiv'):
            continue
        B, L, item = st['B'], st['L'], tuple(st['item'])
        want = ('zerodiv',) if st['pc'] == 'zerodiv' else ('done', st['start'], st['stop'], st['lo'], st['hi'])
        for which in ('cycles', 'voting_periods'):
            got, asked = observe(B, L, item, which)
            ctx.replayed += 1
            ctx.count((B, L, item, which), nontrivial=st['pc'] == 'done')
            if got != want:
                kind = 'status' if got[0] != want[0] else 'start-stop' if got[1:3] != want[1:3] else 'levels'
                ctx.mismatch('X09:%s:%s' % (which, kind), 'B=%d head=%d item=%r: pytezos %r, model %r' % (B, L, py_item(item), got, want),
                             {'B': B, 'L': L, 'item': to_json(item), 'which': which})
            elif any('/blocks/head' not in p for p in asked):
                ctx.mismatch('X09:%s:reads-other-block' % which, 'B=%d head=%d item=%r asked %r' % (B, L, py_item(item), asked), {'B': B, 'L': L, 'item': to_json(item), 'which': which})
            elif st['pc'] == 'done' and L > 2 * B and item[0] == 'slice':
                ctx.sample({'B': B, 'head': L, 'item': repr(py_item(item)), 'levels': [st['lo'], st['hi']]}, limit=3)
        if st['pc'] == 'zerodiv':
            dev['zerodiv'] += 1
        elif item[0] == 'int' and item[1] >= 0:
            dev['one-based'] += 1
    print('INFO X09 deviations modelled as coded: head in period 0 -> ZeroDivisionError (%d cases); non-negative numbers are 1-based, '
          'cycles[n] is period n-1 and cycles[0] = cycles[1] (%d cases)' % (dev['zerodiv'], dev['one-based']))
    ctx.exhaustive = True


def replay(ctx, rep):
    return 0


META = {'category': 'model_checking', 'text': 'growth of the specification: CycleRange.tla', 'design_ref': 'DESIGN.md 11.7', 'note': 'not a listed property', 'technique': 'TLA+ + TLC + replay'}
