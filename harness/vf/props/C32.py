"""C32 - view definitions are accepted exactly when Tezos accepts them.  Spec: ViewCheck.tla."""
import json
import hashlib

from ..tlaparse import to_json
from ..tlc import MachineryError

CFG = """SPECIFICATION Spec
CONSTANTS NameLens = {%(lens)s}
 Fills = {%(fills)s}
 Specials = {%(specials)s}
 Leaves = {%(leaves)s}
 LamKinds = {%(lams)s}
 CodeSize = %(size)d
 CodeDepth = %(depth)d
 MaxSeq = %(maxseq)d
INVARIANT VerdictAgrees
INVARIANT VerdictSet
INVARIANT EmitDone
"""

# ---- character classes of the spec -> real characters (several per class, chosen by position) ----
CLASS_CHARS = {
    # allowed by Tezos (Script_ir_annot.is_allowed_char)
    'lower': 'abcdefghijklmnopqrstuvwxyz', 'upper': 'ABCDEFGHIJKLMNOPQRSTUVWXYZ', 'digit': '0123456789',
    'underscore': '_', 'dot': '.', 'percent': '%', 'at': '@',
    # forbidden, printable ASCII (neighbours of the allowed ranges included)
    'minus': '-', 'space': ' ', 'bang': '!', 'hash': '#', 'dollar': '$', 'amp': '&', 'plus': '+', 'star': '*',
    'slash': '/', 'colon': ':', 'lbracket': '[', 'backtick': '`', 'lbrace': '{', 'tilde': '~', 'quote': '"',
    'backslash': '\\', 'comma': ',', 'question': '?', 'caret': '^',
    # forbidden, control / non-ASCII (Michelson strings are printable ASCII; letters and digits mean a-z A-Z 0-9)
    'newline': '\n', 'tab': '\t', 'eacute': 'é', 'cyrillic_a': 'а', 'arabic_three': '٣',
    'fullwidth_a': 'ａ', 'superscript_two': '²',
    # letters outside ASCII that case-folding maps onto ASCII letters (dotless i, dotted I, long s, Kelvin sign): not letters of a view name
    'casefold': '\u0131\u0130\u017f\u212a',
}
ALLOWED = ['lower', 'upper', 'digit', 'underscore', 'dot', 'percent', 'at']
FORBIDDEN = [c for c in CLASS_CHARS if c not in ALLOWED]
STATEFUL = ('TRANSFER_TOKENS', 'CREATE_CONTRACT', 'SET_DELEGATE')

UNIT = {'prim': 'unit'}
NAT = {'prim': 'nat'}
LAM_T = {'prim': 'lambda', 'args': [UNIT, UNIT]}


def P(prim, *args):
    return {'prim': prim, 'args': list(args)} if args else {'prim': prim}


NEUTRALS = [P('DROP'), P('UNIT'), P('PUSH', NAT, {'int': '1'}), P('NIL', P('operation')), P('SWAP'), P('CONTRACT', UNIT),
            P('SENDER'), P('SELF_ADDRESS'), P('AMOUNT'), P('VIEW', {'string': 'other'}, UNIT), P('EXEC'), P('APPLY'),
            P('DIG', {'int': '2'}), P('EMPTY_MAP', NAT, NAT), P('ADDRESS'), P('IMPLICIT_ACCOUNT'), P('PUSH', {'prim': 'string'}, {'string': 'SELF'}),
            P('DUP', {'int': '2'}), P('CAR'), P('NONE', P('key_hash')), P('BALANCE')]
NESTED_SCRIPT = [P('parameter', UNIT), P('storage', UNIT), P('code', [P('CDR'), P('NIL', P('operation')), P('PAIR')])]
C1 = [lambda b: P('DIP', b), lambda b: P('MAP', b), lambda b: P('ITER', b), lambda b: P('LOOP', b), lambda b: P('LOOP_LEFT', b),
      lambda b: P('DIP', {'int': '2'}, b)]
C2 = ['IF', 'IF_NONE', 'IF_LEFT', 'IF_CONS']
PUSHNEST = [lambda b: P('PUSH', P('pair', NAT, LAM_T), P('Pair', {'int': '1'}, b)),
            lambda b: P('PUSH', P('option', LAM_T), P('Some', b)),
            lambda b: P('PUSH', P('list', LAM_T), [b]),
            lambda b: P('PUSH', P('or', NAT, LAM_T), P('Right', b)),
            lambda b: P('PUSH', P('map', NAT, LAM_T), [P('Elt', {'int': '1'}, b)]),
            lambda b: P('PUSH', P('pair', LAM_T, NAT), P('Pair', b, {'int': '1'})),
            # the lambda type two or three levels below the pushed type (seeded C32_13: a non-recursive search for `lambda`)
            lambda b: P('PUSH', P('pair', NAT, P('pair', NAT, LAM_T)), P('Pair', {'int': '1'}, P('Pair', {'int': '2'}, b))),
            lambda b: P('PUSH', P('list', P('option', LAM_T)), [P('Some', b)]),
            lambda b: P('PUSH', P('map', NAT, P('or', UNIT, LAM_T)), [P('Elt', {'int': '1'}, P('Right', b))]),
            lambda b: P('PUSH', P('option', P('pair', P('list', LAM_T), NAT)), P('Some', P('Pair', [b], {'int': '1'}))),
            lambda b: P('PUSH', P('pair', NAT, NAT, LAM_T), P('Pair', {'int': '1'}, {'int': '2'}, b)),
            lambda b: P('PUSH', P('lambda', UNIT, LAM_T), [P('DROP'), P('LAMBDA', UNIT, UNIT, b)])]
TYPES = [UNIT, NAT, P('pair', NAT, P('string')), P('option', P('address'))]


def _h(obj):
    return int.from_bytes(hashlib.blake2b(repr(obj).encode(), digest_size=4).digest(), 'big')


class Conc:
    """abstract tree -> Micheline JSON; the concrete instruction standing for an abstract node rotates with a counter"""

    def __init__(self, seed):
        self.k = seed

    def nxt(self, pool):
        self.k += 1
        return pool[self.k % len(pool)]

    def body(self, b):
        return [self.node(n) for n in b]

    def node(self, n):
        t = n[0]
        if t == 'I':
            if n[1] == 'NEUTRAL':
                return self.nxt(NEUTRALS)
            if n[1] == 'CREATE_CONTRACT':
                return P('CREATE_CONTRACT', NESTED_SCRIPT)
            return P(n[1])
        if t == 'C1':
            return self.nxt(C1)(self.body(n[1]))
        if t == 'C2':
            return P(self.nxt(C2), self.body(n[1]), self.body(n[2]))
        kind, b = n[1], self.body(n[2])
        if kind in ('LAMBDA', 'LAMBDA_REC'):
            return P(kind, UNIT, UNIT, b)
        if kind == 'PUSH':
            return P('PUSH', LAM_T, b)
        return self.nxt(PUSHNEST)(b)


def conc_name(name, seed):
    out = []
    for k, cls in enumerate(name):
        chars = CLASS_CHARS[cls]
        out.append(chars[(k + seed) % len(chars)])
    return ''.join(out)


def view_expr(name, code, seed):
    c = Conc(seed)
    body = c.body(code)
    return P('view', {'string': conc_name(name, seed)}, TYPES[seed % len(TYPES)], TYPES[(seed // 4) % len(TYPES)], body)


def impl(expr):
    """accept / reject as observed at the public entry point"""
    import pytezos.michelson.instructions  # noqa: registers the instruction classes
    import pytezos.michelson.types  # noqa
    from pytezos.michelson.micheline import Micheline, MichelsonRuntimeError
    from pytezos.michelson.sections.view import ViewSection
    try:
        Micheline.match(expr['args'][3])
    except Exception as e:   # the concretised code is not even Micheline pytezos knows: harness problem, not a verdict
        raise MachineryError('concretised code does not parse: %r %s' % (e, expr['args'][3]))
    try:
        cls = ViewSection.match(expr)
    except MichelsonRuntimeError as e:
        return 'reject', str(e.args[-1])[:100]
    if not (isinstance(cls, type) and issubclass(cls, ViewSection)):
        return 'other', repr(cls)[:100]
    return 'accept', ''


def occurrences(b, lam=()):
    """(prim, tuple of enclosing lambda kinds) of every instruction; only used to name the class of a mismatch"""
    for n in b:
        if n[0] == 'I':
            yield n[1], lam
        elif n[0] == 'C1':
            yield from occurrences(n[1], lam)
        elif n[0] == 'C2':
            yield from occurrences(n[1], lam)
            yield from occurrences(n[2], lam)
        else:
            yield from occurrences(n[2], lam + (n[1],))


def input_class(name, code):
    """violated clauses of the property (empty list = the view is fine) + kinds of lambda bodies holding stateful instructions"""
    bad = []
    if len(name) > 31:
        bad.append('name-too-long')
    if any(c in FORBIDDEN and ord(CLASS_CHARS[c][0]) < 128 for c in name):
        bad.append('name-forbidden-ascii-char')
    if any(c in FORBIDDEN and ord(CLASS_CHARS[c][0]) >= 128 for c in name):
        bad.append('name-non-ascii-char')
    occ = list(occurrences(code))
    if any(p == 'SELF' for p, _ in occ):
        bad.append('SELF')
    out = sorted({p for p, lam in occ if p in STATEFUL and not lam})
    if out:
        bad.append('outside-lambda-' + ','.join(out))
    kinds = sorted({lam[-1] for p, lam in occ if p in STATEFUL and lam})
    return bad, kinds


UNIT_T = {'prim': 'unit'}
SCRIPT = lambda view, code=None: [{'prim': 'parameter', 'args': [UNIT_T]}, {'prim': 'storage', 'args': [UNIT_T]},
                                  {'prim': 'code', 'args': [code or [{'prim': 'CDR'}, {'prim': 'NIL', 'args': [{'prim': 'operation'}]}, {'prim': 'PAIR'}]]}, view]


def impl_other(expr, how):
    """the same view met on another way in: as a section of a whole script, or inside the script of a CREATE_CONTRACT of another contract"""
    from pytezos.michelson.micheline import MichelsonRuntimeError
    from pytezos.michelson.program import MichelsonProgram
    script = SCRIPT(expr)
    if how == 'nested':
        outer = [{'prim': 'DROP'}, {'prim': 'UNIT'}, {'prim': 'PUSH', 'args': [{'prim': 'mutez'}, {'int': '0'}]}, {'prim': 'NONE', 'args': [{'prim': 'key_hash'}]},
                 {'prim': 'CREATE_CONTRACT', 'args': [script]}, {'prim': 'DROP'}, {'prim': 'DROP'}, {'prim': 'UNIT'}, {'prim': 'NIL', 'args': [{'prim': 'operation'}]}, {'prim': 'PAIR'}]
        script = SCRIPT({'prim': 'view', 'args': [{'string': 'plain'}, UNIT_T, UNIT_T, [{'prim': 'CDR'}]]}, outer)
    try:
        MichelsonProgram.match(script)
    except (MichelsonRuntimeError, AssertionError) as e:
        return 'reject', str(e.args[-1])[:100]
    return 'accept', ''


def compare(ctx, name, code, verdict, expr):
    got, why = impl(expr)
    case = {'name': to_json(name), 'code': to_json(code), 'model': verdict, 'expr': expr}
    if got == verdict:
        # a view is a view wherever it stands: the other ways in give the same verdict (all rejected views, every fifth accepted one)
        import zlib
        if verdict == 'reject' or zlib.crc32(json.dumps(expr, sort_keys=True).encode()) % 5 == 0:
            for how in ('script', 'nested'):
                g2, w2 = impl_other(expr, how)
                ctx.count((how, json.dumps(expr, sort_keys=True)), nontrivial=True)
                if g2 != verdict:
                    bad, kinds = input_class(name, code)
                    ctx.mismatch('C32:%s:%s:%s' % (how, 'accepted' if g2 == 'accept' else 'rejected', '+'.join(bad) or 'plain-view'),
                                 'view %s %s: MichelsonProgram.match gave %s %s, ViewSection.match and the model say %s' % (
                                     short(expr), 'as a section of a script' if how == 'script' else 'inside the script of a CREATE_CONTRACT', g2, w2, verdict), dict(case, how=how))
                    return False
        return True
    bad, kinds = input_class(name, code)
    if got == 'accept':
        sig = 'C32:match:accepted:' + '+'.join(bad)
    elif got == 'reject':
        sig = 'C32:match:rejected:' + ('stateful-in-' + '+'.join(kinds) + '-body' if kinds else 'plain-view')
    else:
        sig = 'C32:match:returned-non-view'
    ctx.mismatch(sig, 'view %s: ViewSection.match gave %s %s, the model says %s (violated clauses: %s)' % (
        short(expr), got, why, verdict, bad or 'none'), case)
    return False


def short(expr):
    from pytezos.michelson.format import micheline_to_michelson
    try:
        return '%r %s' % (expr['args'][0]['string'], micheline_to_michelson(expr['args'][3], inline=True)[:300])
    except Exception:
        return repr(expr)[:400]


def q(xs):
    return ', '.join('"%s"' % x for x in xs)


def family(ctx, fname, lens, fills, specials, leaves, lams, size, depth, maxseq, timeout=900):
    cfg = CFG % dict(lens=', '.join(map(str, lens)), fills=q(fills), specials=q(specials), leaves=q(leaves), lams=q(lams),
                     size=size, depth=depth, maxseq=maxseq)
    r = ctx.tlc('ViewCheck', cfg, name='ViewCheck_' + fname, timeout=timeout)
    ctx.require_no_violation(r, 'ViewCheck_' + fname)
    ctx.require_coverage(r, ['Pick', 'CheckLen', 'CheckChar', 'Visit'])
    outs = [v for v in r.printed if v[0] == 'OUT']
    if not outs:
        raise MachineryError('no completed checks exported by family ' + fname)
    seen = {'accept': 0, 'reject': 0}
    for _, name, code, verdict in outs:
        seed = _h((name, code)) + ctx.seed
        expr = view_expr(name, code, seed)
        ok = compare(ctx, name, code, verdict, expr)
        ctx.again(compare, ctx, name, code, verdict, expr)
        seen[verdict] += 1
        ctx.replayed += 1
        bad, kinds = input_class(name, code)
        ctx.count((name, code), nontrivial=bool(bad or kinds))
        if ok and (kinds or bad) and _h((name, code, 's')) % 97 == 0:
            ctx.sample({'view': short(expr), 'model': verdict}, limit=8)
    if not seen['accept'] or not seen['reject']:
        raise MachineryError('vacuity: family %s has only %s' % (fname, seen))
    ctx.notes.append('family %s: %d cases (%d accept / %d reject in the model)' % (fname, len(outs), seen['accept'], seen['reject']))


ALL_LEAVES = ['SELF', 'TRANSFER_TOKENS', 'CREATE_CONTRACT', 'SET_DELEGATE', 'NEUTRAL']
ALL_LAMS = ['LAMBDA', 'LAMBDA_REC', 'PUSH', 'PUSHNEST']


def run(ctx):
    ctx.rule = ('names = a fill class with one special character class (7 allowed, 28 forbidden incl. range neighbours, control and non-ASCII) at the first / middle / last '
                'position, lengths around the 31 limit; code trees over SELF / TRANSFER_TOKENS / CREATE_CONTRACT / SET_DELEGATE / a neutral instruction, containers with one '
                'and two bodies, and the four kinds of lambda body, enumerated by TLC up to a node-count and depth bound; Leg A: the step-wise walk agrees with the '
                'declarative property; Leg B: every (name, code) is built as Micheline and given to ViewSection.match; non-trivial = some clause of the property is '
                'violated or a stateful instruction sits in a lambda body')
    ctx.assumptions = ['the script nested in CREATE_CONTRACT is a fixed harmless script (what the view restrictions mean inside it is outside the compared domain)',
                       'only acceptance by the view-specific rules is compared: the code is not type checked (pytezos does not type check at match time either), so ill-typed code counts as accepted',
                       'lambda literals nested in pushed pairs / options / lists / ors / maps count as pushed lambda literals (the protocol enters lambda context for every Lambda_t datum)',
                       'letters and digits mean a-z A-Z 0-9 (Michelson strings are printable ASCII)']
    lens = [0, 1, 2, 30, 31, 32, 33, 40]
    # names x a few codes
    family(ctx, 'names', lens, ['lower', 'digit'] if ctx.quick else ['lower', 'upper', 'digit', 'dot'], ALLOWED + FORBIDDEN,
           ['TRANSFER_TOKENS', 'NEUTRAL'], ['LAMBDA_REC'], 1 if ctx.quick else 2, 1, 1)
    # code trees x one valid name
    one = dict(lens=[1], fills=['lower'], specials=['lower'])
    if ctx.quick:
        family(ctx, 'deep', leaves=ALL_LEAVES, lams=ALL_LAMS, size=4, depth=3, maxseq=1, **one)
        family(ctx, 'wide_a', leaves=['SELF', 'TRANSFER_TOKENS', 'NEUTRAL'], lams=ALL_LAMS, size=3, depth=3, maxseq=3, **one)
        family(ctx, 'wide_b', leaves=['CREATE_CONTRACT', 'SET_DELEGATE', 'NEUTRAL'], lams=ALL_LAMS, size=3, depth=3, maxseq=3, **one)
    else:
        family(ctx, 'deep', leaves=ALL_LEAVES, lams=ALL_LAMS, size=5, depth=4, maxseq=1, timeout=1800, **one)
        family(ctx, 'wide_a', leaves=['SELF', 'TRANSFER_TOKENS', 'NEUTRAL'], lams=ALL_LAMS, size=4, depth=4, maxseq=4, timeout=1800, **one)
        family(ctx, 'wide_b', leaves=['CREATE_CONTRACT', 'SET_DELEGATE', 'NEUTRAL'], lams=ALL_LAMS, size=4, depth=4, maxseq=4, timeout=1800, **one)
        family(ctx, 'mixed', leaves=ALL_LEAVES, lams=ALL_LAMS, size=3, depth=3, maxseq=3, lens=[31, 32], fills=['upper'], specials=['upper', 'at', 'minus'])
    ctx.second_pass()
    ctx.exhaustive = True


def replay(ctx, rep):
    c = rep['case']

    def tup(x):
        return tuple(tup(y) for y in x) if isinstance(x, list) else x
    ok = compare(ctx, tup(c['name']), tup(c['code']), c['model'], c['expr'])
    for m in ctx.mismatches:
        print('REPRODUCED', m.signature, m.detail)
    return 0 if ok else 1


META = {
    'category': 'model_checking',
    'text': ('ViewCheck.tla models the acceptance check of a view definition as a checker runs it (name scanned character by character, code walked node by node with an '
             'explicit work stack carrying the inside-a-lambda-body flag) and states the Tezos rule declaratively over instruction occurrences; TLC checks that both agree '
             'for every name shape and every code tree up to the bound, and every enumerated (name, code) is built as Micheline and given to ViewSection.match, '
             'whose accept / reject must equal the model.'),
    'design_ref': 'DESIGN.md section 5 C32',
    'note': ('Trusted: concretisation of character classes and abstract nodes (DIP/MAP/ITER/LOOP/LOOP_LEFT, IF/IF_NONE/IF_LEFT/IF_CONS, LAMBDA, LAMBDA_REC, PUSH of a lambda, '
             'PUSH of pair/option/list/or/map holding a lambda, 21 neutral instructions incl. SELF_ADDRESS). Bounds quick: names of length 0,1,2,30..33,40; trees <= 4 nodes '
             'nested <= 3 with single-node bodies, <= 3 nodes with bodies up to 3; thorough: <= 5 nodes nested <= 4, <= 4 nodes with bodies up to 4, bad names x trees. No Leg C: match is a pure function.'),
    'technique': 'TLA+ spec + TLC exhaustive model checking; spec-behaviour replay into ViewSection.match',
}
