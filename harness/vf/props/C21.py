"""C21 - BLS12-381 operations respect group and field laws.  Spec: MichBls.tla (exponent model over BigInt.tla)."""
import json

from ..tlaparse import to_json, to_tla
from .C16 import limb, unlimb

R = 0x73EDA753299D7D483339D80809A1D80553BDA402FFFE5BFEFFFFFFFF00000001
MC = """---- MODULE MichBlsMC ----
EXTENDS MichBls
RV == %s
CasesV == %s
ValsOfV(kind) == %s
PairListsV == %s
====
"""
LAWS = ['InRange', 'Identity', 'Inverse', 'Commutative', 'Associative', 'Distributive', 'MulOne', 'MulOrder', 'PairingBilinear', 'Emit']
CFG = "SPECIFICATION Spec\nCONSTANTS R <- RV\n Cases <- CasesV\n ValsOf <- ValsOfV\n PairLists <- PairListsV\n" + ''.join('INVARIANT %s\n' % l for l in LAWS)
CASES = [('ADD_G1', 'pt', 'pt'), ('ADD_G2', 'pt', 'pt'), ('ADD_FR', 'fr', 'fr'), ('NEG_G1', 'pt', '-'), ('NEG_G2', 'pt', '-'), ('NEG_FR', 'fr', '-'),
         ('MUL_G1', 'pt', 'fr'), ('MUL_G2', 'pt', 'fr'), ('MUL_FR', 'fr', 'fr'), ('MUL_INT_FR', 'int', 'fr'), ('MUL_NAT_FR', 'nat', 'fr'),
         ('MUL_FR_INT', 'fr', 'int'), ('MUL_FR_NAT', 'fr', 'nat'), ('INT', 'fr', '-'), ('PAIRING_CHECK', 'zero', '-')]
_pts = {}


def g_point(group, k):
    """k.G as an affine point (or None for infinity), by py_ecc scalar multiplication"""
    from py_ecc.optimized_bls12_381 import G1, G2, multiply, normalize
    k %= R
    if k == 0:
        return None
    key = (group, k)
    if key not in _pts:
        _pts[key] = normalize(multiply(G1 if group == 1 else G2, k))
    return _pts[key]


def ser(group, k):
    """own serialiser of the uncompressed zcash format"""
    p = g_point(group, k)
    n = 96 if group == 1 else 192
    if p is None:
        return bytes([0x40]) + bytes(n - 1)
    x, y = p
    if group == 1:
        return int(x).to_bytes(48, 'big') + int(y).to_bytes(48, 'big')
    (x0, x1), (y0, y1) = x.coeffs, y.coeffs
    return int(x1).to_bytes(48, 'big') + int(x0).to_bytes(48, 'big') + int(y1).to_bytes(48, 'big') + int(y0).to_bytes(48, 'big')


def item(kind, group, v):
    from pytezos.michelson.types.base import MichelsonType
    if kind == 'pt':
        return MichelsonType.match({'prim': 'bls12_381_g%d' % group}).from_micheline_value({'bytes': ser(group, v).hex()})
    if kind == 'fr':
        return MichelsonType.match({'prim': 'bls12_381_fr'}).from_micheline_value({'bytes': (v % R).to_bytes(32, 'little').hex()})
    return MichelsonType.match({'prim': kind}).from_micheline_value({'int': str(v)})


def execute(prim, items):
    from pytezos.context.impl import ExecutionContext
    from pytezos.michelson.instructions.base import MichelsonInstruction
    from pytezos.michelson.micheline import MichelsonRuntimeError
    from pytezos.michelson.stack import MichelsonStack
    st = MichelsonStack(items)
    try:
        MichelsonInstruction.match({'prim': prim}).execute(st, [], ExecutionContext())
    except MichelsonRuntimeError as e:
        return ('err', ' / '.join(str(a) for a in e.args)[:200])
    r = st.items[0]
    return ('ok', r.prim, r.to_micheline_value(mode='optimized'))


def compare(ctx, case, x, y, pl, res):
    op, ta, tb = case
    case_json = {'case': list(case), 'x': x, 'y': y, 'pl': to_json(pl), 'res': to_json(res)}
    group = 2 if op.endswith('G2') else 1
    if op == 'PAIRING_CHECK':
        from pytezos.michelson.types.base import MichelsonType
        lt = {'prim': 'list', 'args': [{'prim': 'pair', 'args': [{'prim': 'bls12_381_g1'}, {'prim': 'bls12_381_g2'}]}]}
        val = [{'prim': 'Pair', 'args': [{'bytes': ser(1, a).hex()}, {'bytes': ser(2, b).hex()}]} for a, b in pl]
        got = execute('PAIRING_CHECK', [MichelsonType.match(lt).from_micheline_value(val)])
        want = ('ok', 'bool', {'prim': 'True' if res[1] else 'False'})
        kind = 'pairing'
    else:
        prim = op.split('_')[0]
        items = [item(ta, group, x)] + ([item(tb, group, y)] if tb != '-' else [])
        got = execute(prim, items)
        e = unlimb(res[1])
        if op.endswith('G1') or op.endswith('G2'):
            want = ('ok', 'bls12_381_g%d' % group, {'bytes': ser(group, e).hex()})
        elif op == 'INT':
            want = ('ok', 'int', {'int': str(e)})
        else:
            want = ('ok', 'bls12_381_fr', {'bytes': e.to_bytes(32, 'little').hex()})
        kind = op
    if got == want:
        return True
    infinity = (ta == 'pt' and x % R == 0) or (tb == 'pt' and y % R == 0) or (op == 'PAIRING_CHECK' and any(a % R == 0 or b % R == 0 for a, b in pl))
    sig = 'C21:%s:%s%s' % (kind, 'raises' if got[0] == 'err' else 'wrong-result', ':infinity-operand' if infinity else '')
    ctx.mismatch(sig, '%s x=%s y=%s pairs=%s: model %s, pytezos %s' % (op, x if abs(x) < 10 else hex(x), y if abs(y) < 10 else hex(y), to_json(pl), str(want)[:200], str(got)[:200]), case_json)
    return False


def run(ctx):
    ctx.rule = ('exponents of points {0 (infinity), 1, 2, 3, r-1}, field elements / scalars {0, 1, 2, r-1, r, r+1, -1 (int)}; every instruction (ADD, NEG, MUL over g1/g2/fr, MUL with '
                'int and nat, INT) on every operand tuple; pairing lists of up to 6 (thorough 9) pairs (also with a repeated pair, with pairs that share a G2 point and cancel, true and false products). Leg A: group/field laws on exponents modulo r (identity, inverse, commutativity, '
                'associativity, distributivity, r.P = infinity, bilinearity pattern). Leg B: exponents become real points (py_ecc scalar multiplication, own uncompressed '
                'serialiser incl. the infinity encoding) and the pytezos instruction must return the serialisation of the expected point / field element / verdict')
    ctx.assumptions = ['py_ecc is the only BLS12-381 implementation available (pytezos uses it too): scalar multiplication of the generator by py_ecc is trusted; the serialiser is independent',
                       'points are multiples of the generators (every point of the prime-order groups is)']
    pts = [0, 1, 2, 3, R - 1]
    frs = [0, 1, 2, R - 1] if ctx.quick else [0, 1, 2, 5, R - 2, R - 1]
    ints = [0, 1, R, R + 1, -1] if ctx.quick else [0, 1, 2, R - 1, R, R + 1, 2 * R + 3, -1, -R - 2]
    nats = [0, 1, R, R + 1]
    pairs = [((1, 1),), ((0, 5),), ((1, 1), (1, R - 1)), ((2, 3), (R - 6, 1)), ((2, 3), (1, 1)), ((3, 0), (0, 4)),
             ((1, 1), (1, 1), (R - 2, 1)), ((1, 1), (1, 1), (R - 1, 1))]      # the same pair twice: the product runs over the list, not over the set of pairs
    # longer lists (an implementation may fold them pairwise or group them by a shared point): the product still runs over every pair, in any arrangement
    pairs += [((1, 1), (2, 1), (3, 1), (4, 1), (R - 10, 1)), ((1, 1), (R - 1, 1), (2, 1), (R - 2, 1), (5, 1)),
              ((1, 2), (R - 1, 2), (2, 3), (3, 2), (R - 2, 3), (R - 3, 2)), ((1, 2), (R - 1, 2), (2, 3), (3, 2), (R - 2, 3))]
    if not ctx.quick:
        pairs += [((5, 7), (7, R - 5)), ((1, 2), (2, 1)), (), tuple((k, 1) for k in range(1, 7)) + ((R - 21, 1),), tuple((k, k) for k in range(1, 9)) + ((R - 204, 1),),
                  ((1, 2), (R - 1, 2), (2, 3), (3, 2)), ((2, 5), (3, 7), (R - 2, 5), (4, 7), (R - 7, 7), (1, 1), (R - 1, 1))]
    vals = {'pt': pts, 'fr': frs, 'int': ints, 'nat': nats, 'zero': [0]}
    gen = {'MichBlsMC': MC % (to_tla(limb(R)), to_tla(set(CASES)), 'CASE ' + '\n   [] '.join('kind = "%s" -> %s' % (k, to_tla({limb(v) for v in vs})) for k, vs in vals.items()),
                               to_tla({tuple((limb(a), limb(b)) for a, b in p) for p in pairs}))}
    r = ctx.tlc('MichBlsMC', CFG, gen=gen, timeout=1500, coverage=False)
    ctx.require_no_violation(r, 'MichBls')
    outs = sorted((v for v in r.printed if v[0] == 'OUT'), key=repr)
    seen = set()
    done = set()
    for v in outs:
        _, case, x, y, pl, res = v
        xx, yy = unlimb(x), unlimb(y)
        pp = tuple((unlimb(a), unlimb(b)) for a, b in pl)
        key = (case, xx, yy, pp)
        if key in done:          # the law variable z multiplies states, not cases
            continue
        done.add(key)
        ok = compare(ctx, case, xx, yy, pp, res)
        seen.add(case[0])
        ctx.replayed += 1
        ctx.count(key, nontrivial=True)
        if ok and ctx.replayed % 37 == 1:
            ctx.sample({'case': case, 'x': hex(xx), 'y': hex(yy), 'pairs': pp, 'model': to_json(res) if res[0] == 'bool' else hex(unlimb(res[1]))}, limit=6)
    if seen != {c[0] for c in CASES}:
        raise Exception('vacuity: cases not exported %s' % ({c[0] for c in CASES} - seen))
    ctx.exhaustive = True


def replay(ctx, rep):
    c = rep['case']
    tup = lambda v: tuple(tup(w) for w in v) if isinstance(v, list) else v
    ok = compare(ctx, tuple(c['case']), c['x'], c['y'], tup(c['pl']), tup(c['res']))
    for m in ctx.mismatches:
        print('REPRODUCED', m.signature, m.detail[:600])
    return 0 if ok else 1


META = {
    'category': 'model_checking',
    'text': ('MichBls.tla is the exponent model of the BLS12-381 instructions: points are k.G with k modulo the group order r, Fr is Z/r, PAIRING_CHECK holds iff the sum of '
             'exponent products vanishes modulo r; arithmetic is exact on limb integers. TLC checks the group and field laws on every case of the pool (including infinity, r-1, r, '
             'r+1 and negative scalars) and every case is replayed on real curve points through the pytezos instructions.'),
    'design_ref': 'DESIGN.md section 5 C21',
    'note': 'Trusted: py_ecc scalar multiplication (no second BLS implementation in the sandbox), own serialiser, BigInt.tla. Bounds: 5 point exponents, 4-6 field elements, 5-9 integers, 12-19 pairing lists of <= 6 (9) pairs.',
    'technique': 'TLA+ exponent model + TLC law checking; replay on real curve points through the pytezos BLS instructions',
}
