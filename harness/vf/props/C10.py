"""C10 - addresses, keys, key hashes, signatures and chain ids survive binary form.  Spec: DomainBin.tla."""
from .. import b58ref
from ..tlc import MachineryError

CFG = """SPECIFICATION Spec
CONSTANTS Firsts = {%s}
 Lasts = {%s}
 Fillers = {%s}
 CrossReads = TRUE
INVARIANT RoundTrip
INVARIANT BlindRoundTrip
INVARIANT KindsDistinct
INVARIANT NoConfusion
INVARIANT FormLengths
INVARIANT Emit
"""

# Base58Check prefixes of the Tezos reference (src/lib_crypto/base58.ml), written down here independently of pytezos' table
PREFIX = {
    ('addr', 'tz1'): '06a19f', ('addr', 'tz2'): '06a1a1', ('addr', 'tz3'): '06a1a4', ('addr', 'tz4'): '06a1a6',
    ('addr', 'KT1'): '025a79', ('addr', 'sr1'): '067c75', ('addr', 'txr1'): '0180781f',
    ('key', 'ed'): '0d0f25d9', ('key', 'sp'): '03fee256', ('key', 'p2'): '03b28b7f', ('key', 'bls'): '069587cc',
    ('sig', 'ed'): '09f5cd8612', ('sig', 'sp'): '0d7365133f', ('sig', 'p2'): '36f02c34', ('sig', 'gen'): '04822b', ('sig', 'bls'): '28ab40cf',
    ('chain', 'net'): '575200',
}
HUMAN = {('key', 'ed'): 'edpk', ('key', 'sp'): 'sppk', ('key', 'p2'): 'p2pk', ('key', 'bls'): 'BLpk',
         ('sig', 'ed'): 'edsig', ('sig', 'sp'): 'spsig', ('sig', 'p2'): 'p2sig', ('sig', 'gen'): 'sig', ('sig', 'bls'): 'BLsig', ('chain', 'net'): 'Net'}


def concretize(atom):
    """Spec atom -> the readable (Base58Check) notation, built with the independent encoder."""
    tag = atom[0]
    if tag in ('addr', 'kh'):
        kind, payload = atom[1], bytes(atom[2])
        s = b58ref.b58check(bytes.fromhex(PREFIX[('addr', kind)]), payload)
        human = kind
        if tag == 'addr' and atom[3]:
            s += '%' + bytes(atom[3]).decode()
    else:
        s = b58ref.b58check(bytes.fromhex(PREFIX[(tag, atom[1])]), bytes(atom[2]))
        human = HUMAN[(tag, atom[1])]
    if not s.startswith(human):
        raise MachineryError('prefix constant for %r does not give %s: %s' % (atom[:2], human, s))
    return s


_types = {}


def mtype(name):
    if name not in _types:
        _types[name] = _mtype(name)
    return _types[name]


def _mtype(name):
    from pytezos.michelson.types.base import MichelsonType
    import pytezos.michelson.types  # noqa: registers the type classes
    if name == 'contract':
        return MichelsonType.match({'prim': 'contract', 'args': [{'prim': 'unit'}]})
    return MichelsonType.match({'prim': name})


def types_for(atom, reader):
    """Michelson types through which a form of this reader type is observed."""
    if reader == 'address':
        if atom[1] == 'txr1':
            return ['tx_rollup_l2_address']
        return ['address', 'contract']
    return [reader]


def to_optimized(tname, s):
    try:
        return mtype(tname).from_micheline_value({'string': s}).to_micheline_value(mode='optimized')
    except Exception as e:   # noqa
        return ('raises', type(e).__name__, str(e)[:100])


def to_readable(tname, hexbytes):
    try:
        return mtype(tname).from_micheline_value({'bytes': hexbytes}).to_micheline_value(mode='readable')
    except Exception as e:   # noqa
        return ('raises', type(e).__name__, str(e)[:100])


def blind(hexbytes):
    from pytezos.michelson.micheline import blind_unpack
    try:
        return blind_unpack(bytes.fromhex(hexbytes))
    except Exception as e:   # noqa
        return ('raises', type(e).__name__, str(e)[:100])


def klass(atom):
    """Input class for signatures: kind and the boundary class of the payload."""
    tag = atom[0]
    p, kind = atom[2], atom[1]
    c = '%s:%s:%s' % (kind, 'first00-03' if p[0] <= 3 else 'firstOther', 'last00' if p[-1] == 0 else 'lastOther')
    if tag == 'addr':
        ep = bytes(atom[3]).decode()
        c += ':ep-' + ('none' if not ep else ep if len(ep) < 10 else 'len%d' % len(ep))
    return c


def obs(got):
    return 'raises-' + got[1] if isinstance(got, tuple) and got and got[0] == 'raises' else 'wrong-value'


def compare(ctx, atom, reader, byts, res):
    """One exported behaviour: atom, reader type, model bytes, model result of reading them."""
    ok = True
    hx = bytes(byts).hex()
    s = concretize(atom)
    case = {'atom': atom, 'reader': reader, 'bytes': byts, 'res': res}
    own = {'addr': 'address', 'kh': 'key_hash', 'key': 'key', 'sig': 'signature', 'chain': 'chain_id'}[atom[0]]
    if reader == own:
        want_back = concretize(res)
        for tname in types_for(atom, reader):
            if tname == 'tx_rollup_l2_address':
                ctx.skip('txr1 through the address / contract types (pytezos reads txr1 with tx_rollup_l2_address only)', 2)
            got = to_optimized(tname, s)
            ctx.count(('forge', tname, s), nontrivial=True)
            if got != {'bytes': hx}:
                ok = False
                ctx.mismatch('C10:%s:forge:%s:%s' % (tname, klass(atom), obs(got)),
                             '%s %s: optimized form is %s, model %s' % (tname, s, got, hx), case)
            back = to_readable(tname, hx)
            ctx.count(('unforge', tname, hx), nontrivial=True)
            if back != {'string': want_back}:
                ok = False
                ctx.mismatch('C10:%s:unforge:%s:%s' % (tname, klass(atom), obs(back)),
                             '%s: reading the optimized form %s of %s gives %s, model %s' % (tname, hx, s, back, want_back), case)
    elif reader == 'blind':
        if res[0] in ('unknown', 'rej') or tuple(res) != tuple(canon(atom)):
            ctx.skip('blind_unpack where the length does not determine the type (%s)' % ('contract with entrypoint' if atom[0] == 'addr' else atom[0]))
            return True
        want = concretize(res)
        got = blind(hx)
        ctx.count(('blind', hx), nontrivial=True)
        if got != want:
            ok = False
            o = obs(got) if isinstance(got, tuple) else ('not-recognised' if not isinstance(got, str) or got[:2] != want[:2] else 'wrong-value')
            ctx.mismatch('C10:blind_unpack:%s:%s:%s' % (own, klass(atom), o), 'blind_unpack(%s) = %r, the only typed reading is %s %s' % (hx, got, own, want), case)
    else:
        # the form of one type read with the reader of another: the model rejects; pytezos may be lenient, but whatever it
        # returns must be of the same kind with the same payload (never one kind taken for another)
        for tname in types_for(('addr', atom[1]), reader):
            got = to_readable(tname, hx)
            ctx.count(('cross', tname, hx), nontrivial=True)
            if isinstance(got, tuple):
                continue
            same = b58ref.b58check(bytes.fromhex(PREFIX[('addr', atom[1])]), bytes(atom[2]))
            if got != {'string': same}:
                ok = False
                ctx.mismatch('C10:%s:cross-read-%s:%s:other-kind' % (tname, atom[0], klass(atom)),
                             '%s reading the %s form %s of %s returned %s' % (tname, atom[0], hx, s, got), case)
    return ok


def canon(atom):
    if atom[0] == 'addr' and bytes(atom[3]) == b'default':
        return (atom[0], atom[1], atom[2], ())
    if atom[0] == 'sig' and atom[1] != 'bls':
        return ('sig', 'gen', atom[2])
    return atom


def run(ctx):
    fillers = [119] if ctx.quick else [0, 119, 255]
    firsts = [0, 1, 2, 3, 4, 255, 32] if ctx.quick else [0, 1, 2, 3, 4, 5, 9, 10, 32, 127, 128, 254, 255]     # 9, 10, 32: bytes that are white space when read as text
    lasts = [0, 1, 255, 32, 10] if ctx.quick else [0, 1, 2, 9, 10, 13, 32, 127, 128, 255]
    ctx.rule = ('atoms = 7 address kinds x 20-byte payloads (first byte in %s, last byte in %s, filler %s) x entrypoints {none, default, a, 31 chars, set_default, 1st, do, root, set_delegate, defaults}; '
                'key hashes tz1-tz4, keys of 4 curves, signatures of 5 kinds, chain ids over the same payload classes; Leg A: TLC forges and reads back every atom with the '
                'typed reader, the length-only reader and the reader of the neighbouring type; Leg B: every behaviour is replayed through the Michelson type classes '
                '(readable -> optimized must be the model bytes; optimized -> readable must be the model value) and blind_unpack; plus the chain ids of the public networks and every 4-byte literal written in the running sources; non-trivial = every comparison' % (firsts, lasts, fillers))
    ctx.assumptions = ['atoms are made concrete with an independent Base58Check encoder and the prefix bytes of the Tezos reference (not pytezos\' table)',
                       'a 64-byte signature read back is the generic signature with the same bytes (the optimized form carries no curve); "default" is no entrypoint',
                       'txr1 is observed through the tx_rollup_l2_address type only; blind_unpack only where the byte length determines the type',
                       'reading a form with the reader of another type is only required not to return another kind or payload']
    r = ctx.tlc('DomainBin', CFG % tuple(', '.join(map(str, x)) for x in (firsts, lasts, fillers)), timeout=900)
    ctx.require_no_violation(r, 'DomainBin')
    ctx.require_coverage(r, ['DoForge', 'ByLength', 'ByTag'])
    outs = [v for v in r.printed if v[0] == 'OUT']
    if not outs:
        raise MachineryError('no behaviours exported')
    seen = set()
    for v in outs:
        _, atom, reader, byts, res = v
        seen.add((atom, reader))
        ok = compare(ctx, atom, reader, byts, res)
        ctx.again(compare, ctx, atom, reader, byts, res)
        ctx.replayed += 1
        if ok and atom[0] in ('addr', 'kh') and atom[2][0] <= 3 and atom[2][-1] == 0 and reader != 'blind':
            ctx.sample({'atom': atom, 'reader': reader, 'bytes': bytes(byts).hex(), 'readable': concretize(atom)}, limit=4)
    n_atoms = len({a for a, _ in seen})
    expect = len(fillers) * len(firsts) * len(lasts) * (7 * 10 + 4 + 4 + 5 + 1) + 4      # + the PACK look-alikes
    if n_atoms != expect:
        raise MachineryError('TLC exported %d atoms, expected %d' % (n_atoms, expect))
    explicit_chain_ids(ctx)
    ctx.second_pass()
    ctx.exhaustive = True


WELL_KNOWN_CHAINS = ['7a06a770', 'af1864d9', '1395aa01', '959fc7ee', '9b6c6d97', '2f6cbd61', 'ed9d217c', 'f49af95b', '56b44a47', '8fc05f5e', 'c3a7ab4b']


def source_chain_ids():
    """4-byte payloads written out in the running pytezos sources (hex literals of 8 digits, Net.. literals): if the code treats some chain id
    specially (a table of known networks, seeded C10_13), that chain id is in its text.  Only *which* payloads are tried comes from the code;
    what each must forge to and read back as is the model's rule (the optimized form of a chain id is its 4 bytes)."""
    import os, re
    import pytezos
    root = os.path.dirname(pytezos.__file__)
    found = set()
    for rel in ('michelson/forge.py', 'michelson/types/domain.py', 'michelson/micheline.py', 'crypto/encoding.py', 'michelson/types/core.py', 'rpc/__init__.py', 'client.py'):
        try:
            txt = open(os.path.join(root, rel), encoding='utf-8').read()
        except OSError:
            continue
        for m in re.finditer(r"""['"]([0-9a-fA-F]{8})['"]""", txt):
            found.add(m.group(1).lower())
        for m in re.finditer(r'Net[1-9A-HJ-NP-Za-km-z]{12}', txt):
            raw = b58ref.unb58(m.group(0))
            if raw is not None and len(raw) == 11 and b58ref.check_ok(raw):
                found.add(raw[3:7].hex())
    return sorted(found)


def explicit_chain_ids(ctx):
    n = 0
    for hx in sorted(set(WELL_KNOWN_CHAINS) | set(source_chain_ids())):
        payload = tuple(bytes.fromhex(hx))
        atom = ('chain', 'net', payload)
        compare(ctx, atom, 'chain_id', payload, atom)
        ctx.again(compare, ctx, atom, 'chain_id', payload, atom)
        ctx.replayed += 1
        n += 1
    ctx.extra['explicit_chain_ids'] = n


def _tup(x):
    return tuple(_tup(y) for y in x) if isinstance(x, list) else x


def replay(ctx, rep):
    c = rep['case']
    ok = compare(ctx, _tup(c['atom']), c['reader'], _tup(c['bytes']), _tup(c['res']))
    for m in ctx.mismatches:
        print('REPRODUCED', m.signature, m.detail)
    return 0 if ok else 1


META = {
    'category': 'model_checking',
    'text': ('DomainBin.tla defines the optimized forms of addresses (with entrypoints), key hashes, public keys, signatures and chain ids and a reader that '
             'dispatches on length and then on the tag. TLC checks for every atom of the boundary universe (payloads whose first byte is 00..04/ff and last byte '
             '00/01/ff) that reading the forged form gives the value back, that forms of different kinds differ and that key-hash and address forms are never '
             'taken for one another; every behaviour is replayed through AddressType / ContractType / KeyHashType / KeyType / SignatureType / ChainIdType '
             '(from_micheline_value, to_micheline_value optimized and readable) and blind_unpack, with atoms made concrete by an independent Base58Check encoder.'),
    'design_ref': 'DESIGN.md section 5 C10, section 3.4',
    'note': ('Trusted: concretisation (own base58check + reference prefix constants), comparison of Micheline literals. Exhaustive over the boundary universe '
             '(quick: first byte 00..04/ff, last byte 00/01/ff, filler 77 = 756 atoms; thorough: 10 x 6 boundary bytes, fillers 00/77/ff = 7560 atoms). Payload bytes between first and last are one repeated filler.'),
    'technique': 'TLA+ spec + TLC exhaustive model checking; spec-behaviour replay into the Michelson domain types and blind_unpack',
}
