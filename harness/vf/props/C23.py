"""C23 - operation groups from any account kind are signed and hashed per protocol.  Spec: OpSign.tla."""
import hashlib

from ..tlaparse import iter_dump, to_json

CFG = """SPECIFICATION Spec
CONSTANTS Kinds = {%(kinds)s}
 KeyKinds = {%(keys)s}
 ChainIds = {%(chains)s}
 MaxBatch = %(batch)d
INVARIANT WatermarkRule
INVARIANT SigVerifies
INVARIANT HashRule
INVARIANT NoCrossWatermark
"""
MANAGER = ('transaction', 'reveal', 'delegation', 'origination', 'register_global_constant')
OTHER = ('failing_noop', 'endorsement', 'endorsement_with_slot')
CONSENSUS = ('endorsement', 'endorsement_with_slot')
# 4-byte chain id payloads: mainnet, ghostnet, two synthetic ones (leading zero byte, all ones)
CHAIN_PAYLOADS = [bytes.fromhex('7a06a770'), bytes.fromhex('af1864d9'), bytes.fromhex('00c0ffee'), bytes.fromhex('ffffffff')]
P_SIG = {64: bytes([4, 130, 43]), 96: bytes([40, 171, 64, 207])}          # sig, BLsig
P_PK = {'tz1': (bytes([13, 15, 37, 217]), 32), 'tz2': (bytes([3, 254, 226, 86]), 33), 'tz3': (bytes([3, 178, 139, 127]), 33),
        'tz4': (bytes([6, 149, 135, 204]), 48)}
P_SIG_SPECIFIC = {'edsig': (bytes([9, 245, 205, 134, 18]), 64), 'spsig1': (bytes([13, 115, 101, 19, 63]), 64),
                  'p2sig': (bytes([54, 240, 44, 52]), 64), 'BLsig': (bytes([40, 171, 64, 207]), 96), 'sig': (bytes([4, 130, 43]), 64)}


def q(xs):
    return ', '.join('"%s"' % x for x in xs)


def fam(name, kinds, keys, chains, batch):
    return dict(name=name, kinds=q(kinds), keys=q(keys), chains=', '.join(map(str, chains)), batch=batch)


def families(quick):
    if quick:
        return [fam('classic', MANAGER + OTHER, ('tz1', 'tz2', 'tz3'), (1, 2, 3), 2),
                fam('tz4', ('transaction', 'endorsement'), ('tz4',), (1,), 1)]
    return [fam('classic', MANAGER + OTHER, ('tz1', 'tz2', 'tz3'), (1, 2, 3, 4), 3),
            fam('tz4', MANAGER + OTHER, ('tz4',), (1, 2), 1)]


# ---------------------------------------------------------------- independent interpretation of the primitives
def blake2b32(b):
    return hashlib.blake2b(b, digest_size=32).digest()


def decode_signature(text):
    from ..fakenode import b58decode
    for name, (prefix, ln) in sorted(P_SIG_SPECIFIC.items(), key=lambda kv: -len(kv[0])):
        if text.startswith(name):
            raw = b58decode(text, len(prefix))
            if len(raw) != ln:
                raise ValueError('signature payload of %d bytes under prefix %s' % (len(raw), name))
            return name, raw
    raise ValueError('unknown signature prefix %r' % text[:6])


def verify(kind, pk, raw_sig, message):
    """Signature check with implementations pytezos does not use (OpenSSL via `cryptography`); BLS only via py_ecc."""
    from cryptography.exceptions import InvalidSignature
    from cryptography.hazmat.primitives import hashes
    from cryptography.hazmat.primitives.asymmetric import ec, ed25519, utils
    try:
        if kind == 'tz1':
            ed25519.Ed25519PublicKey.from_public_bytes(pk).verify(raw_sig, blake2b32(message))
            return True
        if kind in ('tz2', 'tz3'):
            curve = ec.SECP256K1() if kind == 'tz2' else ec.SECP256R1()
            key = ec.EllipticCurvePublicKey.from_encoded_point(curve, pk)
            der = utils.encode_dss_signature(int.from_bytes(raw_sig[:32], 'big'), int.from_bytes(raw_sig[32:], 'big'))
            key.verify(der, blake2b32(message), ec.ECDSA(utils.Prehashed(hashes.SHA256())))   # SHA256 only names the 32-byte digest size
            return True
        if kind == 'tz4':
            from py_ecc.bls import G2MessageAugmentation
            return bool(G2MessageAugmentation.Verify(pk, message, raw_sig))
    except InvalidSignature:
        return False
    raise ValueError(kind)


# ---------------------------------------------------------------- real groups
def build_group(client, kinds, key, size=0):
    """size > 0: the kinds that carry free-form data carry about that many bytes of it (an operation may be anything up to the protocol's 32 KiB)"""
    from ..opclient import DEST, SCRIPT, add_content
    g = client
    for j, kind in enumerate(kinds):
        if size and kind == 'register_global_constant':
            g = g.register_global_constant({'bytes': ('%02x' % (j + 1)) * size})
            continue
        if size and kind == 'failing_noop':
            g = g.failing_noop('m' * size)
            continue
        if kind in ('transaction', 'reveal', 'delegation', 'origination'):
            g = add_content(g, kind, j)
        elif kind == 'register_global_constant':
            g = g.register_global_constant({'prim': 'Pair', 'args': [{'int': str(j)}, {'string': 'vf'}]})
        elif kind == 'failing_noop':
            g = g.failing_noop('verification message %d' % j)
        elif kind == 'endorsement':
            g = g.endorsement(level=1000 + j)
        elif kind == 'endorsement_with_slot':
            inner_sig = 'sigUHx32f9wesZ1n2BWpixXz4AQaZggEtchaQNHYGRCoWNAXx45WGW2ua3apUUUAGMLPwAU41QoaFCzVSL61VaessLg4YbbP'
            g = g.endorsement_with_slot({'branch': 'BLockGenesisGenesisGenesisGenesisGenesisf79b5d1CoW2', 'operations': {'kind': 'endorsement', 'level': 77},
                                         'signature': inner_sig}, slot=5 + j)
        else:
            raise ValueError(kind)
    return g


def replay_case(ctx, kinds, key_kind, chain_ix, variant=0, size=0):
    """Real fill().sign().hash() against the independent interpretation."""
    from ..fakenode import b58check, b58decode
    from ..opclient import make_client, make_key, fresh_key
    # other accounts of the same kind have signed in this process before and their Key objects are gone: nothing of them may stick to this key
    import gc
    for n in range(1, 2 if key_kind == 'tz4' else 7):
        k = fresh_key(key_kind, 100 + n)
        k.sign(b'\x03' + bytes([n]) * 8)
        del k
    gc.collect()
    key = fresh_key(key_kind)
    payload = CHAIN_PAYLOADS[chain_ix - 1]
    chain_id = b58check(bytes([87, 82, 0]), payload)
    client, node = make_client(key, chain_ctr=5 + variant, chain_id=chain_id)      # the variant changes the counters, hence the signed bytes
    case = {'kinds': list(kinds), 'key': key_kind, 'chain': chain_ix, 'variant': variant, 'size': size}
    filled = build_group(client, kinds, key, size).fill()
    if node.unknown:
        raise RuntimeError('FakeNode does not know %s' % node.unknown[:3])
    forged = bytes.fromhex(filled.forge())
    consensus = kinds[0] in CONSENSUS
    try:
        signed = filled.sign()
    except Exception as e:
        sig = 'C23:%s-sign-raises' % key_kind
        ctx.mismatch(sig, 'sign() of %s with a %s key raises %s: %s (the property demands that signing succeeds for every key kind)'
                     % (list(kinds), key_kind, type(e).__name__, str(e)[:200]), case)
        return False
    ok = True
    try:
        prefix, raw = decode_signature(signed.signature)
    except Exception as e:
        ctx.mismatch('C23:%s:signature-not-decodable' % key_kind, 'signature %r: %s' % (signed.signature, e), case)
        return False
    want_len = 96 if key_kind == 'tz4' else 64
    if len(raw) != want_len:
        ctx.mismatch('C23:%s:signature-length' % key_kind, 'raw signature has %d bytes, expected %d' % (len(raw), want_len), case)
        return False
    pk_prefix, pk_len = P_PK[key_kind]
    pk = b58decode(key.public_key(), len(pk_prefix))
    assert len(pk) == pk_len, 'harness: public key length'
    wm = (b'\x02' + payload) if consensus else b'\x03'
    if not verify(key_kind, pk, raw, wm + forged):
        ok = False
        ctx.mismatch('C23:%s:%s:signature-does-not-verify' % (key_kind, 'consensus' if consensus else 'generic'),
                     'signature of %s does not verify over watermark %s || forged bytes' % (list(kinds), wm.hex()), case)
    else:
        # the clauses against each other (OpSign!NoCrossWatermark)
        other = b'\x03' if consensus else (b'\x02' + payload)
        if verify(key_kind, pk, raw, other + forged):
            ok = False
            ctx.mismatch('C23:%s:verifies-under-wrong-watermark' % key_kind, 'signature of %s also verifies under watermark %s' % (list(kinds), other.hex()), case)
        if consensus:
            p2 = CHAIN_PAYLOADS[chain_ix % len(CHAIN_PAYLOADS)]
            if verify(key_kind, pk, raw, b'\x02' + p2 + forged):
                ok = False
                ctx.mismatch('C23:%s:consensus-signature-not-bound-to-chain' % key_kind, 'signature verifies for chain id %s too' % p2.hex(), case)
    if consensus:
        # an explicit chain id of the group wins over what the context remembers (a context bound to one chain, a group made for another)
        from pytezos.context.impl import ExecutionContext
        from pytezos.operation.group import OperationGroup
        p3 = CHAIN_PAYLOADS[(chain_ix + 1) % len(CHAIN_PAYLOADS)]
        if p3 != payload:
            cx = ExecutionContext(shell=filled.context.shell, key=key, chain_id=chain_id)
            try:
                other = OperationGroup(context=cx, contents=[dict(c) for c in filled.contents], protocol=filled.protocol, chain_id=b58check(bytes([87, 82, 0]), p3), branch=filled.branch).sign()
                _, oraw = decode_signature(other.signature)
                oforged = bytes.fromhex(other.forge())
                if not verify(key_kind, pk, oraw, b'\x02' + p3 + oforged):
                    ok = False
                    ctx.mismatch('C23:%s:consensus:explicit-chain-id-ignored' % key_kind, 'a group made for chain %s in a context bound to chain %s: the signature does not verify over 0x02 || %s || forged%s' % (
                        p3.hex(), payload.hex(), p3.hex(), ' (it verifies for the context\'s chain)' if verify(key_kind, pk, oraw, b'\x02' + payload + oforged) else ''), case)
            except Exception as e:   # noqa
                ok = False
                ctx.mismatch('C23:consensus:explicit-chain-id:raises', 'signing a consensus group with an explicit chain id raised %s: %s' % (type(e).__name__, str(e)[:200]), case)
    # group hash
    want_hash = b58check(bytes([5, 116]), blake2b32(forged + raw))
    got_hash = signed.hash()
    if got_hash != want_hash:
        ok = False
        ctx.mismatch('C23:hash', 'hash() = %s, Blake2b-256(forged || raw signature) in base58 "o" = %s (%s, %s)' % (got_hash, want_hash, list(kinds), key_kind), case)
    # the hash and the binary payload are functions of the signed group alone: whoever holds it (a client with a key of another kind, e.g. an indexer
    # or a co-signer with a tz4 / tz1 key) computes the same
    try:
        from pytezos.operation.group import OperationGroup
        okind = 'tz1' if key_kind == 'tz4' else 'tz4'
        oclient, _ = make_client(make_key(okind), chain_ctr=5, chain_id=chain_id)
        held = OperationGroup(context=oclient.context, contents=[dict(c) for c in signed.contents], protocol=signed.protocol, chain_id=signed.chain_id, branch=signed.branch,
                              signature=signed.signature)
        hgot = (held.hash(), held.binary_payload())
        if hgot != (want_hash, forged + raw):
            ok = False
            ctx.mismatch('C23:held-by-other-key-kind:%s' % ('hash' if hgot[0] != want_hash else 'payload'), 'the signed group of a %s key held by a client with a %s key: hash() = %s (expected %s), payload %s' % (
                key_kind, okind, hgot[0], want_hash, 'equal' if hgot[1] == forged + raw else 'differs'), case)
    except Exception as e:   # noqa
        ok = False
        ctx.mismatch('C23:held-by-other-key-kind:raises', 'hash() / binary_payload() of the signed group of a %s key held by a client with another key kind raised %s: %s' % (key_kind, type(e).__name__, str(e)[:200]), case)
    # branches whose 32 bytes happen to read as text ("0x..", "sig..", all digits): the hash is taken over bytes, whatever they look like
    if not consensus and variant == 0 and size == 0:
        try:
            from pytezos.operation.group import OperationGroup
            for head_ in (b'0x', b'0X1', b'sig', b'\x05\x74', b'77'):
                braw = head_ + bytes((37 * k + 5) % 256 for k in range(32 - len(head_)))
                g3 = OperationGroup(context=filled.context, contents=[dict(c) for c in filled.contents], protocol=filled.protocol, chain_id=filled.chain_id,
                                    branch=b58check(bytes([1, 52]), braw)).sign()
                f3 = bytes.fromhex(g3.forge())
                _, r3 = decode_signature(g3.signature)
                w3 = b58check(bytes([5, 116]), blake2b32(f3 + r3))
                if f3[:32] != braw or g3.hash() != w3 or not verify(key_kind, pk, r3, b'\x03' + f3):
                    ok = False
                    ctx.mismatch('C23:text-like-branch:%s' % ('forge' if f3[:32] != braw else 'hash' if g3.hash() != w3 else 'signature'),
                                 'a group on the branch %s (raw bytes begin with %r): hash() = %s, Blake2b-256(forged || raw signature) = %s' % (b58check(bytes([1, 52]), braw), head_, g3.hash(), w3), case)
                    break
        except Exception as e:   # noqa
            ok = False
            ctx.mismatch('C23:text-like-branch:raises', 'signing / hashing a group on a branch whose bytes read as text raised %s: %s' % (type(e).__name__, str(e)[:200]), case)
    # a group derived from one that already carries a hash (as returned by send / send_async) is a new group: signed and hashed by its own bytes
    if not consensus and kinds[0] in MANAGER:
        from pytezos.operation.group import OperationGroup
        sent = OperationGroup(context=signed.context, contents=signed.contents, protocol=signed.protocol, chain_id=signed.chain_id, branch=signed.branch,
                              signature=signed.signature, opg_hash=want_hash)
        last = dict(signed.contents[-1])
        last['counter'] = str(int(last['counter']) + 1)
        try:
            derived = sent.operation(last).sign()
            dforged = bytes.fromhex(derived.forge())
            _, draw = decode_signature(derived.signature)
            dwant = b58check(bytes([5, 116]), blake2b32(dforged + draw))
            dgot = derived.hash()
            if dforged == forged or dgot != dwant or not verify(key_kind, pk, draw, b'\x03' + dforged):
                ok = False
                ctx.mismatch('C23:derived-group:%s' % ('hash' if dgot != dwant else 'signature'), 'group derived (one more content) from a sent group: hash() = %s, Blake2b-256(forged || raw signature) = %s, signature %s' % (
                    dgot, dwant, 'verifies' if verify(key_kind, pk, draw, b'\x03' + dforged) else 'does not verify'), case)
        except Exception as e:   # noqa
            ok = False
            ctx.mismatch('C23:derived-group:raises', 'deriving from a sent group raised %s: %s' % (type(e).__name__, str(e)[:200]), case)
        # the group object edited in place after it has been forged once (as autofill edits its contents): signature and hash follow the contents
        try:
            edited = OperationGroup(context=filled.context, contents=[dict(c) for c in filled.contents], protocol=filled.protocol, chain_id=filled.chain_id, branch=filled.branch)
            edited.forge()
            edited.contents[-1]['counter'] = str(int(edited.contents[-1]['counter']) + 7)
            fresh = OperationGroup(context=filled.context, contents=[dict(c) for c in edited.contents], protocol=filled.protocol, chain_id=filled.chain_id, branch=filled.branch)
            eforged = bytes.fromhex(fresh.forge())
            esigned = edited.sign()
            _, eraw = decode_signature(esigned.signature)
            ewant = b58check(bytes([5, 116]), blake2b32(eforged + eraw))
            if eforged == forged or not verify(key_kind, pk, eraw, b'\x03' + eforged) or esigned.hash() != ewant:
                ok = False
                ctx.mismatch('C23:edited-in-place:%s' % ('signature' if not verify(key_kind, pk, eraw, b'\x03' + eforged) else 'hash'),
                             'a group forged once, then edited in place (counter + 7) and signed: the signature %s over the bytes of its contents, hash() = %s, expected %s' % (
                                 'verifies' if verify(key_kind, pk, eraw, b'\x03' + eforged) else 'does not verify', esigned.hash(), ewant), case)
        except Exception as e:   # noqa
            ok = False
            ctx.mismatch('C23:edited-in-place:raises', 'signing a group edited in place raised %s: %s' % (type(e).__name__, str(e)[:200]), case)
    return ok


def run(ctx):
    ctx.rule = ('Leg A: OpSign.tla (watermark / signature / hash clauses with uninterpreted primitives) for every uniform-pass batch over the '
                'kind pool x key kind x chain id; Leg B: every scenario is built, filled and signed by the real client and the signature is '
                'verified over watermark || forged bytes with OpenSSL (cryptography) / py_ecc, the hash recomputed with hashlib and an own '
                'base58check; a scenario is non-trivial always (distinct kinds/key/chain)')
    ctx.assumptions = [
        'forged bytes are taken from OperationGroup.forge() (forging is property C06); the sign/hash clauses are checked over them',
        'Ed25519, ECDSA secp256k1 and P-256 signatures are verified with the `cryptography` package (OpenSSL) over Blake2b-256(watermark || forged); '
        'BLS signatures can only be verified with py_ecc, the library pytezos itself uses (not independent)',
        'consensus kinds compared: endorsement and endorsement_with_slot (the kinds pytezos knows as validation pass 0), watermark 0x02 || chain_id as the property states; '
        'Tenderbake preattestation/attestation watermarks (0x12/0x13) are outside the property and not compared',
        'groups mixing validation passes (rejected by sign()) and anonymous operations (validation pass 2) are outside the compared domain; '
        'ballot/proposals cannot be forged locally and are not in the kind pool',
        'signature malleability (low-S) is not demanded',
        'no Leg C: sign()/hash() are functions of the group, recorded calls would repeat Leg B',
    ]
    for f in families(ctx.quick):
        r = ctx.tlc('OpSign', CFG % f, name='OpSign-' + f['name'], dump=True, timeout=600, workers=2)
        ctx.require_no_violation(r, 'OpSign ' + f['name'])
        ctx.require_coverage(r, ['Watermark', 'Sign', 'HashStep'])
        for st in iter_dump(r.dump):
            if st['pc'] != 'done':
                continue
            ok = replay_case(ctx, st['kinds'], st['keyKind'], st['chain'])
            # the same scenario with 9 kB and 20 kB of data in the kinds that carry free-form data (up to 32 KiB an operation is an operation)
            if {'register_global_constant', 'failing_noop'} & set(st['kinds']) and (st['chain'] == 1 or not ctx.quick):
                for size in (9000, 20000):
                    ok = replay_case(ctx, st['kinds'], st['keyKind'], st['chain'], size=size) and ok
                    ctx.replayed += 1
                    ctx.count((st['kinds'], st['keyKind'], st['chain'], size), nontrivial=True)
            ctx.replayed += 1
            ctx.count((st['kinds'], st['keyKind'], st['chain']), nontrivial=True)
            if ok and len(st['kinds']) == 1:
                ctx.sample({'kinds': st['kinds'], 'key': st['keyKind'], 'chain_id': CHAIN_PAYLOADS[st['chain'] - 1].hex(), 'model_watermark': st['wm']}, limit=6)
    # ECDSA signature components with a leading zero byte occur once in ~128 signatures: the plain transaction scenario of the tz2 / tz3
    # keys is replayed on many different forged bytes (the same model scenario, other counters)
    for kk in ('tz2', 'tz3'):
        for v in range(1, 500 if ctx.quick else 4000):
            replay_case(ctx, ('transaction',), kk, 1, variant=v)
            ctx.replayed += 1
            ctx.count((('transaction',), kk, 1, v), nontrivial=True)
    ctx.exhaustive = True


def replay(ctx, rep):
    c = rep['case']
    replay_case(ctx, tuple(c['kinds']), c['key'], c['chain'], variant=c.get('variant', 0), size=c.get('size', 0))
    return report_replay(ctx, rep)



def report_replay(ctx, rep):
    """exit 1 iff the saved disagreement (same signature) shows again."""
    hits = [m for m in ctx.mismatches if m.signature == rep.get('signature')]
    for m in hits:
        print('REPRODUCED', m.signature, m.detail)
    for sig in sorted(set(m.signature for m in ctx.mismatches if m not in hits)):
        print('NOT-THE-SAVED-CASE: this run shows', sig)
    if not hits:
        print('not reproduced:', rep.get('signature'))
    return 1 if hits else 0


META = {
    'category': 'model_checking',
    'text': ('OpSign.tla states the signing clause of the protocol with uninterpreted primitives (watermark by validation pass, signature over '
             'the digest of watermark || forged bytes, hash = base58 "o" of Blake2b-256(forged || raw signature)) and sign()/hash() as steps; TLC '
             'enumerates every uniform-pass batch x key kind x chain id and checks the clauses against each other; every scenario is built, '
             'filled, signed and hashed by the real client and checked with independent implementations (OpenSSL Ed25519/ECDSA, hashlib, own base58).'),
    'design_ref': 'DESIGN.md section 5 C23, A.5',
    'note': ('The specification\'s own contribution is thin here (cryptographic equalities are uninterpreted); the weight is on the independent '
             'interpretation in Leg B. Trusted: cryptography/OpenSSL, hashlib, own base58check, py_ecc for BLS (not independent). '
             'Bounds: batches <= 2 (3 thorough) over 8 kinds, 3-4 chain ids, 4 key kinds (tz4: single-content groups).'),
    'technique': 'TLA+ spec + TLC exhaustive enumeration; spec-scenario replay into OperationGroup.fill/sign/hash with independent signature verification',
}
