"""C02 - values produced by execution always have the statically expected type.  Specs: MichSem.tla (Ty, HasType), VM.tla."""
from .. import vmfam
from ..vmfam import *   # noqa
from . import C01

# families that emphasise type-changing instructions on collections and typed constructors
fam = vmfam.fam
fam('types_list', depth=3, maxstack=4,
    inits=[(S(LIST(P(INT, STR)), lst(p(i(1), s('a')), p(i(2), s('b')))),), (S(LIST(P(INT, STR)), lst()),), (S(LIST(OR(INT, STR)), lst(left(i(1)), right(s('x')))),)],
    alphabet=[('MAP', (('CAR',),)), ('MAP', (('CDR',),)), ('MAP', (('UNPAIR', 2), ('SWAP',), ('PAIR', 2))), ('MAP', (('SOME',),)),
              ('MAP', (('IF_LEFT', (('SOME',),), (DROP(1), ('NONE', INT))),)), ('SIZE',), DUP(1), ('IF_CONS', (DIP(1, DROP(1)),), (('UNIT',), ('FAILWITH',))),
              ('NIL', NAT), ('ITER', (('CONS',),)), ('CONS',)])
M1 = ('map', ((p(i(1), s('a')), i(10)), (p(i(1), s('b')), i(20)), (p(i(2), s('a')), i(30))))
fam('types_map', depth=3, maxstack=4,
    inits=[(S(MAP(P(INT, STR), NAT), M1),), (S(MAP(P(INT, STR), NAT), ('map', ())),), (S(MAP(OR(INT, STR), OPT(INT)), ('map', ((left(i(1)), some(i(5))), (right(s('k')), none)))),)],
    alphabet=[('MAP', (('CDR',),)), ('MAP', (('CAR',),)), ('MAP', (('CAR',), ('CAR',))), ('MAP', (('CDR',), ('SOME',))), ('SIZE',), DUP(1),
              ('ITER', (('CAR',), DROP(1))), PUSH(P(INT, STR), p(i(1), s('b'))), PUSH(OR(INT, STR), left(i(1))), ('GETK',), ('MEM',),
              ('IF_NONE', (PUSH(NAT, i(0)),), ()), ('EMPTY_MAP', P(INT, STR), NAT), ('EMPTY_SET', OR(INT, STR)), ('SWAP',)])
fam('types_ctor', depth=3, maxstack=4,
    inits=[(S(INT, i(-3)), S(NAT, i(2))), (S(STR, s('ab')), S(NAT, i(1)), S(NAT, i(0))), (S(MUTEZ, i(7)), S(MUTEZ, i(2)))],
    alphabet=[('NONE', P(INT, NAT)), ('NIL', OR(INT, STR)), ('LEFT', LIST(INT)), ('RIGHT', OPT(NAT)), ('EMPTY_SET', P(INT, INT)), ('EMPTY_MAP', STR, LIST(NAT)),
              ('EDIV',), ('SLICE',), ('ISNAT',), ('SUB_MUTEZ',), ('ABS',), ('SOME',), ('PAIR', 2), ('SWAP',), ('DIG', 2), ('NEG',), ('INT',),
              ('IF_NONE', (('UNIT',), ('FAILWITH',)), ()), ('UNPAIR', 2)])

fam('types_upd', depth=2, maxstack=4,
    inits=[(S(OPT(STR), some(s('x'))), S(P(OPT(NAT), NAT), p(some(i(1)), i(2)))), (S(LIST(STR), lst(s('a'))), S(P(INT, P(LIST(INT), NAT)), p(i(1), p(lst(i(2)), i(3))))),
           (S(OR(STR, INT), left(s('q'))), S(P(INT, P(NAT, OR(INT, STR))), p(i(1), p(i(2), right(s('z')))))), (S(P(STR, STR), p(s('a'), s('b'))), S(P(P(INT, INT), P(P(NAT, NAT), UNIT)), p(p(i(1), i(2)), p(p(i(3), i(4)), U))))],
    alphabet=[('UPDATE', 1), ('UPDATE', 2), ('UPDATE', 3), ('UPDATE', 4), ('GET', 1), ('GET', 2), ('GET', 3), ('GET', 4), ('CAR',), ('CDR',), ('UNPAIR', 2), ('UNPAIR', 3), ('SWAP',),
              ('IF_NONE', (PUSH(STR, s('n')),), ()), ('IF_CONS', (DIP(1, DROP(1)),), (PUSH(STR, s('e')),)), ('SIZE',)])

FAMS = ['types_upd', 'types_list', 'types_map', 'types_ctor', 'optlist', 'adt', 'dipstack', 'stack', 'bigmap', 'dipops']


def annotated_types(ctx, prop, fname, st):
    from . import C17
    from .. import vmreplay
    from ..tlaparse import to_json
    import json
    init, env, prog = st['init'], st['env'] if isinstance(st['env'], dict) else {}, st['hist']
    if vmreplay.classify(st['status'], st['stack'], st['failv'], vmreplay.run_impl(init, env, prog)) is not None:
        return 'other-property'
    bad = None
    for scheme in ('field-inner-pairs', 'both-all'):
        got = vmreplay.run_impl(init, env, prog, annotate=lambda tj: C17.annotate_type(tj, scheme), instr_annotate=lambda ij: C17.annotate_instr(ij, scheme))
        res = vmreplay.classify(st['status'], st['stack'], st['failv'], got)
        ctx.count((fname, init, prog, scheme), nontrivial=True)
        if res is not None and res[0] == 'type':
            ctx.mismatch('C02:annotated-values:%s:%s:type' % (scheme, prog[-1][0]), 'program %s on %s with the initial values typed under annotation scheme %s: %s' % (
                json.dumps(to_json(prog)), json.dumps(to_json(init)), scheme, res[1]),
                {'family': fname, 'init': to_json(init), 'env': to_json(env), 'hist': to_json(prog), 'status': st['status'], 'stack': to_json(st['stack']), 'failv': to_json(st['failv']), 'scheme': scheme})
            bad = 'type'
    return bad


def self_types(ctx):
    """SELF / SELF %name :: contract <type of that entrypoint>.  The entrypoint table of every parameter type comes from MichEntry.tla (the C13 model):
    a plain SELF is SELF %default, and %default is the branch of that name if the union has one, else the whole parameter."""
    from . import C13
    from .. import terms
    from ..tlaparse import to_tla
    from pytezos.context.impl import ExecutionContext
    from pytezos.michelson.instructions.base import MichelsonInstruction
    from pytezos.michelson.stack import MichelsonStack
    C13.TYPE_ANNOTS[0] = False
    gen = {'MichEntryMC': C13.MC % to_tla(C13.BASES)}
    r = ctx.tlc('MichEntryMC', C13.CFG % (2, '"a", "b", "default"', '0'), name='self_types', gen=gen, timeout=900)
    ctx.require_no_violation(r, 'self_types')
    tabs = {v[2]: v[3] for v in r.printed if v[0] == 'OUT' and v[1] == 'list'}
    if not tabs:
        raise Exception('no entrypoint tables exported')
    n = 0
    for T in sorted(tabs, key=repr):
        tab = tabs[T]
        branches = {e[0]: e[2] for e in tab[:-1]}
        if T[1]:
            continue      # an annotated root: how the whole parameter is named is C13's matter
        want = {None: branches.get('default', T)}
        want.update(branches)
        pctx = ExecutionContext(script={'code': [{'prim': 'parameter', 'args': [C13.ann_json(T)]}, {'prim': 'storage', 'args': [{'prim': 'unit'}]}, {'prim': 'code', 'args': [[]]}]},
                                address='KT1BEqzn5Wx8uJrZNvuS9DVHmLvG9td3fDLi')
        for name, et in sorted(want.items(), key=repr):
            ins = {'prim': 'SELF'}
            if name is not None:
                ins['annots'] = ['%' + name]
            stack = MichelsonStack()
            n += 1
            ctx.replayed += 1
            ctx.count(('self', T, name), nontrivial='default' in branches or name is not None)
            case = {'parameter': C13.michelson(T), 'self': name}
            try:
                MichelsonInstruction.match(ins).execute(stack, [], pctx)
                got = terms.strip_annots(type(stack.items[0]).as_micheline_expr())
            except Exception as e:  # noqa
                ctx.mismatch('C02:SELF:%s:raises' % ('named' if name else 'plain'), 'parameter %s: SELF%s raised %r' % (C13.michelson(T), ' %' + name if name else '', e), case)
                continue
            exp = {'prim': 'contract', 'args': [terms.type_json(C13.plain(et))]}
            if got != exp:
                kind = 'plain-with-default-branch' if name is None and 'default' in branches else 'plain' if name is None else 'named'
                ctx.mismatch('C02:SELF:%s:type' % kind, 'parameter %s: SELF%s leaves %s, the typing rule gives %s' % (C13.michelson(T), ' %' + name if name else '', got, exp), case)
    ctx.extra['self_types'] = n


def run(ctx):
    ctx.rule = ('same machinery as C01 restricted to the *type* of every stack slot: Leg A = TLC checks TypePreservation (dynamic types of the reference run = static '
                'Ty, every value HasType its slot type, lambda bodies typed) on every reachable state; Leg B = the runtime type expression (annotations stripped) '
                'of every slot pytezos leaves after each enumerated program must equal the static type stack of the model; families emphasise MAP/ITER over lists '
                'and maps with pair / or keys and elements, empty collections and typed constructors; Leg C = result types of the hook-recorded repository test events')
    ctx.assumptions = ['annotations are stripped before comparison', 'projection in harness/vf/terms.py']
    fams = {}
    for name in FAMS:
        fams[name] = dict(vmfam.FAMILIES[name])
        if not ctx.quick and name not in ('bigmap', 'bigset', 'dipops'):      # the large-member families keep their depth (alphabets of 40-90 compound steps)
            fams[name]['depth'] += 1
    C01.run_families(ctx, 'C02', 'types', fams)
    # values that live at annotated types (as storage and parameter values do): the type of every slot, annotations stripped, is still the static one
    from . import C17
    cf = dict(vmfam.FAMILIES['comb'])
    C01.run_families(ctx, 'C02', 'types_annot', {'comb': cf}, replay_fn=annotated_types)
    self_types(ctx)
    ctx.exhaustive = True
    C01.leg_c(ctx, 'C02', C01.REPO_TESTS[:1] + C01.REPO_TESTS[2:3])


def replay(ctx, rep):
    if 'parameter' in rep['case']:
        self_types(ctx)
        return 1 if ctx.mismatches else 0
    return C01.replay(ctx, rep)


META = {
    'category': 'model_checking',
    'text': ('MichSem.tla assigns a static type stack (Ty) to every well-typed program and VM.tla checks, on every reachable state, that the reference run has exactly '
             'those slot types and that every value inhabits its type (TypePreservation). Every enumerated program of five type-centred families is replayed in '
             'pytezos and the runtime type expression of every stack slot compared with the static type; the types recorded by the hook during the repository opcode '
             'tests are validated by TLC as well.'),
    'design_ref': 'DESIGN.md section 5 C02',
    'note': 'Trusted: transcription of the Michelson typing rules, terms.py. Bounds: depth 3 (quick) / 4, pools of 3 initial stacks per family. The final storage type of run_code is covered through the hook events of the repository tests only.',
    'technique': 'TLA+ static typing + reference semantics, TLC invariant TypePreservation; replay into pytezos comparing runtime slot types; TLC trace validation',
}
