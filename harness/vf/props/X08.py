"""X08 (not a listed property: growth of the specification) - client configuration resolution follows
ClientConfig.tla and ClientConfigAccess.tla.

Part 1 (ClientConfig.tla): PyTezosClient.using / .contract / .operation_group and ContractInterface.using
(ContextMixin._spawn_context), the default client, and the per-context counter cache.  Leg A: TLC checks the invariants on
several bounded universes of call histories.  Leg B: every finished history is replayed through the real classes - the
default client, real Key objects, real RpcNode / RpcMultiNode shells whose HTTP requests end in the simulated nodes of
harness/vf/x08_world.py - and after EVERY call every object created so far is observed again (shell: identity, node
class, URLs; key: identity, public key hash, what the key can do; mode, gateway, block, address, own context) and
compared with the model, as are all results, all refusals and the URL of every request.

Part 2 (ClientConfigAccess.tla): every get_* accessor of ExecutionContext on every combination of available sources
(explicit value / key / node / nothing), and the `balance` override of ContractView.onchain_view.

Two deviations are modelled as coded and reported as INFO (the intended answer is accepted as well, so repairing them does
not alarm): ClientConfig!GwAsCodedDropped and ClientConfigAccess!OverrideAsCodedFalsyZero."""
import os

from .. import x08_world as W
from ..tlaparse import to_json, to_tla

INVARIANTS = ['ReceiverUnchanged', 'FieldwiseOverride', 'GwDropAsCoded', 'AliasEqualsUrl', 'FreshObjects', 'RefusedLeavesNothing',
              'OwnCounter', 'DerivedStartsEmpty', 'RoundRobin', 'NodeAnswers', 'Emit']
ACC_INVARIANTS = ['Total', 'Priority', 'ExplicitWins', 'RefusalOnlyDocumented', 'ArgumentWins', 'Emit']
ACCESSORS = ['now', 'level', 'balance', 'chain_id', 'protocol', 'min_block_time', 'sender', 'source', 'self_address', 'amount',
             'total_voting_power', 'voting_power', 'dummy_key_hash', 'dummy_address', 'dummy_txr_address', 'dummy_public_key', 'counter']
MC = """---- MODULE ClientConfigMC ----
EXTENDS ClientConfig
cAliasUrls == %(alias_urls)s
cAliasPair == %(alias_pair)s
cUserShells == %(user_shells)s
cUserKeys == %(user_keys)s
cUniverses == {%(universes)s}
====
"""
UNI = ('[name |-> "%(name)s", shells |-> %(shells)s, keys |-> %(keys)s, modes |-> %(modes)s, gws |-> %(gws)s, blocks |-> %(blocks)s, addrs |-> %(addrs)s,\n'
       '    calls |-> %(calls)s, depth |-> %(depth)d, maxobjs |-> %(maxobjs)d]')
CFG = """SPECIFICATION Spec
CONSTANTS AliasUrls <- cAliasUrls
 DefaultAlias = %(default_alias)d
 DefaultPair = 0
 AliasPair <- cAliasPair
 UserShells <- cUserShells
 UserKeys <- cUserKeys
 Universes <- cUniverses
 KnownAddrs = {1}
 SetValues = {5}
""" + ''.join('INVARIANT %s\n' % i for i in INVARIANTS)
ACC_CFG = """SPECIFICATION Spec
CONSTANTS Modes = {"access", "override"}
 Accessors = %s
""" + ''.join('INVARIANT %s\n' % i for i in ACC_INVARIANTS)
USER_SHELLS = (((2,), False), ((3, 2), True))      # <<urls, multi>>: obj 1, obj 2
USER_KEYS = ((1, 'full'), (2, 'pub'))
N = ('none',)


def strset(xs):
    return '{' + ', '.join('"%s"' % x for x in xs) + '}'


def tupset(xs):
    return '{' + ', '.join(to_tla(x) for x in xs) + '}'


def universes(quick, w):
    sh_all = [N, ('alias', 1), ('alias', 2), ('alias', 4), ('pool', 2), ('pool', 1), ('url', 1), ('url', w.extra), ('obj', 1), ('obj', 2),
              ('list', 2, 3), ('badpool',)]
    key_all = [N, ('obj', 1), ('obj', 2), ('alias', 1), ('alias', 2), ('sk', 1), ('pk', 1), ('pkh', 1), ('file', 4), ('dict', 4), ('tzalias', 5),
               ('unknown',), ('bad',)]
    key_curves = [('alias', 3), ('sk', 2), ('pk', 2), ('pkh', 2), ('sk', 5), ('pkh', 5), ('sk', 7), ('pk', 7), ('pkh', 7)]
    base = dict(modes=['none'], gws=['none'], blocks=['none'], addrs=[1], shells=[N], keys=[N], depth=2, maxobjs=0)
    q = quick
    us = [
        # which shell an argument means: two derivations, then one request through any of the three clients
        dict(base, name='shell', shells=sh_all, calls=['using', 'balance'], depth=3, maxobjs=3),
        # which key an argument means
        dict(base, name='key', keys=key_all,
             calls=['using', 'balance'] if q else ['using', 'balance', 'counter'], depth=3, maxobjs=3),
        # field by field: mode, gateway, shell, key over using / contract / operation_group
        dict(base, name='fields', shells=[N, ('alias', 2)], keys=[N] if q else [N, ('alias', 1)], modes=['none', 'optimized'] if q else ['none', 'optimized', 'readable'],
             gws=['none', 'g1', 'g2'], addrs=[1, 2], calls=['using', 'contract', 'opg'], depth=2),
        dict(base, name='chain', keys=[N] if q else [N, ('pkh', 1)], modes=['none', 'optimized'], gws=['none', 'g1'] if q else ['none', 'g1', 'g2'],
             addrs=[1] if q else [1, 2], calls=['using', 'contract', 'opg'], depth=3),
        # ContractInterface.using: shell and key are documented to be ignored for an interface with an address
        dict(base, name='interface', shells=[N, ('url', w.extra), ('list', 2, 3)], keys=[N, ('alias', 1)] if q else [N, ('alias', 1), ('bad',)],
             modes=['none', 'optimized'], gws=['none', 'g1'], blocks=['none', 'b1'] if q else ['none', 'b1', 'b2'], calls=['contract', 'cusing'], depth=2 if q else 3),
        dict(base, name='interface3', modes=['none', 'optimized'], gws=['none', 'g1'], blocks=['none', 'b1'], calls=['contract', 'cusing'], depth=3),
        # state of a context: counter cache, reset, requests through shared and own shells
        dict(base, name='state', shells=[N, ('pool', 2)], calls=['using', 'opg', 'counter', 'setctr', 'reset', 'balance', 'now'], depth=3 if q else 4),
        dict(base, name='state2', shells=[N, ('obj', 2)], keys=[N, ('alias', 1)], calls=['using', 'counter', 'reset', 'now'], depth=3 if q else 4),
    ]
    if not q:
        us.append(dict(base, name='curves', keys=[N] + key_curves, calls=['using', 'balance'], depth=2))
        us.append(dict(base, name='fields3', shells=[N, ('alias', 2)], keys=[N, ('alias', 1)], modes=['none', 'optimized'], gws=['none', 'g1'],
                       calls=['using', 'contract', 'opg'], depth=3))
    for u in us:
        u['maxobjs'] = u['maxobjs'] or u['depth'] + 1
    return us


# ------------------------------------------------------------------ observation of real objects
def key_kind(k):
    try:
        k.public_key()
    except NotImplementedError:
        return 'hash'
    try:
        k.secret_key()
    except Exception:
        return 'pub'
    return 'full'


class Replay:
    """one call history against the real classes"""

    def __init__(self, ctx, w, uname, out, stats):
        from pytezos.client import PyTezosClient
        from pytezos.contract.interface import ContractInterface
        from pytezos.operation.group import OperationGroup
        self.ctx, self.w, self.uname, self.stats = ctx, w, uname, stats
        _, _, self.m_objs, self.m_shells, self.m_keys, self.log, self.m_reqs = out
        self.classes = {'client': PyTezosClient, 'contract': ContractInterface, 'opg': OperationGroup}
        self.case = {'universe': uname, 'out': to_json(out)}
        self.user_keys = w.user_keys
        self.text = describe(self.log)
        self.bad = False

    def miss(self, sig, detail):
        self.bad = True
        self.ctx.mismatch('X08:' + sig, '%s [universe %s, history %s]' % (detail, self.uname, self.text), self.case)

    def bind(self, what, table, no, real, step):
        """the model says: object number `no` of the heap; the real object must be the one bound to that number, or - for a
        number not seen before - an object not seen before"""
        if no in table:
            if table[no] is not real:
                self.miss('%s:identity:%s' % (step, what), 'the %s of the new object is not the expected existing object (heap number %d)' % (what, no))
        else:
            if any(real is x for x in table.values()):
                self.miss('%s:identity:%s-shared' % (step, what), 'the %s of the new object is an object that belongs to another client; the model expects a fresh one' % what)
            table[no] = real

    def observe(self, i, step):
        """compare real object number i (1-based) with the model's configuration of it"""
        w = self.w
        kind, sh, ky, mode, gw, gwi, block, addr = self.m_objs[i - 1]
        o = self.real[i - 1]
        if not isinstance(o, self.classes[kind]):
            self.miss('%s:class' % step, 'object %d is a %s, expected %s' % (i, type(o).__name__, kind))
            return
        c = o.context
        for j, other in enumerate(self.real[:i - 1]):
            if other.context is c:
                self.miss('%s:context-shared' % step, 'objects %d and %d share one ExecutionContext' % (j + 1, i))
            elif other.context.big_maps is c.big_maps or other.context.global_constants is c.global_constants:
                self.miss('%s:registry-shared' % step, 'objects %d and %d share a big_map / constants registry' % (j + 1, i))
        # shell
        if o.shell is not self.shells.get(sh):
            self.miss('%s:shell-object' % step, 'object %d talks through another connection object than heap number %d' % (i, sh))
        urls, multi = self.m_shells[sh - 1]
        node = o.shell.node
        got_urls = [w.url_no(x) for x in node.uri]
        if got_urls != list(urls) or (len(urls) > 1 and type(node).__name__ != 'RpcMultiNode'):
            self.miss('%s:shell-nodes' % step, 'object %d: node %s %s, expected %s %s' % (i, type(node).__name__, node.uri, 'multi' if multi else 'single', [w.urls[u] for u in urls]))
        # key
        if o.key is not self.keys.get(ky):
            self.miss('%s:key-object' % step, 'object %d holds another key object than heap number %d' % (i, ky))
        pair, kk = self.m_keys[ky - 1]
        got = (o.key.public_key_hash(), key_kind(o.key))
        if got != (w.pkh[pair], kk):
            self.miss('%s:key-%s' % (step, 'hash' if got[0] != w.pkh[pair] else 'kind'), 'object %d: key %s (%s), expected %s (%s)' % (i, got[0], got[1], w.pkh[pair], kk))
        if c.key is not o.key or c.shell is not o.shell:
            self.miss('%s:context-fields' % step, 'object %d: .key / .shell differ from its context' % i)
        # plain fields
        if c.mode != mode:
            self.miss('%s:mode' % step, 'object %d: mode %r, expected %r' % (i, c.mode, mode))
        g = (c.ipfs_gateway or '').rstrip('/')
        if g == W.GW[gw].rstrip('/'):
            if gw != gwi:
                self.stats['gw_dropped'].add((self.uname, self.text, i))
        elif g == W.GW[gwi].rstrip('/'):
            self.stats['gw_intended'] += 1
        else:
            self.miss('%s:gateway' % step, 'object %d: ipfs gateway %r, expected %r' % (i, c.ipfs_gateway, W.GW[gwi]))
        if c.block_id != W.BLOCKS[block] and o.block_id == c.block_id and self.parent.get(i) and self.via[i][5] == 'none' \
                and c.block_id == self.real[self.parent[i] - 1].context.block_id:
            self.stats['block_inherited'] += 1        # not the documented "default is head", but a defensible reading: accepted
        elif c.block_id != W.BLOCKS[block] or o.block_id != c.block_id:
            self.miss('%s:block' % step, 'object %d: block_id %r, expected %r' % (i, c.block_id, W.BLOCKS[block]))
        want_addr = W.KT[addr] if addr else None
        if c.address != want_addr or o.address != want_addr:
            self.miss('%s:address' % step, 'object %d: address %r, expected %r' % (i, c.address, want_addr))

    def spawn(self, recv, via, res, step):
        w = self.w
        op, sa, ka, ma, ga, blk, addr = via
        r = self.real[recv - 1]
        kw = {}
        if sa[0] == 'obj':
            kw['shell'] = self.shells[1 + sa[1]]
        elif sa[0] != 'none':
            kw['shell'] = w.shell_arg(sa)
        if ka[0] == 'obj':
            kw['key'] = self.keys[1 + ka[1]]
        elif ka[0] != 'none':
            kw['key'] = w.key_arg(ka)
        if ma != 'none':
            kw['mode'] = ma
        if ga != 'none':
            kw['ipfs_gateway'] = W.GW[ga]
        if blk != 'none':
            kw['block_id'] = W.BLOCKS[blk]
        try:
            if op in ('using', 'cusing'):
                new = r.using(**kw)
            elif op == 'contract':
                new = r.contract(W.KT[addr])
            else:
                new = r.operation_group()
        except Exception as e:   # noqa: BLE001 - a refusal is any exception; which one is not part of the model
            if w.unknown:
                raise AssertionError('x08 world: request not modelled %s' % w.unknown)
            if res == 0 and sa[0] == 'list':
                self.stats['list_refused'] += 1
            if res != 0:
                self.miss('%s:refused' % step, '%s(%s) raised %s: %s; the model derives object %d' % (op, kw_text(kw), type(e).__name__, str(e)[:120], res))
                return False
            return True
        if res == 0 and sa[0] == 'list' and op == 'using':
            # a list of URLs accepted: it must mean the multi-node shell over these URLs, in this order, everything else inherited
            node = new.shell.node
            if type(node).__name__ == 'RpcMultiNode' and [w.url_no(x) for x in node.uri] == list(sa[1:]) and new is not r and new.context is not r.context:
                self.stats['list_accepted'] += 1
                self.left = True
                return False
        if res == 0:
            self.miss('%s:accepted' % step, '%s(%s) returned %s; the model refuses the call' % (op, kw_text(kw), type(new).__name__))
            return False
        if any(new is x for x in self.real):
            self.miss('%s:not-new' % step, '%s returned an existing object' % op)
            return False
        assert res == len(self.real) + 1
        self.real.append(new)
        self.parent[res] = recv
        self.via[res] = via
        self.bind('shell', self.shells, self.m_objs[res - 1][1], new.shell, step)
        self.bind('key', self.keys, self.m_objs[res - 1][2], new.key, step)
        return True

    def access(self, o, what, val, step):
        from decimal import Decimal
        r = self.real[o - 1]
        name, arg = what
        if name == 'counter':
            got = r.context.get_counter()
        elif name == 'setctr':
            r.context.set_counter(arg)
            got = 0
        elif name == 'reset':
            r.context.reset()
            got = 0
        elif name == 'balance':
            b = r.balance()
            got = int(b * 10 ** 6) if isinstance(b, Decimal) and b * 10 ** 6 == int(b * 10 ** 6) else b
        elif name == 'now':
            got = r.now() - W.BASE_TS
        if got != val:
            self.miss('%s:value' % step, '%s on object %d gave %r, expected %r' % (name, o, got, val))
            return False
        return True

    def run(self):
        from pytezos.client import PyTezosClient
        w = self.w
        w.reset()
        root = PyTezosClient()
        self.real = [root]
        self.parent, self.via, self.left = {}, {}, False
        self.shells = {1: root.shell}
        self.keys = {1: root.key}
        for n, (urls, multi) in enumerate(USER_SHELLS):
            self.shells[2 + n] = w.user_shell(urls, multi)
        for n, k in enumerate(self.user_keys):
            self.keys[2 + n] = k
        self.observe(1, 'default')
        for entry in self.log:
            step = entry[2][0]
            if entry[0] == 'spawn':
                ok = self.spawn(entry[1], entry[2], entry[3], sig_of(entry[2]))
            else:
                ok = self.access(entry[1], entry[2], entry[3], step)
            if not ok:
                return
            for i in range(1, len(self.real) + 1):          # every object, also the old ones: nothing but the new one may differ
                self.observe(i, sig_of(entry[2]) if entry[0] == 'spawn' else step)
            if self.bad:
                return
        if w.unknown:
            raise AssertionError('x08 world: request not modelled %s' % w.unknown)
        if list(w.requests) != list(self.m_reqs):
            self.miss('requests:%s' % ('count' if len(w.requests) != len(self.m_reqs) else 'url'),
                      'requests went to %s, expected %s' % ([w.urls[u] for u in w.requests], [w.urls[u] for u in self.m_reqs]))


def sig_of(via):
    op, sa, ka, ma, ga, blk, addr = via
    return '%s:shell-%s:key-%s' % (op, sa[0], ka[0])


def kw_text(kw):
    return ', '.join('%s=%s' % (k, (str(v)[:40] if not hasattr(v, 'node') and not hasattr(v, 'public_key_hash') else type(v).__name__)) for k, v in kw.items())


def describe(log):
    out = []
    for e in log:
        if e[0] == 'spawn':
            op, sa, ka, ma, ga, blk, addr = e[2]
            a = [x for x in ('shell=' + '/'.join(map(str, sa)) if sa[0] != 'none' else '', 'key=' + '/'.join(map(str, ka)) if ka[0] != 'none' else '',
                             'mode=' + ma if ma != 'none' else '', 'gw=' + ga if ga != 'none' else '', 'block=' + blk if blk != 'none' else '',
                             'addr=%d' % addr if op == 'contract' else '') if x]
            out.append('#%d.%s(%s)->%s' % (e[1], op, ','.join(a), '#%d' % e[3] if e[3] else 'refused'))
        else:
            out.append('#%d.%s%s' % (e[1], e[2][0], '(%d)' % e[2][1] if e[2][0] == 'setctr' else ''))
    return ' '.join(out)


# ------------------------------------------------------------------ part 2: accessors
EXPLICIT = {'now': 12345, 'level': 77, 'balance': 5000000, 'chain_id': 'NetXdQprcVkpaWU', 'min_block_time': 15, 'amount': 42,
            'total_voting_power': 9000, 'counter': 7}
ACC_URL = 2
KW = {'self_address': 'address'}
CALL = {n: 'get_' + n for n in ACCESSORS}


def acc_expected_value(w, name, src, ex, key):
    """value the source must answer with (None: a dummy default - only its class is fixed)"""
    if src == 'explicit':
        v = 0 if ex == 'zero' else w.acc_explicit[name]
        if name == 'counter':
            return v + 1
        if name == 'voting_power':
            return 500
        return v
    if src == 'key':
        return key.public_key() if name == 'dummy_public_key' else key.public_key_hash()
    if src == 'node':
        u = ACC_URL
        return {'now': W.BASE_TS + W.node_ts(u) + W.node_delay(u), 'level': W.node_level(u), 'balance': W.node_bal(u, 11), 'chain_id': W.node_chain_id(u),
                'protocol': W.node_protocol(u), 'min_block_time': W.node_delay(u),
                'counter': (W.node_ctr(u, w.accounts[key.public_key_hash()]) + 1) if key is not None else None}[name]
    return None


DUMMY_CLASS = {'sender': 'tz1', 'source': 'tz1', 'self_address': 'KT1', 'chain_id': 'Net', 'dummy_key_hash': 'tz1', 'dummy_address': 'KT1',
               'dummy_txr_address': 'txr1', 'dummy_public_key': 'edpk'}


def acc_case(ctx, w, stats, case, second=False):
    from pytezos.context.impl import ExecutionContext
    from pytezos.rpc import RpcNode, ShellQuery
    mode, name, ex, ky, sh, res, coded = case
    key = {'absent': None, 'full': w.acc_keys['full'], 'pub': w.acc_keys['pub'], 'hash': w.acc_keys['hash']}[ky]
    kw = {'key': key, 'shell': ShellQuery(RpcNode(w.urls[ACC_URL])) if sh == 'present' else None}
    if ex != 'absent':
        v = 0 if ex == 'zero' else w.acc_explicit[name]
        kw[KW.get(name, name)] = {W.KT[2]: 500} if name == 'voting_power' else v
    if name == 'balance':
        kw['address'] = W.KT[1]
    w.reset()
    c = ExecutionContext(**kw)
    args = (W.KT[2],) if name == 'voting_power' else ()
    try:
        got = ('value', getattr(c, CALL[name])(*args))
    except Exception as e:   # noqa: BLE001
        got = ('raise', type(e).__name__)
    if w.unknown:
        raise AssertionError('x08 world: request not modelled %s' % w.unknown)
    src, outcome = res
    cfg = 'explicit=%s key=%s shell=%s' % (ex, ky, sh)
    jcase = {'part': 'access', 'case': to_json(case)}
    if got[0] != outcome:
        ctx.mismatch('X08:access:%s:%s-instead-of-%s:%s' % (name, got[0], outcome, src),
                     'get_%s with %s: pytezos %s, the model answers from source `%s` with a %s' % (name, cfg, got, src, outcome), jcase)
        return
    if outcome == 'raise':
        return
    want = acc_expected_value(w, name, src, ex, key)
    if want is not None:
        if got[1] != want or type(got[1]) is not type(want):
            ctx.mismatch('X08:access:%s:wrong-source:%s' % (name, src),
                         'get_%s with %s: pytezos answered %r, the first available source is `%s` = %r' % (name, cfg, got[1], src, want), jcase)
        return
    # a dummy default: one fixed well-formed value per accessor, different from everything the other sources could answer
    foreign = set(x for x in w.acc_explicit.values() if isinstance(x, str)) | {W.node_chain_id(ACC_URL), W.node_protocol(ACC_URL)}
    for k in w.acc_keys.values():
        foreign.add(k.public_key_hash())
    foreign.add(w.acc_keys['full'].public_key())
    v = got[1]
    seen = stats['dummy'].setdefault(name, v)
    ok = v == seen and type(v) is type(seen)
    if name in DUMMY_CLASS:
        ok = ok and isinstance(v, str) and v.startswith(DUMMY_CLASS[name]) and b58_ok(v) and v not in foreign
    else:
        ok = ok and isinstance(v, int) and not isinstance(v, bool) and v >= 0 and (v == 0 if name in ('amount', 'balance', 'voting_power', 'total_voting_power') else True)
    if not ok:
        ctx.mismatch('X08:access:%s:dummy-default' % name, 'get_%s with %s: dummy default %r is not a fixed well-formed default (first seen %r)' % (name, cfg, v, seen), jcase)


def b58_ok(text):
    from ..fakenode import B58
    import hashlib
    try:
        n = 0
        for ch in text:
            n = n * 58 + B58.index(ch)
    except ValueError:
        return False
    raw = n.to_bytes((n.bit_length() + 7) // 8, 'big')
    return hashlib.sha256(hashlib.sha256(raw[:-4]).digest()).digest()[:4] == raw[-4:]


def override_case(ctx, w, stats, case, second=False):
    from pytezos.context.impl import ExecutionContext
    from pytezos.contract.interface import ContractInterface
    from pytezos.michelson.parse import michelson_to_micheline
    mode, name, ex, ky, sh, res, coded = case
    val = {'absent': None, 'zero': 0}
    script = {'code': michelson_to_micheline(W.VIEW_CODE), 'storage': {'prim': 'Unit'}}
    ci = ContractInterface.from_context(ExecutionContext(balance=val.get(sh, 5), script=script))
    before = ci.context.balance
    got = ci.bal().onchain_view(balance=val.get(ex, 7))
    num = {('arg', 'value'): 7, ('arg', 'zero'): 0, ('ctx', 'value'): 5, ('ctx', 'zero'): 0, ('default', 'zero'): 0}
    jcase = {'part': 'override', 'case': to_json(case)}
    if ci.context.balance != before:
        ctx.mismatch('X08:override:balance:receiver-mutated', 'onchain_view(balance=..) changed the balance of the interface it was called on', jcase)
    if got == num[tuple(res)]:
        if num[tuple(res)] != num[tuple(coded)]:
            stats['override_intended'] += 1
    elif got == num[tuple(coded)]:
        if not second:
            stats['override_coded'].append('context balance %s, onchain_view(balance=%s) -> BALANCE %s (intended %s)' % (val.get(sh, 5), val.get(ex, 7), got, num[tuple(res)]))
    else:
        ctx.mismatch('X08:override:balance:arg-%s:ctx-%s' % (ex, sh), 'interface with balance %s, onchain_view(balance=%s): BALANCE is %r, expected %r' % (
            val.get(sh, 5), val.get(ex, 7), got, num[tuple(res)]), jcase)


# ------------------------------------------------------------------ run
def prepare(ctx):
    w = W.install(os.path.join(ctx.wd, 'home'))
    if not hasattr(w, 'acc_keys'):
        from pytezos import pytezos
        from ..opclient import make_key
        k = w.made[1]
        w.acc_keys = {'full': k, 'pub': w.user_key(1, 'pub'), 'hash': pytezos.using(key=w.pkh[1]).key}
        w.acc_explicit = dict(EXPLICIT, protocol=W.node_protocol(9), sender=make_key('tz1', 83).public_key_hash(), source=make_key('tz2', 84).public_key_hash(),
                              self_address=W.KT[2], voting_power=500)
        w.user_keys = [w.user_key(p, kind) for p, kind in USER_KEYS]
    return w


def run_histories(ctx, w, stats):
    us = universes(ctx.quick, w)
    unis = ',\n  '.join(UNI % dict(name=u['name'], shells=tupset(u['shells']), keys=tupset(u['keys']), modes=strset(u['modes']), gws=strset(u['gws']),
                                    blocks=strset(u['blocks']), addrs='{' + ', '.join(map(str, u['addrs'])) + '}', calls=strset(u['calls']),
                                    depth=u['depth'], maxobjs=u['maxobjs']) for u in us)
    gen = MC % dict(alias_urls=to_tla(tuple(tuple(x) for x in w.alias_urls[1:])), alias_pair=to_tla(tuple(W.ALIAS_PAIR)),
                    user_shells=to_tla(USER_SHELLS), user_keys=to_tla(USER_KEYS), universes=unis)
    r = ctx.tlc('ClientConfigMC', CFG % dict(default_alias=w.default_alias), name='ClientConfig', workers=6, coverage=False, gen={'ClientConfigMC': gen}, timeout=1500)
    ctx.require_no_violation(r, 'ClientConfig')
    outs = sorted((v for v in r.printed if v[0] == 'OUT'), key=repr)
    per = {}
    for out in outs:
        uname = out[1]
        per[uname] = per.get(uname, 0) + 1
        rp = Replay(ctx, w, uname, out, stats)
        rp.run()
        ctx.replayed += 1
        log = out[5]
        ctx.count((uname, log), nontrivial=any(e[0] == 'spawn' and e[3] for e in log))
        stats['calls'] += len(log)
        if not rp.bad and sum(1 for e in log if e[0] == 'spawn' and e[3]) >= 2 and sum(map(ord, rp.text)) % 97 == 0:
            ctx.sample({'universe': uname, 'history': rp.text, 'requests': [w.urls[x] for x in out[6]]}, limit=5)
    missing = [u['name'] for u in us if not per.get(u['name'])]
    if missing:
        raise AssertionError('no finished history printed for universes %s' % missing)
    ctx.extra['histories_per_universe'] = per
    return len(outs)


def run_access(ctx, w, stats):
    n = 0
    r = ctx.tlc('ClientConfigAccess', ACC_CFG % strset(ACCESSORS), name='ClientConfigAccess', workers=2, coverage=False)
    ctx.require_no_violation(r, 'ClientConfigAccess')
    outs = sorted((v for v in r.printed if v[0] == 'OUT'), key=repr)
    if not any(v[1] == 'access' for v in outs) or not any(v[1] == 'override' for v in outs):
        raise AssertionError('no accessor case printed')
    for v in outs:
        case = v[1:]
        fn = acc_case if case[0] == 'access' else override_case
        fn(ctx, w, stats, case)
        ctx.again(fn, ctx, w, stats, case, True)
        ctx.replayed += 1
        ctx.count(('acc',) + tuple(map(repr, case)), nontrivial=True)
        n += 1
    ctx.second_pass()          # deterministic: the same answers once more, in reverse order
    return n


def check_default_client(ctx, w):
    """src/pytezos/__init__.py: `pytezos` is a client of the default network with the built-in key; it is never written"""
    from pytezos import pytezos
    from pytezos.client import PyTezosClient
    got = (type(pytezos) is PyTezosClient, [w.url_no(x) for x in pytezos.shell.node.uri], pytezos.key.public_key_hash(), pytezos.context.mode,
           pytezos.context.ipfs_gateway, pytezos.block_id, pytezos.address, pytezos.context.counter)
    want = (True, [w.alias_urls[w.default_alias][0]], W.WELL_KNOWN['default'], 'readable', W.GW['default'], 'head', None, None)
    if got != want:
        ctx.mismatch('X08:default-client', 'the default client is %r, expected %r' % (got, want), {'part': 'default'})


def run(ctx):
    w = prepare(ctx)
    stats = {'block_inherited': 0, 'list_accepted': 0, 'list_refused': 0, 'gw_dropped': set(), 'gw_intended': 0, 'calls': 0, 'dummy': {}, 'override_coded': [], 'override_intended': 0}
    ctx.rule = ('every history of up to 3 (quick) / 4 (thorough) calls of using / contract / operation_group / ContractInterface.using / get_counter / '
                'set_counter / reset / balance / now over the argument universes of ClientConfig.tla (12 shell forms, 13-22 key forms, modes, gateways, '
                'blocks), every object observed after every call; every accessor of ExecutionContext on every combination of explicit value / key / shell')
    ctx.assumptions = [
        'nodes are simulated at requests.request (harness/vf/x08_world.py); a two-node network `x08net` is registered in the public `nodes` table; '
        'HOME points into the work directory (faucet file, tezos-client keychain)',
        'the alias -> URL table and the default network are read from pytezos.context.mixin (configuration data); key hashes of the built-in aliases are the '
        'publicly documented ones',
        'a refusal is any exception; which exception class is not compared',
        'a string that is at once a built-in alias, a key, a file name and a keychain alias is outside the compared domain (precedence undocumented)',
        'block_id is taken as documented ("default is head": not inherited); block_id=0 and min_block_time=0 are outside the compared domain',
        'dummy defaults are compared by class (fixed per accessor, well-formed, distinct from every other source; 0 for amount / balance / voting power), '
        'get_dummy_public_key of a key that only knows its hash is outside the compared domain',
        'an unspecified shell is inherited as the same connection object (a multi-node shell continues its round robin across the clients that share it)',
    ]
    check_default_client(ctx, w)
    total = run_histories(ctx, w, stats)
    check_default_client(ctx, w)
    n_acc = run_access(ctx, w, stats)
    ctx.exhaustive = True
    ctx.extra['histories'] = total
    ctx.extra['calls_replayed'] = stats['calls']
    ctx.extra['accessor_cases'] = n_acc
    if stats['gw_dropped']:
        ex = sorted(stats['gw_dropped'])[0]
        msg = ('deviation modelled as coded (ClientConfig!GwAsCodedDropped): a derived object does not inherit the IPFS gateway of its receiver - %d objects in the '
               'replayed histories have the default gateway where the receiver had another one, e.g. %s (object %d)' % (len(stats['gw_dropped']), ex[1], ex[2]))
        print('INFO X08 ' + msg)
        ctx.notes.append(msg)
    if stats['override_coded']:
        msg = ('deviation modelled as coded (ClientConfigAccess!OverrideAsCodedFalsyZero): the explicit override 0 is taken for "not given": %s' % '; '.join(sorted(set(stats['override_coded']))))
        print('INFO X08 ' + msg)
        ctx.notes.append(msg)
    if stats['list_refused']:
        msg = ('as coded (ClientConfig!ListAsCodedRefused): using(shell=[url, url]) is refused ("unexpected shell") in %d calls - a list of URLs is not a documented form; '
               'several nodes are given as \'<alias>.pool\' or as ShellQuery(RpcMultiNode([...]))' % stats['list_refused'])
        print('INFO X08 ' + msg)
        ctx.notes.append(msg)
    if stats['list_accepted'] or stats['block_inherited']:
        print('INFO X08 accepted alternatives observed: list of URLs as multi-node shell %d, block_id inherited %d' % (stats['list_accepted'], stats['block_inherited']))
        ctx.skip('history left after using(shell=[..]) was accepted as a multi-node shell', stats['list_accepted'])
    if stats['gw_intended'] or stats['override_intended']:
        print('INFO X08 intended behaviour observed where a deviation is modelled: gateway %d, override %d' % (stats['gw_intended'], stats['override_intended']))


def replay(ctx, rep):
    """re-run one recorded case (a call history with the model's final state, or an accessor case)"""
    w = prepare(ctx)
    stats = {'block_inherited': 0, 'list_accepted': 0, 'list_refused': 0, 'gw_dropped': set(), 'gw_intended': 0, 'calls': 0, 'dummy': {}, 'override_coded': [], 'override_intended': 0}
    case = rep.get('case') or {}
    if 'out' in case:
        Replay(ctx, w, case['universe'], case['out'], stats).run()
    elif case.get('part') in ('access', 'override'):
        (acc_case if case['part'] == 'access' else override_case)(ctx, w, stats, case['case'])
    else:
        print('X08: nothing to replay for %s' % str(case)[:200])
        return 0
    for m in ctx.mismatches:
        print('REPRODUCED %s: %s' % (m.signature, m.detail[:600]))
    return 1 if ctx.mismatches else 0


META = {'category': 'model_checking', 'text': 'growth of the specification: ClientConfig.tla, ClientConfigAccess.tla', 'design_ref': 'DESIGN.md 11.7',
        'note': 'not a listed property', 'technique': 'TLA+ + TLC + replay'}
