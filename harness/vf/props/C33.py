"""C33 - registered global constants expand wherever they occur.  Spec: Constants.tla."""
import copy, random

from .. import c31c33_ref as ref
from ..tlaparse import to_json

CFG = """SPECIFICATION Spec
CONSTANTS MaxReg = %d
 Wide = %s
INVARIANT Expanded
INVARIANT NoConstantLeft
INVARIANT RestUnchanged
INVARIANT FailsIffUnknown
INVARIANT PlainUntouched
INVARIANT EmitDone
PROPERTY Terminates
"""

_memo = {}


def conc(t):
    """Term of Constants.tla -> Micheline JSON.  <<"hash", e>> becomes the Tezos expression hash of the concretised e,
    computed with hashlib.blake2b, an own Micheline binary encoder and an own base58check encoder."""
    if t in _memo:
        return copy.deepcopy(_memo[t])
    tag = t[0]
    if tag == 'int':
        r = {'int': str(t[1])}
    elif tag == 'string':
        kind, x = t[1]
        r = {'string': x if kind == 'lit' else ref.expr_hash(conc(x))}
    elif tag == 'seq':
        r = [conc(x) for x in t[1]]
    elif tag == 'prim':
        r = {'prim': t[1]}
        if t[2]:
            r['args'] = [conc(x) for x in t[2]]
        if t[3]:
            r['annots'] = list(t[3])
    else:
        raise ValueError(t)
    _memo[t] = r
    return copy.deepcopy(r)


def has_constant(e):
    if isinstance(e, list):
        return any(has_constant(x) for x in e)
    if isinstance(e, dict):
        return e.get('prim') == 'constant' or any(has_constant(x) for x in e.get('args', []))
    return False


def refdepth(t):
    """Length of the longest chain of references inside a term."""
    if t[0] == 'string':
        return 1 + refdepth(t[1][1]) if t[1][0] == 'hash' else 0
    if t[0] == 'prim':
        return max([refdepth(x) for x in t[2]] + [0])
    if t[0] == 'seq':
        return max([refdepth(x) for x in t[1]] + [0])
    return 0


def tup(x):
    return tuple(tup(y) for y in x) if isinstance(x, (list, tuple)) else x


class _Contract:
    def __init__(self, script):
        self._script = script

    def script(self):
        return copy.deepcopy(self._script)


class _Contracts(dict):
    def __getitem__(self, k):
        return _Contract(dict.__getitem__(self, k))


class _Shell:
    """a stand-in for ShellQuery offering what the context asks of it here: contracts[address].script()"""
    def __init__(self, scripts):
        self.contracts = _Contracts(scripts)


def compare(ctx, fam, reg, script, status, cur, expansions, nrefs, order=None, e2e=False, sig='C33'):
    """Register the concretised constants, resolve the concretised script, compare with the model."""
    from pytezos.context.impl import ExecutionContext
    bodies = [conc(e) for e in reg]
    order = list(order) if order is not None else list(range(len(bodies)))
    src = conc(script)
    want = conc(cur) if status == 'done' else None
    icls = 'plain' if nrefs == 0 else 'unknown' if status == 'failed' else 'nested' if expansions > nrefs else 'direct'
    case = {'fam': fam, 'reg': to_json(reg), 'script': to_json(script), 'status': status, 'cur': to_json(cur),
            'expansions': expansions, 'nrefs': nrefs, 'order': order, 'e2e': e2e}
    ok = True

    def bad(where, obs, text):
        nonlocal ok
        ok = False
        ctx.mismatch('%s:%s:%s:%s:%s' % (sig, where, fam, icls, obs), text + '\nregistered=%s\nexpression=%s' % (bodies, src), case)

    def register(seq):
        ec = ExecutionContext()
        for k in seq:
            ec.register_global_constant(copy.deepcopy(bodies[k]))
        return ec

    try:
        ec = register(order)
    except Exception:   # noqa
        # Tezos itself refuses a constant that references a hash not registered yet; an implementation doing the same
        # is not judged for it: retry with referenced constants first, and leave the case out if that is refused too
        try:
            ec = register(sorted(range(len(reg)), key=lambda k: refdepth(reg[k])))
            ctx.skip('registration in seeded order refused, dependency order used')
        except Exception:   # noqa
            ctx.skip('registration refused (constant references an unregistered hash)')
            return True
    keys = sorted(ec.global_constants)
    wantkeys = sorted(ref.expr_hash(b) for b in bodies)
    if keys != wantkeys:
        bad('register', 'wrong-hash', 'registered under %s, Tezos expression hashes are %s' % (keys, wantkeys))
        return False
    outs = []
    for attempt in (1, 2):       # the second call sees whatever the first one left in the registry
        try:
            outs.append(('ok', ec.resolve_global_constants(copy.deepcopy(src))))
        except Exception as e:   # noqa
            outs.append(('raised', type(e).__name__, str(e)[:100]))
    first = outs[0]
    if status == 'failed':
        if first[0] == 'ok':
            bad('resolve', 'unknown-hash-accepted', 'a reference to an unregistered hash is reachable, resolve returned %s' % (first[1],))
    elif first[0] == 'raised':
        bad('resolve', 'raises-' + first[1], 'every referenced hash is registered, resolve raised %s: %s' % (first[1], first[2]))
    elif first[1] != want:
        obs = 'constant-left' if has_constant(first[1]) else 'wrong-expansion'
        bad('resolve', obs, 'resolve returned %s\nthe expansion is %s' % (first[1], want))
    if ok and outs[1] != first:
        bad('resolve', 'not-repeatable', 'second resolve of the same expression gave %s, first %s' % (outs[1], first))
    if ok and status == 'done':
        again = ec.resolve_global_constants(copy.deepcopy(want))      # an expression without references is left unchanged
        if again != want:
            bad('resolve', 'expanded-not-fixpoint', 'resolve of the reference-free expansion returned %s' % (again,))
    if ok:
        # the other ways a registry and an expression reach the same function: the registry handed to the constructor (as ContractInterface contexts
        # are built), and the parameter / storage type of another contract fetched through the shell (get_parameter_expr / get_storage_expr with an address)
        ec2 = ExecutionContext(global_constants={ref.expr_hash(b): copy.deepcopy(b) for b in bodies})
        try:
            o2 = ('ok', ec2.resolve_global_constants(copy.deepcopy(src)))
        except Exception as e:   # noqa
            o2 = ('raised', type(e).__name__, str(e)[:100])
        if o2 != first:
            bad('resolve', 'registry-given-to-constructor-differs', 'with the same registry passed as ExecutionContext(global_constants=..) resolve gave %s; registered one by one: %s' % (o2, first))
        addr = 'KT1PWx2mnDueood7fEmfbBDKx1D9BAnnXitn'
        remote = {'code': [{'prim': 'parameter', 'args': [copy.deepcopy(src)]}, {'prim': 'storage', 'args': [copy.deepcopy(src)]}, {'prim': 'code', 'args': [[]]}], 'storage': {'prim': 'Unit'}}
        ec3 = ExecutionContext(shell=_Shell({addr: remote}), global_constants={ref.expr_hash(b): copy.deepcopy(b) for b in bodies})
        for getter, sect in ((ec3.get_parameter_expr, 'parameter'), (ec3.get_storage_expr, 'storage')):
            try:
                g = getter(addr)
                o3 = ('ok', g['args'][0]) if isinstance(g, dict) and g.get('prim') == sect else ('ok', g)
            except Exception as e:   # noqa
                o3 = ('raised', type(e).__name__, str(e)[:100])
            if o3[:2] != first[:2]:
                bad('remote-' + sect, 'differs-from-local-resolve', 'the %s type of another contract (fetched through the shell) came back as %s; resolving the same expression locally: %s' % (sect, o3, first))
                break
    if ok and e2e and fam == 'script' and status == 'done':
        # the contract built from the script with references must be the contract built from the model's expansion
        # (both go through the same MichelsonProgram printer, so its normalisations cancel out)
        from pytezos.contract.interface import ContractInterface
        try:
            base = ContractInterface.from_micheline(copy.deepcopy(want)).to_micheline()
        except Exception:   # noqa
            base = None
            ctx.skip('end-to-end: the expansion is not accepted as a contract by ContractInterface')
        if base is not None:
            try:
                got = ContractInterface.from_micheline(copy.deepcopy(src), ec).to_micheline()
            except Exception as e:   # noqa
                got = ('raised', type(e).__name__, str(e)[:100])
            if got == base:
                # the other loaders of the same script with the same context: Michelson text, a file, a URL (the HTTP library is stubbed at its boundary)
                import os, requests
                from pytezos.michelson.format import micheline_to_michelson
                text = micheline_to_michelson(copy.deepcopy(src))
                path = os.path.join(ctx.wd, 'c33_script.tz')
                with open(path, 'w') as f:
                    f.write(text)

                class _Resp:
                    status_code = 200
                    encoding = 'utf-8'

                    def __init__(self, t):
                        self.text, self.content = t, t.encode()
                real_get = requests.get
                requests.get = lambda url, **kw: _Resp(text)
                try:
                    for how, load in (('from_michelson', lambda: ContractInterface.from_michelson(text, ec)), ('from_file', lambda: ContractInterface.from_file(path, ec)),
                                      ('from_url', lambda: ContractInterface.from_url('http://c33.invalid/script.tz', ec))):
                        try:
                            g2 = load().to_micheline()
                        except Exception as e:   # noqa
                            g2 = ('raised', type(e).__name__, str(e)[:100])
                        if g2 != base:
                            bad('interface-' + how, 'raises-' + g2[1] if isinstance(g2, tuple) else 'wrong-script',
                                'ContractInterface.%s(<the script as text>, context).to_micheline() gave %s\nfrom the expansion: %s' % (how, g2, base))
                            break
                finally:
                    requests.get = real_get
            if got != base:
                bad('interface', 'raises-' + got[1] if isinstance(got, tuple) else 'wrong-script',
                    'ContractInterface.from_micheline(script, context).to_micheline() gave %s\nfrom the expansion: %s' % (got, base))
    if ok and nrefs > 0 and status == 'done':
        # the registry is emptied (reset): every hash is unknown again, also the ones expanded a moment ago
        ec.reset()
        try:
            after = ('ok', ec.resolve_global_constants(copy.deepcopy(src)))
        except Exception as e:   # noqa
            after = ('raised', type(e).__name__)
        if ec.global_constants:
            ctx.skip('reset() leaves constants registered: nothing is unknown afterwards')
        elif after[0] == 'ok':
            bad('resolve', 'expands-after-reset', 'after reset() (registry %s) resolve of the expression returned %s instead of failing on the unknown hash' % (sorted(ec.global_constants), after[1:]))
    return ok


def run(ctx):
    ctx.rule = ('Leg A: pre-order cursor walk (one node per step, a reference is replaced by its registered body and re-visited) against the '
                'declarative substitution, for every script of the template universe x every registry of <= MaxReg of the constants K1..K5 '
                '(references in parameter, storage, code and data positions, under annotated nodes and nested sequences, chains K5 -> K4 -> K1/K2) '
                'and every data expression of depth <= 2; Leg B: every case replayed through register_global_constant + resolve_global_constants '
                '(twice, and once more on the result), registration order seeded; scripts also through ContractInterface.from_micheline; '
                'non-trivial = the expression contains a reference')
    ctx.assumptions = ['hash of an expression = base58check "expr" of blake2b-256 of its binary Micheline, computed without pytezos (harness/vf/c31c33_ref.py)',
                       'expansion "fails" = resolve_global_constants raises any exception',
                       'Micheline JSON omits empty args / annots; results are compared as JSON values',
                       'only well-formed references (constant with one string argument, no annotations) are in the compared domain']
    maxreg, wide = (3, False) if ctx.quick else (5, True)
    r = ctx.tlc('Constants', CFG % (maxreg, 'TRUE' if wide else 'FALSE'), timeout=1500)
    ctx.require_no_violation(r, 'Constants')
    ctx.require_coverage(r, ['Visit'])
    outs = [v for v in r.printed if v[0] == 'OUT']
    if len(outs) < 1000:
        raise Exception('only %d cases exported' % len(outs))
    outs.sort(key=lambda v: repr(v[1:4]))     # TLC prints in worker order; the replay order must not depend on it
    rng = random.Random(ctx.seed * 7919 + 33)
    stats = {'done': 0, 'failed': 0, 'nested': 0}
    sampled = set()
    for v in outs:
        _, fam, reg, script, status, cur, expansions, nrefs = v
        order = list(range(len(reg)))
        rng.shuffle(order)
        ok = compare(ctx, fam, reg, script, status, cur, expansions, nrefs, order=order, e2e=True)
        ctx.replayed += 1
        ctx.count((fam, reg, script), nontrivial=nrefs > 0)
        stats[status] += 1
        stats['nested'] += expansions > nrefs
        cls = (fam, status, expansions > nrefs)
        if ok and nrefs >= 2 and cls not in sampled:
            sampled.add(cls)
            ctx.sample({'registered': [conc(e) for e in reg], 'expression': conc(script), 'model': status,
                        'expansion': conc(cur) if status == 'done' else None}, limit=8)
    if not (stats['done'] and stats['failed'] and stats['nested']):
        raise Exception('vacuous universe: %s' % stats)
    ctx.extra['case_classes'] = stats
    ctx.exhaustive = True


def replay(ctx, rep):
    c = rep['case']
    ok = compare(ctx, c['fam'], tup(c['reg']), tup(c['script']), c['status'], tup(c['cur']), c['expansions'], c['nrefs'],
                 order=c.get('order'), e2e=c.get('e2e', False))
    for m in ctx.mismatches:
        print('REPRODUCED', m.signature, m.detail)
    return 0 if ok else 1


META = {
    'category': 'model_checking',
    'text': ('Constants.tla models Micheline trees, the registry as the set of registered expressions and the hash of an expression as an injective '
             'constructor, and walks an expression in pre-order replacing every constant reference by its registered body (re-visiting the body). '
             'TLC checks for every script / data expression of the bounded universe and every registry that the walk ends in the declarative '
             'substitution, leaves no constant node, changes nothing outside the references, and fails exactly when an unregistered hash is '
             'reachable. Every case is concretised (real expression hashes) and replayed through register_global_constant / '
             'resolve_global_constants and, for scripts, ContractInterface.from_micheline.'),
    'design_ref': 'DESIGN.md section 5 C33',
    'note': ('Trusted: concretisation of terms to Micheline JSON, own Micheline binary encoder / base58check / hashlib.blake2b for expression hashes '
             '(harness/vf/c31c33_ref.py). Bounds: constants K1..K6 with reference chains of depth <= 3, registries of <= 3 (5) constants, 64 (180) scripts '
             'x 26 (32) registries, 43 (199) data expressions x 8 registries.'),
    'technique': 'TLA+ spec + TLC exhaustive model checking; spec-result replay into ExecutionContext / ContractInterface',
}
