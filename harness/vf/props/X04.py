"""X04 (not a listed property: growth of the specification) - operation-group receipts.

OpReceipt.tla walks a receipt tree the way OperationResult.iter_contents / iter_results do (one action per
yielded item) and states what the aggregates mean; every walk TLC completes is replayed through the real
OperationResult (and, for groups of manager operations, through OperationGroup.autofill against a simulated
node), comparing every observation.  OpReceiptMempool.tla / OpReceiptConf.tla do the same for the two places of
rpc/shell.py that produce / look up receipts: mempool.pending_operations (make_operation_result) and
ShellQuery.get_confirmations."""
import copy
import json

from ..tlaparse import to_json, to_tla

MC = """---- MODULE OpReceiptMC ----
EXTENDS OpReceipt
FamiliesV == {%s}
====
"""
CFG = """SPECIFICATION Spec
CONSTANTS Families <- FamiliesV
INVARIANT WalkIsDocumentOrder
INVARIANT ResultsOnce
INVARIANT GasIsSum
INVARIANT StorageIsSum
INVARIANT AppliedIffAll
INVARIANT ErrorsInOrder
INVARIANT OrigsInOrder
INVARIANT FailureHasErrors
INVARIANT Monotone
INVARIANT OpsAreEmitted
INVARIANT Export
"""
ALLST = ['applied', 'backtracked', 'failed', 'skipped']


def family(top, int_, st, mg, gm=('m',), psd=(), al=(), no=(), ne=(), de=(1,), sr=(1,), C=2, I=1, N=9, scopes=False):
    fs = frozenset
    return to_tla({'top': fs(top), 'int': fs(int_), 'st': fs(st), 'mg': fs(mg), 'gm': fs(gm), 'psd': fs(psd), 'al': fs(al), 'no': fs(no),
                   'ne': fs(ne), 'de': fs(de), 'sr': fs(sr), 'C': C, 'I': I, 'N': N, 'scopes': scopes})


def families(quick):
    """The bounded universe: each family varies a few result fields over receipts of a given shape."""
    T, O, R, D, A = 'transaction', 'origination', 'reveal', 'delegation', 'activate_account'
    q = quick
    f = [
        # statuses and errors: every status pattern, also the ones no protocol run produces
        family([T, A], [T], ALLST, [1500], ne=[2], C=2, I=2, N=4 if q else 5),
        family([T], [T, D], ALLST, [1500], ne=[1, 2], C=1, I=2 if q else 3, scopes=True),
        # gas: rounding of milligas, per result; old receipt forms
        family([T, R], [T], ['applied'], [0, 1, 1000, 1001, 2999] if q else [0, 1, 999, 1000, 1001, 2999], C=2, I=1, N=3 if q else 4, scopes=True),
        family([T, D], [T], ['applied', 'failed'], [1, 2001] if q else [1, 1000, 2001], gm=['m', 'mg', 'g'], ne=[1], C=2, I=1, N=3 if q else 4),
        # storage: paid diff, allocations, originations
        family([T, O], [T, O], ['applied'], [1000], psd=[7], al=[2], no=[1, 2], C=2, I=1, N=3 if q else 4, scopes=True),
        family([T, O], [T, O], ['applied'], [1000], psd=[0, 7], al=[1, 2], no=[0, 1, 2], C=1, I=1 if q else 2, scopes=True),
        family([T, O], [T, O], ['applied', 'backtracked', 'failed'], [1000], psd=[7], al=[] if q else [2], no=[1], ne=[1], C=2, I=1, N=3),
        # who emitted what: from_transaction(..).operations
        family([T, O], [T], ['applied'], [1000], no=[1], de=[0, 1], sr=[1, 2], C=2, I=2, N=4 if q else 6),
    ]
    if not quick:
        f.append(family([T, R], [T], ALLST, [1500], ne=[1], C=3, I=1, N=5))
        f.append(family([T], [T], ['applied'], [1, 1000, 1001], C=3, I=2, N=6, scopes=True))
    return f


# ---------------------------------------------------------------- receipts as JSON
ADDR = {0: 'tz1grSQDByRpnVs7sPtaprNZRp531ZKz6Jmm', 1: 'KT1PWx2mnDueood7fEmfbBDKx1D9BAnnXitn', 2: 'KT1BEqzn5Wx8uJrZNvuS9DVHmLvG9td3fDLi'}
SCRIPT_CODE = [{'prim': 'parameter', 'args': [{'prim': 'unit'}]}, {'prim': 'storage', 'args': [{'prim': 'int'}]},
               {'prim': 'code', 'args': [[{'prim': 'CDR'}, {'prim': 'NIL', 'args': [{'prim': 'operation'}]}, {'prim': 'PAIR'}]]}]


def err_json(n):
    return {'kind': 'temporary', 'id': 'proto.024-PtTALLiN.verif.err%d' % n, 'n': n}


def kt_name(n):
    return 'KT1verif%d' % n


def result_json(r, ident, kind):
    st, mg, gm, ps, al, no, ne = r
    d = {'status': st}
    if st in ('applied', 'backtracked'):
        d['balance_updates'] = []
        if kind == 'transaction':
            d['storage'] = {'int': str(ident)}
    if gm in ('mg', 'g'):
        d['consumed_gas'] = str(-(-mg // 1000))
    if gm in ('m', 'mg'):
        d['consumed_milligas'] = str(mg)
    if ps >= 0:
        d['paid_storage_size_diff'] = str(ps)
    if al:
        d['allocated_destination_contract'] = al == 2
    if no >= 0:
        d['originated_contracts'] = [kt_name(10 * ident + k) for k in range(1, no + 1)]
    if ne >= 0:
        d['errors'] = [err_json(10 * ident + k) for k in range(1, ne + 1)]
    return d


def body_json(kind, ident, dest):
    if kind == 'transaction':
        b = {'amount': '1', 'destination': ADDR[dest]}
        if ident % 20 >= 10:
            b['parameters'] = {'entrypoint': 'default', 'value': {'int': str(ident)}}
        return b
    if kind == 'origination':
        return {'balance': '0', 'script': {'code': SCRIPT_CODE, 'storage': {'int': str(ident)}}}
    if kind == 'reveal':
        return {'public_key': 'edpkuBknW28nW72KG6RoHtYW7p12T6GKc7nAbwYX5m8Wd9sDVC9yav'}
    if kind == 'activate_account':
        return {'pkh': 'tz1grSQDByRpnVs7sPtaprNZRp531ZKz6Jmm', 'secret': '%040x' % ident}
    return {}


def receipt_json(rc):
    """-> (group json, {id(result dict): ident}, {ident: node json})"""
    resid, nodes, contents = {}, {}, []
    for i, (kind, form, dest, res, ins) in enumerate(rc, 1):
        c = {'kind': kind}
        if kind != 'activate_account':
            c.update(source=ADDR[0], fee='0', counter=str(i), gas_limit='0', storage_limit='0')
        c.update(body_json(kind, 10 * i, dest))
        if form != 'nometa':
            md = {'balance_updates': []}
            if form == 'meta':
                md['operation_result'] = result_json(res, 10 * i, kind)
                resid[id(md['operation_result'])] = 10 * i
                if ins or i % 2 == 0:       # both forms of "no internal operations" occur in node answers
                    md['internal_operation_results'] = []
                for j, (k2, src, r2) in enumerate(ins, 1):
                    n = {'kind': k2, 'source': ADDR[src], 'nonce': 10 * i + j}
                    n.update(body_json(k2, 10 * i + j, 2 if src == 1 else 1))
                    n['result'] = result_json(r2, 10 * i + j, k2)
                    resid[id(n['result'])] = 10 * i + j
                    nodes[10 * i + j] = n
                    md['internal_operation_results'].append(n)
            c['metadata'] = md
        nodes[10 * i] = c
        contents.append(c)
    return {'branch': 'BLockGenesisGenesisGenesisGenesisGenesisf79b5d1CoW2', 'contents': contents,
            'signature': 'sigUHx32f9wesZ1n2BWpixXz4AQaZggEtchaQNHYGRCoWNAXx45WGW2ua3apUUUAGMLPwAU41QoaFCzVSL61VaessLg4YbbP'}, resid, nodes


def ident_of(x):
    return int(x['nonce']) if 'nonce' in x else 10 * int(x.get('counter', 0)) if 'counter' in x else None


# ---------------------------------------------------------------- Leg B: OperationResult
def observe(rc, scope):
    """Everything OperationResult says about the receipt (scope 0) or about one content of it."""
    from pytezos.operation.result import OperationResult as OR
    group, resid, nodes = receipt_json(rc)
    # contents without a counter (non-manager kinds) are identified by position
    pos = {id(c): 10 * i for i, c in enumerate(group['contents'], 1)}
    arg = group if scope == 0 else group['contents'][scope - 1]
    before = copy.deepcopy(arg)
    obs = {}

    def nid(x):
        if 'nonce' in x:
            return int(x['nonce'])
        if 'counter' in x:
            return 10 * int(x['counter'])
        for c in group['contents']:
            if {k: v for k, v in x.items() if k != 'internal'} == c:
                return pos[id(c)]
        return -1
    ys = list(OR.iter_contents(arg))
    obs['yielded'] = [(bool(y.get('internal')), nid(y)) for y in ys]
    obs['yield_keeps_fields'] = all({k: v for k, v in y.items() if k != 'internal'} == nodes.get(nid(y)) for y in ys)
    obs['seen'] = [resid.get(id(r), -1) for r in OR.iter_results(arg)]
    obs['gas'] = OR.consumed_gas(arg)
    obs['psd'] = OR.paid_storage_size_diff(arg)
    obs['burn'] = OR.burned(arg)
    obs['applied'] = OR.is_applied(arg)
    e1 = OR.errors(arg)
    e2 = OR.errors(arg)
    obs['errs'] = [e.get('n', -1) for e in e1]
    obs['errs_stable'] = e1 == e2
    obs['origs'] = [int(k[8:]) for k in OR.originated_contracts(arg)]
    # get_result of every yielded item
    gr = []
    for y in ys:
        try:
            r = OR.get_result(y)
            gr.append(resid.get(id(r), -1))
        except Exception:   # noqa: any refusal; the kind of exception is not compared
            gr.append(0)
    obs['get_result'] = gr
    # get_contents with predicates
    kinds = sorted({n['kind'] for n in nodes.values()} | {'delegation'})
    obs['by_kind'] = {k: [nid(x) for x in OR.get_contents(arg, kind=k)] for k in kinds}
    obs['internal_only'] = [nid(x) for x in OR.get_contents(arg, internal=True)]
    if scope == 0:
        obs['contents_plain'] = OR.get_contents(arg) is group['contents'] or OR.get_contents(arg) == group['contents']
    obs['input_untouched'] = arg == before
    return obs, group, nodes


def expected(rc, scope, m):
    """The same observations according to the model's completed walk `m`."""
    yielded, seen = [tuple(y) for y in m['yielded']], list(m['seen'])
    kind = {}
    for i, c in enumerate(rc, 1):
        kind[10 * i] = c[0]
        for j, n in enumerate(c[4], 1):
            kind[10 * i + j] = n[0]
    exp = {'yielded': yielded, 'yield_keeps_fields': True, 'seen': seen, 'gas': m['gas'], 'psd': m['psd'], 'burn': m['burn'],
           'applied': m['applied'], 'errs': list(m['errs']), 'errs_stable': True, 'origs': list(m['origs']),
           'get_result': [n if n in seen else 0 for _, n in yielded],
           'by_kind': {k: [n for _, n in yielded if kind[n] == k] for k in sorted(set(kind.values()) | {'delegation'})},
           'internal_only': [n for fl, n in yielded if fl], 'input_untouched': True}
    if scope == 0:
        exp['contents_plain'] = True
    return exp


def from_group(rc, m, group, ops):
    """OperationResult.from_operation_group on the whole group -> (observed, expected)."""
    from pytezos.operation.result import OperationResult as OR
    from pytezos.rpc.node import RpcError
    errs = list(m['errs'])
    try:
        out = OR.from_operation_group(group)
    except RpcError as e:
        a = e.args[0] if e.args else None
        got = ('raised', a.get('n') if isinstance(a, dict) else None)
        want = ('raised', got[1] if (got[1] in errs or (not errs and got[1] is None)) else 'one of %s' % errs) if not m['applied'] else ('returned',)
        return got, want
    except Exception as e:   # noqa
        return ('crashed', type(e).__name__), ('raised' if not m['applied'] else 'returned',)
    got, want = ['returned'], ['returned']
    if not m['applied']:
        return ('returned',), ('raised',)
    for i, (c, o) in enumerate(zip(rc, out), 1):
        cj = group['contents'][i - 1]
        if c[0] == 'transaction' and c[1] == 'meta':
            got.append(('tx', getattr(o, 'parameters', 'missing'), getattr(o, 'storage', 'missing'), getattr(o, 'lazy_diff', 'missing'),
                        [ident_of(x) for x in getattr(o, 'operations', [{'nonce': -1}])]))
            want.append(('tx', cj.get('parameters'), {'int': str(10 * i)}, [], list(ops[i - 1])))
        elif c[0] == 'origination' and c[1] == 'meta':
            got.append(('orig', getattr(o, 'storage', 'missing'), getattr(o, 'originated_contracts', 'missing')))
            want.append(('orig', {'int': str(10 * i)}, [kt_name(100 * i + k) for k in range(1, c[3][5] + 1)]))
        else:
            got.append(('content', o == cj))
            want.append(('content', True))
    if len(out) != len(rc):
        got.append(('length', len(out)))
    return tuple(got), tuple(want)


# ---------------------------------------------------------------- Leg B: OperationGroup.autofill over a simulated node
_client = {}


def autofill_observe(rc):
    """Build the group of the receipt's kinds with the real client, let the simulated node answer run_operation with
    the receipt, and return what autofill made of it."""
    from .. import opclient
    from ..fakenode import FakeNode, _resp
    from pytezos.rpc.node import RpcError
    from pytezos import pytezos
    from pytezos.rpc import ShellQuery

    if 'cls' not in _client:
        class ReceiptNode(FakeNode):
            receipt = None

            def _simulate(self, body):
                self.simulations.append(body)
                contents = []
                g, _, _ = receipt_json(self.receipt)
                for k, c in enumerate(body['operation']['contents']):
                    c = dict(c)
                    c['metadata'] = g['contents'][k]['metadata']
                    contents.append(c)
                return _resp(200, {'contents': contents, 'signature': body['operation'].get('signature')})
        _client['cls'] = ReceiptNode
        _client['key'] = opclient.make_key('tz1')
    key = _client['key']
    node = _client['cls'](key.public_key_hash(), chain_ctr=10)
    node.receipt = rc
    g = pytezos.using(shell=ShellQuery(node), key=key)
    for j, c in enumerate(rc):
        kind = c[0]
        if kind == 'transaction' and c[2] == 0:
            g = g.transaction(destination=key.public_key_hash(), amount=1 + j)
        else:
            g = opclient.add_content(g, 'transaction_kt' if kind == 'transaction' else kind, j)
    try:
        out = g.autofill()
    except RpcError as e:
        a = e.args[0] if e.args else None
        return ('raised', a.get('n') if isinstance(a, dict) else None)
    if node.unknown:
        raise Exception('simulated node did not understand %s' % node.unknown)
    return ('filled', [(c['kind'], int(c['gas_limit']), int(c['storage_limit']), 'metadata' in c) for c in out.contents])


def autofill_expected(rc, walks, intended=False):
    g = walks[0]
    if not g['applied']:
        return ('raised', list(g['errs']))
    out = []
    for i, c in enumerate(rc, 1):
        w = walks[i]
        reserve = 100 if c[0] in ('transaction', 'origination') else 0      # documented defaults gas_reserve / burn_reserve
        gas, burn = (w['intended_gas'], w['intended_burn']) if intended else (w['gas'], w['burn'])
        out.append((c[0], gas + reserve, w['psd'] + burn + reserve, False))
    return ('filled', out)


# ---------------------------------------------------------------- driver
def parse_out(v):
    _, rc, scope, yielded, seen, acc, errs, origs, intended, ops, iops = v
    return rc, scope, {'yielded': yielded, 'seen': seen, 'gas': acc[0], 'psd': acc[1], 'burn': acc[2], 'applied': acc[3],
                       'errs': errs, 'origs': origs, 'intended_gas': intended[0], 'intended_burn': intended[1],
                       'all_applied': intended[2], 'ops': ops, 'iops': iops}


D1 = 'D1 consumed_gas ignores a result that carries consumed_gas without consumed_milligas (receipts of protocols <= 007)'
D2 = 'D2 storage aggregates / originated_contracts include the results of a group that was not applied (reverted effects)'
D3 = 'D3 burned counts 257 once per result, not once per originated contract (no current protocol lists two in one result)'
D4 = 'D4 from_transaction(..).operations of a transfer to oneself contains the transfer itself'


def check_case(ctx, rc, scope, m, dev):
    """One completed walk of the model against OperationResult.  For a named deviation the model carries two answers, the
    one of the code as it stands and the intended one; either is accepted (so that repairing the deviation never alarms)
    and which one was seen is counted."""
    obs, group, nodes = observe(rc, scope)
    exp = expected(rc, scope, m)
    alt = {}
    if m['gas'] != m['intended_gas']:
        alt['gas'] = (m['intended_gas'], D1)
    if m['burn'] != m['intended_burn']:
        alt['burn'] = (m['intended_burn'], D3)
    ok = True
    for k in exp:
        if obs[k] == exp[k]:
            if k in alt:
                dev[alt[k][1]] += 1
            continue
        if k in alt and obs[k] == alt[k][0]:
            dev['(no longer present) ' + alt[k][1]] += 1
            continue
        if k in ('psd', 'burn', 'origs') and not m['all_applied']:
            # D2: what these mean for a group whose effects were reverted is not demanded; only the answer of the code as it stands is known
            ctx.skip('storage aggregate of a group that was not applied differs from the code as modelled (not demanded)')
            continue
        ok = False
        ctx.mismatch('X04:%s:%s' % (k, classify(k, obs[k], exp[k])),
                     'receipt %s scope %d: OperationResult %s = %s, model %s' % (to_json(rc), scope, k, obs[k], exp[k]),
                     {'rc': to_json(rc), 'scope': scope, 'model': to_json(m)})
    if not m['all_applied'] and (m['psd'] or m['burn'] or m['origs']) and (obs['psd'], obs['burn'], obs['origs']) == (exp['psd'], exp['burn'], exp['origs']):
        dev[D2] += 1
    if scope == 0 and any(c[0] in ('transaction', 'origination') and c[1] != 'meta' for c in rc) and m['applied']:
        ctx.skip('from_operation_group of a group with a transaction/origination that was not run (misuse)')
    elif scope == 0:
        got, want = from_group(rc, m, group, m['ops'])
        if got != want and m['ops'] != m['iops']:
            got2, want2 = from_group(rc, m, group, m['iops'])
            if got2 == want2:
                dev['(no longer present) ' + D4] += 1
                got, want = got2, want2
        elif m['ops'] != m['iops'] and m['applied']:
            dev[D4] += 1
        if got != want:
            ok = False
            ctx.mismatch('X04:from_operation_group:%s-for-%s' % (got[0], want[0]) if got[0] != want[0] else 'X04:from_operation_group:%s' % diff_class(got, want),
                         'receipt %s: from_operation_group gave %s, model %s' % (to_json(rc), got, want), {'rc': to_json(rc), 'scope': 0, 'model': to_json(m)})
    return ok


def classify(k, got, want):
    if isinstance(want, bool) or isinstance(want, dict):
        return 'differs'
    if isinstance(want, int):
        return 'less' if got < want else 'more'
    if sorted(got) == sorted(want):
        return 'order'
    if len(got) < len(want):
        return 'missing'
    if len(got) > len(want):
        return 'extra'
    return 'differs'


def diff_class(got, want):
    for g, w in zip(got, want):
        if g != w:
            if isinstance(g, tuple) and isinstance(w, tuple) and g[0] == w[0]:
                for n, (a, b) in enumerate(zip(g, w)):
                    if a != b:
                        return '%s-field%d' % (g[0], n)
            return 'item'
    return 'length'


def run(ctx):
    from .. import boundary
    boundary.install()
    import collections
    dev = collections.Counter()
    ctx.rule = ('receipt trees of <= 3 contents with <= 4 internal operations each, in families that vary statuses/errors, milligas and receipt '
                'forms, storage/allocations/originations, emitters; every completed walk (whole group and each single content) is replayed through '
                'every OperationResult helper; groups of manager operations also through OperationGroup.autofill on a simulated node')
    ctx.assumptions = ['error and contract identifiers are numbered by document position; the JSON around the modelled fields is fixed',
                       'get_result: only "returns the result / refuses" is compared, not the exception class',
                       'from_operation_group: the raised error must be one of the receipt\'s errors (which one is RpcError.from_errors\' business, C27)',
                       'autofill: only gas_limit / storage_limit / refusal are compared (fees are C25\'s business)']
    auto_budget = 600 if ctx.quick else 12000
    auto_done = 0
    fams = families(ctx.quick)
    r = ctx.tlc('OpReceiptMC', CFG, name='OpReceiptMC', coverage=False, timeout=3000, gen={'OpReceiptMC': MC % ',\n  '.join(fams)})
    ctx.require_no_violation(r, 'OpReceipt')
    outs = [v for v in r.printed if v[0] == 'OUT']
    if not outs:
        raise Exception('no completed walk exported')
    walks = {}
    for v in outs:
        rc, scope, m = parse_out(v)
        walks.setdefault(rc, {})[scope] = m
    if sum(len(w) for w in walks.values()) != len(outs):
        raise Exception('a walk was exported twice')
    step = max(1, sum(1 for rc, ws in walks.items() if len(ws) == len(rc) + 1 and all(c[1] == 'meta' for c in rc)) // auto_budget)
    nauto = 0
    for rc in sorted(walks, key=repr):
        ws = walks[rc]
        ok = True
        for scope in sorted(ws):
            ok = check_case(ctx, rc, scope, ws[scope], dev) and ok
            ctx.replayed += 1
            ctx.count((rc, scope), nontrivial=len(ws[scope]['yielded']) > 1)
        if ok and len(rc) == 2 and len(rc[0][4]) >= 1 and not ws[0]['applied'] and ws[0]['errs']:
            ctx.sample({'receipt': rc, 'model': {k: ws[0][k] for k in ('yielded', 'seen', 'gas', 'psd', 'burn', 'applied', 'errs', 'origs')}}, limit=3)
        # autofill path: groups of manager operations that were run, for which every single content was walked too
        if len(ws) == len(rc) + 1 and all(c[1] == 'meta' for c in rc):
            nauto += 1
            if nauto % step:
                continue
            auto_done += 1
            got = autofill_observe(rc)
            want = autofill_expected(rc, ws)
            if want[0] == 'raised':
                good = got[0] == 'raised' and (got[1] in want[1] or (not want[1] and got[1] is None))
            else:
                good = got == want or got == autofill_expected(rc, ws, intended=True)
            ctx.count(('autofill', rc), nontrivial=True)
            if not good:
                cls = 'status' if got[0] != want[0] else 'error' if got[0] == 'raised' else limits_class(got[1], want[1])
                ctx.mismatch('X04:autofill:%s' % cls, 'receipt %s: autofill gave %s, model %s' % (to_json(rc), got, want), {'rc': to_json(rc), 'auto': True})
    ctx.extra['autofill_replayed'] = auto_done
    ctx.extra['receipts'] = len(walks)
    for k, n in sorted(dev.items()):
        print('INFO X04 deviation modelled as coded: %s [%d walks]' % (k, n))
        ctx.notes.append('%s [%d walks]' % (k, n))
    from .. import x04_shell as X04b
    X04b.run_mempool(ctx)
    X04b.run_confirmations(ctx)
    ctx.exhaustive = True


def limits_class(got, want):
    for g, w in zip(got, want):
        if g != w:
            return 'gas_limit' if g[1] != w[1] else 'storage_limit' if g[2] != w[2] else 'content'
    return 'length'


def hash_of(rc):
    import hashlib
    return int.from_bytes(hashlib.blake2b(repr(rc).encode(), digest_size=4).digest(), 'big')


def replay(ctx, rep):
    from .. import boundary
    boundary.install()
    import collections
    c = rep['case']
    if 'model' not in c:
        print('replay of this case class is not supported (run ./check X04 quick)')
        return 0

    def tup(x):
        return tuple(tup(y) for y in x) if isinstance(x, list) else x
    rc = tup(c['rc'])
    m = {k: (tup(v) if isinstance(v, list) else v) for k, v in c['model'].items()}
    ok = check_case(ctx, rc, c['scope'], m, collections.Counter())
    for mm in ctx.mismatches:
        print('REPRODUCED', mm.signature, mm.detail)
    return 0 if ok else 1


META = {'category': 'model_checking', 'text': 'growth of the specification: OpReceipt.tla (operation-group receipts and their aggregates)',
        'design_ref': 'DESIGN.md 11.7', 'note': 'not a listed property', 'technique': 'TLA+ + TLC + replay'}
