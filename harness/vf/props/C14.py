"""C14 - sets and maps behave like sorted dictionaries under any update history.  Specs: Coll.tla, MichSem.tla, VM.tla."""
import itertools

from .. import terms, vmfam, vmreplay
from ..tlaparse import to_json, to_tla
from ..vmfam import *   # noqa
from . import C01

KEY = lambda tag, n, first, fill: ('o', (tag, first) + (fill,) * (n - 1))

MC = """---- MODULE CollMC ----
EXTENDS Coll
KeyTypesV == %s
KeysOfV(ty) == %s
ValsV == %s
====
"""
CFG = """SPECIFICATION Spec
CONSTANTS KeyTypes <- KeyTypesV
 KeysOf <- KeysOfV
 Vals <- ValsV
 MaxOps = %d
 MaxLit = 3
INVARIANT Sorted
INVARIANT Agrees
INVARIANT ObsOK
INVARIANT EmitLiteral
"""


def key_pools():
    return {
        INT: [i(-1), i(0), i(2)],
        STR: [s('a'), s('B'), s('ab')],
        P(INT, STR): [p(i(1), s('b')), p(i(2), s('a')), p(i(1), s('a'))],
        OR(INT, STR): [right(s('b')), left(i(2)), right(s('a')), left(i(1))],
        OPT(INT): [some(i(1)), none, some(i(-1))],
        ADDR: [addr(4, 1), addr(0, 200), addr(6, 3)],
        # public keys order by curve first (ed25519 < secp256k1 < P-256 < BLS), whatever their bytes are (seeded C14_13: BLS ranked with P-256)
        ('key',): [KEY(3, 48, 5, 5), KEY(2, 33, 3, 200), KEY(0, 32, 255, 1)],
    }


def literal_accepted(t, coll_t, lit, kind, vals=None):
    """Does pytezos accept PUSH (set t | map t unit) literal?  vals: for maps, nat values by position instead of Unit (the value type becomes nat)"""
    from pytezos.michelson.instructions.base import MichelsonInstruction
    from pytezos.michelson.micheline import MichelsonRuntimeError
    from pytezos.michelson.stack import MichelsonStack
    from pytezos.context.impl import ExecutionContext
    if kind == 'set':
        val = [terms.value_json(t, k) for k in lit]
    elif vals is not None:
        val = [{'prim': 'Elt', 'args': [terms.value_json(t, k), {'int': str(x)}]} for k, x in zip(lit, vals)]
        coll_t = (coll_t[0], coll_t[1], ('nat',))
    else:
        val = [{'prim': 'Elt', 'args': [terms.value_json(t, k), {'prim': 'Unit'}]} for k in lit]
    ins = {'prim': 'PUSH', 'args': [terms.type_json(coll_t), val]}
    st = MichelsonStack()
    if coll_t[0] == 'big_map':      # not pushable: literals arrive as storage / parameter values
        from pytezos.michelson.types.base import MichelsonType
        try:
            MichelsonType.match(terms.type_json(coll_t)).from_micheline_value(val)
            return True
        except Exception:
            return False
    try:
        MichelsonInstruction.match(ins).execute(st, [], ExecutionContext())
        return True
    except (MichelsonRuntimeError, AssertionError, Exception):
        return False


def run(ctx):
    ctx.rule = ('key types int, string, pair int string, or int string, option int, address, key (BLS, P-256, ed25519) with 3 keys each, 2 values. Leg A: Coll.tla runs the reference sorted-sequence '
                'operations against a plain TLA+ dictionary under every history up to the bound (Sorted, Agrees, ObsOK); literals of <=3 keys accepted iff strictly sorted. '
                'Leg B: the same histories as VM programs (UPDATE / MEM / GET / GET_AND_UPDATE / SIZE / ITER / MAP on set t, map t string) are replayed in pytezos and the whole '
                'collection and every observation compared after every step; every literal is pushed in pytezos and must be accepted iff the model accepts it')
    ctx.assumptions = ['big_map is covered by C15', 'projection/concretisation in terms.py']
    pools = key_pools()
    vals = [s(''), s('w')]       # the empty string is a falsy Python value: bound-to-empty must still count as bound
    gen = {'CollMC': MC % (to_tla(set(pools)), 'CASE ' + '\n   [] '.join('ty = %s -> %s' % (to_tla(t), to_tla(set(v))) for t, v in pools.items()), to_tla(set(vals)))}
    r = ctx.tlc('CollMC', CFG % (6 if ctx.quick else 8), gen=gen, timeout=1500, coverage=True)
    ctx.require_no_violation(r, 'Coll')
    ctx.require_coverage(r, ['DoSetUpdate', 'DoSetMember', 'DoMapUpdate', 'DoMapLookup', 'DoMapGetAndUpdate'])
    # literals
    for v in [v for v in r.printed if v[0] == 'OUT']:
        _, t, lit, ok = v
        for kind, ct, pat in (('set', SET(t), None), ('map', MAP(t, UNIT), None), ('map', MAP(t, UNIT), list(range(len(lit)))), ('map', MAP(t, UNIT), list(range(len(lit), 0, -1)))):
            if pat is not None and len(lit) < 2:
                continue
            got = literal_accepted(t, ct, lit, kind, pat)
            if pat is not None:       # acceptance is a matter of the keys alone, whatever the bound values are (ascending / descending)
                kind = 'map-values-%s' % ('ascending' if pat[0] < pat[-1] else 'descending')
            ctx.replayed += 1
            ctx.count(('lit', kind, t, lit), nontrivial=len(lit) >= 2)
            if got != ok:
                cls = 'unsorted-or-duplicate-literal-accepted' if got else 'sorted-literal-rejected'
                ctx.mismatch('C14:literal:%s:%s' % (kind, cls), '%s literal %s of key type %s: model %s, pytezos %s' % (kind, to_json(lit), to_json(t), 'accepts' if ok else 'rejects', 'accepts' if got else 'rejects'),
                             {'literal': to_json(lit), 'type': to_json(t), 'kind': kind, 'ok': ok})
    # histories through the instructions
    fams = {}
    depth = 3 if ctx.quick else 4
    for idx, (t, ks) in enumerate(pools.items()):
        ops = []
        if ctx.quick and idx in (1, 4):      # (string and option int are thorough-only)
            continue
        for k in ks:
            ops += [('SEQ', (PUSH(BOOL, T_), PUSH(t, k), ('UPDATEK',))), ('SEQ', (PUSH(BOOL, F_), PUSH(t, k), ('UPDATEK',))),
                    ('SEQ', (DUP(1), PUSH(t, k), ('MEM',), ('SWAP',)))]
        ops += [('SEQ', (DUP(1), ('SIZE',), ('SWAP',))), ('SEQ', (DUP(1), ('NIL', t), ('SWAP',), ('ITER', (('CONS',),)), ('SWAP',)))]
        # a copy is a value of its own: DUP, update the copy, keep both (the original stays on top and the history goes on with it)
        ops += [('SEQ', (DUP(1), PUSH(BOOL, T_), PUSH(t, ks[-1]), ('UPDATEK',), ('SWAP',))), ('SEQ', (DUP(1), PUSH(BOOL, F_), PUSH(t, ks[0]), ('UPDATEK',), ('SWAP',)))]
        fams['set%d' % idx] = dict(depth=depth, maxstack=3, inits=[(S(SET(t), ('set', ())),)], alphabet=ops)
        mops = []
        for k in (ks[:2] if ctx.quick else ks):
            mops += [('SEQ', (PUSH(OPT(STR), some(vals[0])), PUSH(t, k), ('UPDATEK',))), ('SEQ', (PUSH(OPT(STR), none), PUSH(t, k), ('UPDATEK',))),
                     ('SEQ', (DUP(1), PUSH(t, k), ('GETK',), ('SWAP',))), ('SEQ', (DUP(1), PUSH(t, k), ('MEM',), ('SWAP',))),
                     ('SEQ', (PUSH(OPT(STR), some(vals[1])), PUSH(t, k), ('GET_AND_UPDATE',), ('SWAP',)))]
        mops += [('SEQ', (DUP(1), PUSH(OPT(STR), some(vals[1])), PUSH(t, ks[1]), ('UPDATEK',), ('SWAP',))), ('SEQ', (DUP(1), PUSH(OPT(STR), none), PUSH(t, ks[0]), ('UPDATEK',), ('SWAP',)))]
        mops += [('SEQ', (DUP(1), ('SIZE',), ('SWAP',))), ('MAP', (('CDR',), ('SIZE',))), ('MAP', (('CAR',),)),
                 ('SEQ', (DUP(1), ('NIL', P(t, STR)), ('SWAP',), ('ITER', (('CONS',),)), ('SWAP',)))]
        fams['map%d' % idx] = dict(depth=depth, maxstack=3, inits=[(S(MAP(t, STR), ('map', ())),)], alphabet=mops)
    for name in ('bigmap', 'bigset'):        # 9 / 17 / 20 entries: beyond any size threshold an implementation may switch algorithms at
        fams[name] = dict(vmfam.FAMILIES[name], depth=2)
    C01.run_families(ctx, 'C14', 'coll', fams)
    ctx.exhaustive = True


def replay(ctx, rep):
    c = rep['case']
    if 'literal' in c:
        tup = lambda x: tuple(tup(y) for y in x) if isinstance(x, list) else x
        t, lit = tup(c['type']), tup(c['literal'])
        n = len(lit)
        vals = {'map-values-ascending': list(range(n)), 'map-values-descending': list(range(n, 0, -1))}.get(c['kind'])
        got = literal_accepted(t, SET(t) if c['kind'] == 'set' else MAP(t, UNIT), lit, 'set' if c['kind'] == 'set' else 'map', vals)
        print('pytezos accepts' if got else 'pytezos rejects', 'model', c['ok'])
        return 0 if got == c['ok'] else 1
    return C01.replay(ctx, rep)


META = {
    'category': 'model_checking',
    'text': ('Coll.tla runs the reference sorted-sequence implementation of sets and maps against a plain TLA+ dictionary under every history of UPDATE / MEM / GET / '
             'GET_AND_UPDATE up to the bound for six key types incl. composite ones (invariants Sorted, Agrees, ObsOK) and defines literal acceptance; the same histories, '
             'as well-typed programs of VM.tla (adding SIZE, ITER and MAP), are replayed in pytezos with the whole collection and every observation compared after each '
             'step; every literal of up to 3 keys is pushed in pytezos and must be accepted exactly when strictly sorted.'),
    'design_ref': 'DESIGN.md section 5 C14, A.2',
    'note': 'Trusted: MichSem order (checked by C03), terms.py. Bounds: 3 keys and 2 values per key type, histories of 4 (5) dictionary operations in Coll.tla, 3 (4) compound steps in the replayed programs; plus maps and sets of 9 / 17 / 20 / 40 integer keys with 2 steps (lookups and updates below, inside and above the key range).',
    'technique': 'TLA+ sorted-collection model vs reference dictionary, TLC exhaustive over histories; replay of histories and literals into pytezos',
}
