"""C16 - arithmetic and numeric conversions are exact.  Specs: MichArith.tla over BigInt.tla."""
import json, random

from .. import vmreplay
from ..tlaparse import to_json, to_tla

MC = """---- MODULE MichArithMC ----
EXTENDS MichArith
CasesV == %s
ValsOfV(ty) == %s
====
"""
LAWS = ['LawAddSub', 'LawMul', 'LawEDiv', 'LawEDivZero', 'LawMutez', 'LawSubMutez', 'LawShift', 'LawBytesRoundTrip', 'LawBytesMinimal', 'LawNot',
        'LawAbsNeg', 'LawBitwiseNat', 'LawShiftNat', 'Emit']
CFG = "SPECIFICATION Spec\nCONSTANTS Cases <- CasesV\n ValsOf <- ValsOfV\n" + ''.join('INVARIANT %s\n' % l for l in LAWS)

NUM = ['int', 'nat']
CASES = ([('ADD', x, y) for x in NUM for y in NUM] + [('ADD', 'timestamp', 'int'), ('ADD', 'int', 'timestamp'), ('ADD', 'mutez', 'mutez')]
         + [('SUB', x, y) for x in NUM for y in NUM] + [('SUB', 'timestamp', 'int'), ('SUB', 'timestamp', 'timestamp'), ('SUB_MUTEZ', 'mutez', 'mutez')]
         + [('MUL', x, y) for x in NUM for y in NUM] + [('MUL', 'mutez', 'nat'), ('MUL', 'nat', 'mutez')]
         + [('EDIV', x, y) for x in NUM for y in NUM] + [('EDIV', 'mutez', 'nat'), ('EDIV', 'mutez', 'mutez')]
         + [('ABS', 'int', '-'), ('NEG', 'int', '-'), ('NEG', 'nat', '-'), ('ISNAT', 'int', '-'), ('INT', 'nat', '-'), ('INT', 'bytes', '-'), ('NAT', 'bytes', '-'),
            ('BYTES', 'int', '-'), ('BYTES', 'nat', '-'), ('NOT', 'int', '-'), ('NOT', 'nat', '-'), ('NOT', 'bytes', '-')]
         + [('LSL', 'nat', 'shift'), ('LSR', 'nat', 'shift'), ('LSL', 'bytes', 'shift'), ('LSR', 'bytes', 'shift')]
         + [('AND', 'nat', 'nat'), ('AND', 'int', 'nat'), ('OR', 'nat', 'nat'), ('XOR', 'nat', 'nat'), ('AND', 'bytes', 'bytes'), ('OR', 'bytes', 'bytes'), ('XOR', 'bytes', 'bytes')])


def limb(n):
    m, x = [], abs(n)
    while x:
        m.append(x % 256)
        x //= 256
    return (n < 0, tuple(m))


def unlimb(v):
    n = 0
    for d in reversed(v[1]):
        n = n * 256 + d
    return -n if v[0] else n


def pools(ctx):
    mags = [0, 1, 127, 128, 255, 256, 32767, 32768, 2 ** 63 - 1, 2 ** 63, 2 ** 64, 2 ** 255, 2 ** 256, 2 ** 256 + 1]
    rng = random.Random(ctx.seed * 101 + 16)
    if not ctx.quick:
        mags += [65535, 65536, 2 ** 31, 2 ** 32 - 1, 2 ** 127, 2 ** 128 - 1] + [rng.getrandbits(rng.choice([9, 17, 70, 130, 300])) for _ in range(4)]
    else:
        mags = mags[:8] + mags[8:11] + [2 ** 256] + [rng.getrandbits(70)]
    ints = sorted(set(mags) | {-m for m in mags})
    nats = sorted(set(mags))
    mutez = [m for m in nats if m < 2 ** 63] + [2 ** 62, 2 ** 62 + 1, 3037000500]
    byts = [(), (0,), (0, 1), (255,), (128,), (127, 255), (1, 0, 0), (255, 255), (0, 128), (255, 127), (129, 2, 3)]
    shifts = [0, 1, 7, 8, 9, 255, 256, 257]
    return {'int': [limb(x) for x in ints], 'nat': [limb(x) for x in nats], 'timestamp': [limb(x) for x in ints], 'mutez': [limb(x) for x in sorted(set(mutez))],
            'bytes': [('b', x) for x in byts], 'shift': [limb(x) for x in shifts]}


def to_py(v):
    """model value -> canonical python"""
    if isinstance(v, tuple) and len(v) == 2 and isinstance(v[0], bool):
        return unlimb(v)
    if v[0] == 'b':
        return bytes(v[1])
    if v[0] == 'none':
        return None
    if v[0] == 'some':
        return ('some', to_py(v[1]))
    if v[0] == 'p':
        return (to_py(v[1]), to_py(v[2]))
    raise ValueError(v)


def micheline_to_py(tj, vj):
    p = tj['prim']
    if p in ('int', 'nat', 'mutez'):
        return int(vj['int'])
    if p == 'timestamp':
        from ..terms import ts_value
        return int(vj['int']) if 'int' in vj else ts_value(vj['string'])
    if p == 'bytes':
        return bytes.fromhex(vj['bytes'])
    if p == 'option':
        return None if vj['prim'] == 'None' else ('some', micheline_to_py(tj['args'][0], vj['args'][0]))
    if p == 'pair':
        return (micheline_to_py(tj['args'][0], vj['args'][0]), micheline_to_py(tj['args'][1], vj['args'][1]))
    raise ValueError(p)


def type_text(tj):
    if 'args' in tj:
        return '%s %s' % (tj['prim'], ' '.join(type_text(a) if 'args' not in a else '(' + type_text(a) + ')' for a in tj['args']))
    return tj['prim']


def item(t, v):
    from pytezos.michelson.types.base import MichelsonType
    t = 'nat' if t == 'shift' else t
    ty = MichelsonType.match({'prim': t})
    if t == 'bytes':
        return ty.from_micheline_value({'bytes': bytes(v[1]).hex()})
    return ty.from_micheline_value({'int': str(unlimb(v))})


def run_impl(op, ta, a, tb, b):
    from pytezos.context.impl import ExecutionContext
    from pytezos.michelson.instructions.base import MichelsonInstruction
    from pytezos.michelson.micheline import MichelsonRuntimeError
    from pytezos.michelson.stack import MichelsonStack
    try:
        items = [item(ta, a)] + ([item(tb, b)] if tb != '-' else [])
    except Exception as e:   # noqa: every operand of the pools is a legal value of its type
        return ('operand-rejected', '%s: %s' % (type(e).__name__, ' / '.join(str(x) for x in e.args)[:200]))
    st = MichelsonStack(items)
    try:
        MichelsonInstruction.match({'prim': op}).execute(st, [], ExecutionContext())
    except MichelsonRuntimeError as e:
        return ('err', ' / '.join(str(x) for x in e.args)[:200])
    if len(st.items) != 1:
        return ('err', 'stack size %d' % len(st.items))
    r = st.items[0]
    from ..terms import strip_annots
    tj = strip_annots(type(r).as_micheline_expr())
    return ('ok', type_text(tj), micheline_to_py(tj, r.to_micheline_value(mode='optimized')))


def compare(ctx, case, a, b, res):
    op, ta, tb = case
    got = run_impl(op, ta, a, tb, b)
    if res[0] == 'ok':
        want = ('ok', res[1], to_py(res[2]))
    else:
        want = ('err',)
    ok = (got[0] == 'err') if want[0] == 'err' else (got == want)
    if ok:
        return True
    if got[0] == 'operand-rejected':
        ctx.mismatch('C16:operand-rejected:%s' % (ta if tb == '-' else ta + '-' + tb), '%s %s %r %s %r: a legal operand cannot be built: %s' % (op, ta, to_py(a), tb, to_py(b) if tb != '-' else None, got[1]),
                     {'case': list(case), 'a': to_json(a), 'b': to_json(b), 'res': to_json(res)})
        return False
    bytes_bitwise = ta == 'bytes' and op in ('AND', 'OR', 'XOR', 'NOT', 'LSL', 'LSR')
    if bytes_bitwise and got[0] == 'err':
        sig = 'C16:bytes-bitwise-unimplemented:%s' % op
    elif got[0] == 'err':
        sig = 'C16:%s:%s:raises' % (op, ta if tb == '-' else ta + '-' + tb)
    elif want[0] == 'err':
        sig = 'C16:%s:%s:should-fail' % (op, ta if tb == '-' else ta + '-' + tb)
    elif got[1] != want[1]:
        sig = 'C16:%s:%s:type' % (op, ta if tb == '-' else ta + '-' + tb)
    else:
        sig = 'C16:%s:%s:value' % (op, ta if tb == '-' else ta + '-' + tb)
    aa = to_py(a)
    bb = to_py(b) if tb != '-' else None
    ctx.mismatch(sig, '%s %s %r %s %r: model %r, pytezos %r' % (op, ta, aa, tb, bb, want, got), {'case': list(case), 'a': to_json(a), 'b': to_json(b), 'res': to_json(res)})
    return False


def run(ctx):
    ctx.rule = ('every instruction of the arithmetic family x every operand type combination of the Michelson signature table x every operand tuple from boundary pools '
                '(0, +-1, byte boundaries 2^(8k)-1 / 2^(8k) / 2^(8k-1), 2^63-1, 2^63, 2^64, 2^255, 2^256, 2^256+1, seeded randoms up to 300 bits; shifts 0,1,7,8,9,255,256,257; '
                'byte strings with leading 00/ff and sign-bit boundaries). Leg A: TLC checks 13 algebraic laws on every case (a = q*b + r, inverse operations, round trips, '
                'minimality of BYTES, failure conditions). Leg B: each case is executed by the pytezos instruction and result type + value or failure compared')
    ctx.assumptions = ['limb <-> Python int conversion in C16.py', 'bitwise/shift instructions on bytes follow the Mumbai semantics (AND: length of the shorter operand, OR/XOR: of the longer, LSL grows by ceil(n/8) bytes, LSR shrinks by floor(n/8))']
    P = pools(ctx)
    gen = {'MichArithMC': MC % (to_tla(set(CASES)), 'CASE ' + '\n   [] '.join('ty = "%s" -> %s' % (t, to_tla(set(v))) for t, v in P.items()))}
    r = ctx.tlc('MichArithMC', CFG, gen=gen, timeout=2400, coverage=False, heap='8g')
    ctx.require_no_violation(r, 'MichArith')
    outs = [v for v in r.printed if v[0] == 'OUT']
    seen_ops = set()
    for v in outs:
        _, case, a, b, res = v
        ok = compare(ctx, case, a, b, res)
        ctx.again(compare, ctx, case, a, b, res)
        seen_ops.add(case)
        ctx.replayed += 1
        ctx.count((case, a, b), nontrivial=True)
        if ok and ctx.replayed % 2503 == 1:
            ctx.sample({'case': case, 'a': to_py(a), 'b': to_py(b) if case[2] != '-' else None, 'model': to_json(res)}, limit=8)
    if seen_ops != set(CASES):
        raise Exception('vacuity: cases not exported: %s' % (set(CASES) - seen_ops))
    ctx.second_pass()
    ctx.exhaustive = True


def replay(ctx, rep):
    c = rep['case']
    tup = lambda x: tuple(tup(y) for y in x) if isinstance(x, list) else x
    ok = compare(ctx, tuple(c['case']), tup(c['a']), tup(c['b']), tup(c['res']))
    for m in ctx.mismatches:
        print('REPRODUCED', m.signature, m.detail)
    return 0 if ok else 1


META = {
    'category': 'model_checking',
    'text': ('MichArith.tla defines every arithmetic / conversion instruction over arbitrary-precision limb integers (BigInt.tla) and, separately, the mathematical laws '
             'its results must satisfy; TLC checks the laws on every (instruction, operand types, operand values) case of the boundary pools, and every case is executed '
             'by the corresponding pytezos instruction with the result type, value or failure compared with the model.'),
    'design_ref': 'DESIGN.md section 5 C16, Appendix D.6',
    'note': 'Trusted: BigInt.tla (validated against Python integers during design and re-validated here through the laws), limb conversion. Bounds: ~25 (quick) / ~45 signed operands per numeric type, 11 byte strings, 8 shift amounts; 58 instruction/type cases.',
    'technique': 'TLA+ arbitrary-precision arithmetic model + TLC law checking; exhaustive case replay into pytezos instructions',
}
