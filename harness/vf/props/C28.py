"""C28 - multi-node clients rotate through nodes regardless of failures.  Spec: MultiNode.tla."""
import json, os, random

from .. import boundary
from ..tlaparse import iter_dump, to_json

CFG = """SPECIFICATION Spec
CONSTANTS N = %d
 MaxLen = %d
INVARIANT RoundRobin
INVARIANT NextInRange
"""
TCFG = """SPECIFICATION Spec
CONSTANTS MaxLen = 1000
INVARIANT RoundRobin
POSTCONDITION Accepted
"""


def script_for(outcome):
    mk = boundary.make_response
    temp = json.dumps([{'id': 'node.mempool.busy', 'kind': 'temporary'}])
    perm = json.dumps([{'id': 'node.broken', 'kind': 'permanent'}])
    return {
        'ok': [mk(200, 'application/json', '{}')],
        'notfound': [mk(404, 'text/plain', 'nope')],
        'error': [mk(500, 'application/json', perm)],
        'retry_ok': [mk(500, 'application/json', temp), mk(200, 'application/json', '{}')],
        'retry_error': [mk(503, 'application/json', temp), mk(400, 'application/json', perm)],
        'conn_error': [requests_connection_error()],
        'bad_body': [mk(500, 'application/json', '{"error": "not a list"}')],
    }[outcome]


def requests_connection_error():
    import requests
    return requests.exceptions.ConnectionError('connection refused (scripted)')


FAILING = ('notfound', 'error', 'retry_error', 'conn_error', 'bad_body')


class Recorder:
    """Observes, at the requests boundary, which node URL every HTTP attempt goes to."""

    def __init__(self):
        self.urls = []

    def install(self):
        import requests
        rec = self
        inner = boundary._request

        def req(method=None, url=None, **kw):
            rec.urls.append(url)
            return inner(method=method, url=url, **kw)
        requests.request = req

    def uninstall(self):
        import requests
        requests.request = boundary._request


LAYOUTS = {3: [0, 0, 1], 4: [0, 1, 0, 2]}      # node lists in which one address is listed twice (a weighted list): position -> address


def node_of(url):
    """index of the configured node a request URL belongs to; a URL of no configured node is an observation of its own"""
    try:
        return int(str(url).split('//node')[1].split('.')[0])
    except (IndexError, ValueError):
        return 'no-configured-node:' + str(url)[:40]


def observe(n, outcomes, layout=None, perturb=False):
    """perturb: between the requests the client object is looked at (repr / str / attribute reads), and every other request is made from a thread of its own
    (one after the other, never two at a time) - neither is a request, neither moves the rotation"""
    import threading
    from pytezos.rpc.node import RpcMultiNode, RpcError
    uris = ['http://node%d.invalid' % (layout[i] if layout else i) for i in range(n)]
    node = RpcMultiNode(uris if n > 1 else uris[0])
    rec = Recorder()
    rec.install()
    obs = []
    try:
        for o in outcomes:
            boundary.reset(script_for(o))
            rec.urls = []
            box = []

            def one():
                try:
                    if perturb and len(obs) % 3 == 2:
                        # a streaming query of the query layer (monitor/...) is a request like any other: it goes to the node whose turn it is
                        from pytezos.rpc.shell import ShellQuery
                        ShellQuery(node).monitor.bootstrapped()
                    else:
                        node.request('GET', 'chains/main/blocks/head')
                    box.append('ok')
                except (RpcError, AssertionError):
                    box.append('err')
                except Exception as e:       # transport failure raised by the HTTP library
                    box.append('err' if type(e).__name__ == 'ConnectionError' else e)
            if perturb:
                repr(node), str(node), len(node.nodes), getattr(node, 'uri', None)
                if len(obs) % 3 == 1:
                    repr(node)
            if perturb and len(obs) % 2 == 1:
                t = threading.Thread(target=one)
                t.start()
                t.join()
            else:
                one()
            res = box[0]
            if isinstance(res, Exception):
                raise res
            hit = sorted({node_of(u) for u in rec.urls}, key=str)
            obs.append((hit, res, len(rec.urls)))
    finally:
        rec.uninstall()
    return obs


def compare(ctx, n, log, sig='C28:replay', layout=None):
    outcomes = [e[1] for e in log]
    obs = observe(n, outcomes, layout)
    obs_p = observe(n, outcomes, layout, perturb=True)
    if obs_p != obs:
        ctx.mismatch(sig + ':depends-on-observers-or-calling-thread', 'requests %s with N=%d: nodes / results %s; with the client object printed between the requests and every other request made from its own thread: %s' % (
            outcomes, n, obs, obs_p), {'n': n, 'log': to_json(log), 'layout': layout})
        return False
    if layout:
        for i, ((node, o), (hit, res, k)) in enumerate(zip(log, obs)):
            if hit != [layout[node]]:
                ctx.mismatch(sig + ':repeated-address:wrong-node', 'request %d of %s over the node list %s (addresses by position) went to address(es) %s, the model says position %d = address %d' % (
                    i + 1, outcomes, layout, hit, node, layout[node]), {'n': n, 'log': to_json(log), 'layout': layout})
                return False
        return True
    for i, ((node, o), (hit, res, k)) in enumerate(zip(log, obs)):
        failed_before = any(e[1] in FAILING for e in log[:i])
        want_res = 'ok' if o in ('ok', 'retry_ok') else 'err'
        want_k = 2 if o.startswith('retry') else 1
        if hit != [node]:
            # the only deviation pytezos is known to have: the pointer is not advanced by a failing request
            fails = sum(1 for e in log[:i] if e[1] in FAILING)
            predicted = (i - fails) % n
            cls = 'after-failure-not-advanced' if failed_before and hit == [predicted] else 'wrong-node'
            ctx.mismatch('%s:%s' % (sig, cls), 'request %d of %s with N=%d went to node(s) %s, model says node %d' % (i + 1, outcomes, n, hit, node),
                         {'n': n, 'log': to_json(log)})
            return False
        if res != want_res or k != want_k:
            ctx.mismatch(sig + ':outcome', 'request %d (%s): result %s with %d attempts, expected %s with %d' % (i + 1, o, res, k, want_res, want_k), {'n': n, 'log': to_json(log)})
            return False
    return True


def long_run(ctx):
    """The rotation invariant is inductive (request i goes to node i mod N for every i): one client is driven far beyond the lengths TLC
    enumerates - past 2^16 requests - so that a counter of limited width or a drifting index shows."""
    from pytezos.rpc.node import RpcMultiNode
    ok = boundary.make_response(200, 'application/json', '{}')
    for n in (3, 5):
        node = RpcMultiNode(['http://node%d.invalid' % i for i in range(n)])
        rec = Recorder()
        rec.install()
        total = 66000 if ctx.quick else 140000
        try:
            for i in range(total):
                boundary.SCRIPT[:] = [ok]
                del boundary.LOG[:]
                rec.urls = []
                node.request('GET', 'chains/main/blocks/head')
                got = [node_of(u) for u in rec.urls]
                if got != [i % n]:
                    ctx.mismatch('C28:long-run:wrong-node', 'request %d of an all-success run with N=%d went to %s, the rotation says node %d' % (i + 1, n, got, i % n), {'n': n, 'long_run': i})
                    break
        finally:
            rec.uninstall()
        ctx.count(('long-run', n), nontrivial=True)
        ctx.extra['long_run_requests'] = ctx.extra.get('long_run_requests', 0) + total


def run(ctx):
    boundary.install()
    ctx.rule = ('Leg A/B: every sequence of up to L logical requests over 7 outcome kinds (success, 404, permanent 5xx, transient-then-success, '
                'transient-then-error, transport failure raised by the HTTP library, 5xx with a malformed JSON body) for N=1..4 nodes; each maximal behaviour is replayed against a real RpcMultiNode and the node URL of every '
                'HTTP attempt is observed at the requests boundary; non-trivial = contains at least one failing request before another request. '
                'Leg C: random outcome sequences recorded and validated by MultiNodeTrace.')
    ctx.assumptions = ['node identity is observed from the URL passed to requests.request; for N=3 and N=4 every behaviour is replayed a second time over a node list that names one address twice']
    L = 4 if ctx.quick else 5
    for n in (1, 2, 3, 4):
        r = ctx.tlc('MultiNode', CFG % (n, L), name='MultiNode_N%d' % n, dump=True)
        ctx.require_no_violation(r, 'MultiNode N=%d' % n)
        for st in iter_dump(r.dump):
            log = st['log']
            if len(log) != L:
                continue
            ok = compare(ctx, n, log)
            ctx.replayed += 1
            ctx.count((n, log), nontrivial=any(e[1] not in ('ok', 'retry_ok') for e in log[:-1]))
            if n in LAYOUTS:
                ok = compare(ctx, n, log, layout=LAYOUTS[n]) and ok
                ctx.replayed += 1
                ctx.count((n, log, 'repeated-address'), nontrivial=True)
            if ok:
                ctx.sample({'N': n, 'log': log}, limit=3)
    ctx.exhaustive = True
    long_run(ctx)
    rng = random.Random(ctx.seed * 31 + 28)
    traces = []
    for t in range(200 if ctx.quick else 5000):
        n = rng.randint(1, 5)
        outcomes = [rng.choice(['ok', 'ok', 'notfound', 'error', 'retry_ok', 'retry_error', 'conn_error', 'bad_body']) for _ in range(rng.randint(1, 12))]
        obs = observe(n, outcomes)
        ev = []
        for o, (hit, res, k) in zip(outcomes, obs):
            ev.append({'node': hit[0] if len(hit) == 1 and isinstance(hit[0], int) else -1, 'outcome': o})      # -1: no single configured node (the trace spec rejects it)
        traces.append({'n': n, 'events': ev})
        ctx.count(('c', t))
    tf = os.path.join(ctx.wd, 'traces.json')
    json.dump(traces, open(tf, 'w'))
    r = ctx.tlc('MultiNodeTrace', TCFG, workers=1, env={'TRACE_FILE': tf}, coverage=False)
    rej = [v for v in r.printed if v[0] == 'REJECT']
    for v in rej:
        tr = traces[v[1] - 1]
        log = [((i) % tr['n'], e['outcome']) for i, e in enumerate(tr['events'])]
        compare(ctx, tr['n'], log, sig='C28:trace')
    if r.violation and not rej:
        ctx.mismatch('C28:trace:invariant', r.output[-1000:], None)
    ctx.traces += len(traces) - len({v[1] for v in rej})
    ctx.sample({'recorded_trace': traces[0]})


def replay(ctx, rep):
    boundary.install()
    c = rep['case']
    if 'long_run' in c:
        boundary.install()
        long_run(ctx)
        for m in ctx.mismatches:
            print('REPRODUCED', m.signature, m.detail)
        return 1 if ctx.mismatches else 0
    ok = compare(ctx, c['n'], [tuple(e) for e in c['log']], layout=c.get('layout'))
    for m in ctx.mismatches:
        print('REPRODUCED', m.signature, m.detail)
    return 0 if ok else 1


META = {
    'category': 'model_checking',
    'text': ('MultiNode.tla states the rotation rule; TLC checks RoundRobin for N=1..4 over every outcome sequence up to the bound; every maximal '
             'behaviour is replayed against a real RpcMultiNode with the target node of each HTTP attempt observed at the requests boundary; '
             'random recorded executions are validated by MultiNodeTrace.tla.'),
    'design_ref': 'DESIGN.md section 5 C28, A.7',
    'note': 'Trusted: requests boundary stub, URL -> node index mapping. Bounded sequence length (4 quick / 6 thorough) and N <= 4 (5 in traces).',
    'technique': 'TLA+ spec + TLC exhaustive model checking; spec-behaviour replay into RpcMultiNode; TLC trace validation',
}
