"""X06 (not a listed property: growth of the specification) - the sandbox baking flow
client.bake_block(min_fee).fill(ts).work().sign().inject() and client.activate_protocol(h).fill().sign().inject()
follows BlockBake.tla.

Leg A: TLC checks the invariants of BlockBake.tla on four bounded universes (classification, fill, work, activation).
Leg B: every finished behaviour TLC enumerated is replayed through PyTezosClient / BlockHeader against a simulated
node (an RpcNode subclass) with a real pytezos Key; every request the node sees, every intermediate header and the
injected bytes are compared with the model, bytes being interpreted by harness/vf/x06_ref.py (own forging, Merkle
tree, base58check, stamp)."""
import itertools
import json
import re

from .. import boundary
from .. import x06_ref as R
from ..tlaparse import to_tla

SPEC_INVARIANTS = ['EveryGroupInItsPass', 'OrderPreserved', 'BakeCrashOnlyAsCoded', 'FillRules', 'AppliedComeFromRequest',
                   'PayloadRule', 'WorkFindsFirst', 'WorkCountsStamps', 'NeverInjectedUnsigned', 'InjectedIsWhatWasSigned',
                   'RefusedSendsNothing', 'NothingInjectedEarly', 'FitnessGrows', 'Emit']
MC = """---- MODULE BlockBakeMC ----
EXTENDS BlockBake
cGroups == %(groups)s
cStampPatterns == %(stamps)s
cFlows == %(flows)s
cPrevFits == %(prevfits)s
cTsArgs == %(tsargs)s
====
"""
CFG = """SPECIFICATION Spec
CONSTANTS Mode = "%(mode)s"
 Groups <- cGroups
 MaxMempool = %(maxmem)d
 MinFees = %(minfees)s
 Protos = %(protos)s
 HeadLevels = %(levels)s
 HeadTimes = %(times)s
 TsArgs <- cTsArgs
 RefuseAny = %(refuse)s
 StampPatterns <- cStampPatterns
 Flows <- cFlows
 PrevFits <- cPrevFits
 BlocksPerCommitment = %(bpc)d
""" + ''.join('INVARIANT %s\n' % i for i in SPEC_INVARIANTS)

DOC = ('fill', 'work', 'sign', 'inject')          # the documented order
FIRST = (('below',),)                               # the header as it is already has a good stamp
MANAGER_SECOND = 'transaction'
CHAIN_ID = R.enc('Net', bytes([0x7a, 0x06, 0xa7, 0x70]))
HEAD_HASH = R.enc('B', R.H(b'x06 head'))
VOTES_BYTE = 1          # see ctx.assumptions
WORKERS = 4


def set_tla(xs):
    return '{' + ', '.join(to_tla(x) for x in xs) + '}'


def stamp_patterns(n):
    """all class sequences over nonces 0..n-1 with at most one 'equal' (two nonces never share a stamp) and a winner"""
    out = []
    for p in itertools.product(('below', 'equal', 'above'), repeat=n):
        if p.count('equal') <= 1 and any(c != 'above' for c in p):
            out.append(p)
    return out


def universes(quick, bpc):
    non_manager = [('endorsement', ()), ('ballot', ()), ('activate_account', ())]
    missing = [('attestation', ()), ('drain_delegate', ()), ('set_deposits_limit', (2,))]
    manager = [('transaction', (0,)), ('transaction', (1,)), ('transaction', (2,)), ('transaction', (1, 1)), ('delegation', (3,))]
    base = dict(mode='bake', minfees='{0}', protos='{24}', levels='{2}', times='{100}', tsargs='{-1}', refuse='FALSE',
                stamps=FIRST, flows=(DOC,), prevfits=((),), bpc=bpc)
    us = []
    # A: classification - every mempool over the full group universe
    us.append(dict(base, name='classify', groups=(non_manager + missing[:2] + manager[1:4] + missing[2:]) if quick else (non_manager + missing + manager),
                   maxmem=3 if quick else 4, minfees='{0, 2}'))
    # B: fill - protocols, levels around a commitment level, timestamp override, refusals by preapply
    us.append(dict(base, name='fill', groups=[('endorsement', ()), ('ballot', ()), ('transaction', (2,))] + ([] if quick else [('activate_account', ())]),
                   maxmem=3, minfees='{2}', protos='{12, 23, 24}' if quick else '{11, 12, 18, 23, 24}',
                   levels='{%d, %d}' % (bpc - 2, bpc - 1) if quick else '{%d, %d, %d}' % (bpc - 2, bpc - 1, 2 * bpc - 1),
                   times='{100}', tsargs='{-1, 0}' if quick else '{-1, 0, 7}', refuse='TRUE'))
    # C: work - stamp patterns and call sequences
    us.append(dict(base, name='work', groups=[('ballot', ()), ('transaction', (2,))], maxmem=1 if quick else 2, protos='{11, 12, 24}',
                   stamps=stamp_patterns(3 if quick else 4), levels='{%d}' % (bpc - 1) if quick else '{%d, %d}' % (bpc - 2, bpc - 1),
                   flows=(DOC, ('fill', 'sign', 'inject'), ('fill', 'work', 'inject'), ('fill', 'inject'), ('inject',))))
    # D: activation
    us.append(dict(base, name='activate', mode='activate', groups=[], maxmem=0, protos='{0}', levels='{0}', times='{0, 100}', tsargs='{-1, 0, 7}',
                   flows=(('fill', 'sign', 'inject'), ('fill', 'inject'), ('inject',)), prevfits=((), (2, 5))))
    return us


# ---------------------------------------------------------------- the simulated node
def make_node(inp, salt, mode):
    from pytezos.rpc.node import RpcError, RpcNode
    mempool, min_fee, head_level, head_ts, proto, refused, stamp, prev_fit, ts_arg, flow = inp

    class Resp:
        def __init__(self, data):
            self._d = data
            self.status_code = 200
            self.text = json.dumps(data)

        def json(self):
            return self._d

    class BakeNode(RpcNode):
        def __init__(self):
            super().__init__('http://bake.invalid')
            self.proto_hash = R.PROTO_HASH[proto]
            self.groups = []
            for i, (kind, fees) in enumerate(mempool, 1):
                fees = list(fees) or [None]
                contents = []
                for j, f in enumerate(fees):
                    c = {'kind': kind if j == 0 else MANAGER_SECOND}
                    if f is not None:
                        c.update({'source': 'tz1KqTpEZ7Yob7QbPE4Hy4Wo8fHG8LhKxZSx', 'fee': str(f), 'counter': str(10 * i + j), 'gas_limit': '1000', 'storage_limit': '0'})
                    contents.append(c)
                self.groups.append({'hash': R.enc('o', R.H(b'op%d' % i)), 'branch': HEAD_HASH, 'contents': contents,
                                    'signature': R.enc('sig', R.H(b'sa%d' % i) + R.H(b'sb%d' % i))})
            self.by_sig = {g['signature']: i for i, g in enumerate(self.groups, 1)}
            self.data_of = {i: R.H(b'data%d' % i).hex() + '%02x' % i for i in range(1, len(self.groups) + 1)}
            self.preapply = []       # (json, params)
            self.injected = []       # (json, params, answer)
            self.shell_header = None
            self.unknown = []

        def head_fitness(self):
            if mode == 'activate':
                return [] if not prev_fit else ['%02x' % prev_fit[0], prev_fit[1].to_bytes(4, 'big').hex(), '', 'ffffffff', '00000000']
            return R.tenderbake_fitness(head_level)

        def head_shell(self):
            return {'level': head_level, 'proto': 1, 'predecessor': R.enc('B', R.H(b'x06 pred')), 'timestamp': R.rfc3339(head_ts), 'validation_pass': 4,
                    'operations_hash': R.enc('LLo', R.H(b'x06 ops')), 'fitness': self.head_fitness(), 'context': R.enc('Co', R.H(b'x06 ctx'))}

        def request(self, method, path, **kw):
            path = '/' + path.strip('/')
            if method == 'GET' and path == '/chains/main/mempool/pending_operations':
                return Resp({'validated': [dict(g) for g in self.groups], 'refused': [], 'outdated': [], 'branch_refused': [], 'branch_delayed': [], 'unprocessed': []})
            if method == 'GET' and path == '/chains/main/blocks/head/header/shell':
                return Resp(self.head_shell())
            if method == 'GET' and path == '/chains/main/blocks/head/header':
                return Resp(dict(self.head_shell(), hash=HEAD_HASH, chain_id=CHAIN_ID, protocol=self.proto_hash))
            if method == 'GET' and path == '/chains/main/blocks/head/protocols':
                return Resp({'protocol': self.proto_hash, 'next_protocol': self.proto_hash})
            if method == 'GET' and path == '/chains/main/chain_id':
                return Resp(CHAIN_ID)
            if method == 'POST' and path == '/chains/main/blocks/head/helpers/preapply/block':
                body, params = kw.get('json'), kw.get('params')
                self.preapply.append((body, params))
                ts = params.get('timestamp') if isinstance(params, dict) else None
                ops = []
                try:
                    for plist in body['operations']:
                        ids = [self.by_sig[o['signature']] for o in plist]
                        ops.append({'applied': [{'hash': self.groups[i - 1]['hash'], 'branch': HEAD_HASH, 'data': self.data_of[i]} for i in ids if i not in refused],
                                    'refused': [], 'outdated': [], 'branch_refused': [], 'branch_delayed': []})
                except (KeyError, TypeError):
                    raise RpcError('preapply: malformed operations')
                self.shell_header = shell_header(head_level, ts if isinstance(ts, int) else 0, salt, mode, len(ops))
                return Resp({'shell_header': dict(self.shell_header), 'operations': ops})
            if method == 'POST' and path == '/injection/block':
                body = kw.get('json')
                try:
                    answer = R.block_hash(bytes.fromhex(body['data']))
                except (KeyError, TypeError, ValueError):
                    raise RpcError('injection: malformed block')
                self.injected.append((body, kw.get('params'), answer))
                return Resp(answer)
            self.unknown.append((method, path))
            raise RpcError('unexpected request %s %s' % (method, path))
    return BakeNode()


def shell_header(head_level, ts, salt, mode, passes):
    """what the simulated node answers to preapply (and what the reference forging starts from)"""
    return {'level': head_level + 1, 'proto': 1 if mode == 'bake' else 0, 'predecessor': HEAD_HASH, 'timestamp': R.rfc3339(ts), 'validation_pass': passes,
            'operations_hash': R.enc('LLo', R.H(b'x06 olh %d' % passes)), 'fitness': R.tenderbake_fitness(head_level + 1),
            'context': R.enc('Co', R.H(b'x06 context %d' % salt))}


_key = []


def the_key():
    if not _key:
        from pytezos.crypto.key import Key
        _key.append(Key.from_encoded_key('edsk3gUfUPyBSfrS9CCgmCiQsTCHGkviBDusMxDJstFtojtc1zcpsh'))
    return _key[0]


# ---------------------------------------------------------------- expected bytes of a model variant
class Expect:
    """Concrete values of one finished model behaviour (variant) for given input and salt."""

    def __init__(self, inp, var, mode, salt, act=None):
        mempool, min_fee, head_level, head_ts, proto, refused, stamp, prev_fit, ts_arg, flow = inp
        self.pc, self.err, self.passes, self.filled, self.req, self.applied, self.payload, self.fitness, self.nonce, self.sig, self.inj = var
        self.mode, self.proto = mode, proto
        if self.filled:
            self.shell = shell_header(head_level, self.req[0], salt, mode, len(self.passes))
            self.seed = R.enc('nce', bytes(32)) if self.req[1] else None
            if mode == 'bake':
                self.payload_hash = R.payload_hash(HEAD_HASH, 0, [R.enc('o', R.H(b'op%d' % i)) for i in self.payload])
            else:
                self.act = act      # (protocol hash, fitness list, parameter bytes)

    def unsigned(self, nonce):
        if self.mode == 'bake':
            return R.forge_shell(self.shell) + R.forge_contents(self.payload_hash, 0, nonce, self.seed, VOTES_BYTE)
        return R.forge_shell(self.shell) + R.forge_activation(*self.act)

    def watermark(self, tag):
        return bytes([tag]) + R.dec('Net', CHAIN_ID)


def find_salt(inp, var, mode):
    """salt of the node's context hash and proof-of-work threshold that realise the stamp classes TLC chose"""
    stamp = inp[6]
    if 'work' not in inp[9] or not var[3] or mode != 'bake':
        return 0, None
    for salt in range(20000):
        e = Expect(inp, var, mode, salt)
        t = R.threshold_for(stamp, [R.pow_stamp(e.unsigned(n)) for n in range(len(stamp))])
        if t is not None:
            return salt, t
    raise RuntimeError('no salt realises stamp pattern %r' % (stamp,))


# ---------------------------------------------------------------- run one case in pytezos
def observe(inp, mode, salt, threshold):
    """Returns (obs dict, node).  obs holds what pytezos did at every step, in the order of the calls."""
    from pytezos import pytezos
    from pytezos.rpc import ShellQuery
    from pytezos.sandbox import parameters as sp
    mempool, min_fee, head_level, head_ts, proto, refused, stamp, prev_fit, ts_arg, flow = inp
    node = make_node(inp, salt, mode)
    client = pytezos.using(shell=ShellQuery(node), key=the_key())
    obs = {'steps': [], 'end': None}
    saved = sp.sandbox_params.get('proof_of_work_threshold')
    if threshold is not None:
        sp.sandbox_params['proof_of_work_threshold'] = str(threshold)      # a protocol constant of the sandbox, plain data
    try:
        try:
            hdr = client.bake_block(min_fee=min_fee) if mode == 'bake' else client.activate_protocol(R.PROTO_HASH[24])
        except KeyError as e:
            obs['end'] = ('crashed', ('KeyError', e.args[0] if e.args else None))
            return obs, node
        obs['new'] = snapshot(hdr)
        for call in flow:
            try:
                if call == 'fill':
                    hdr = hdr.fill() if ts_arg == -1 else hdr.fill(timestamp=ts_arg)
                elif call == 'work':
                    hdr = hdr.work()
                elif call == 'sign':
                    hdr = hdr.sign()
                else:
                    res = hdr.inject()
                    obs['end'] = ('injected', res, hdr.hash())
                    break
            except ValueError as e:
                obs['end'] = ('refused', ('NotSigned',) if call == 'inject' and str(e) == 'Not signed' else ('ValueError', call, str(e)))
                break
            obs['steps'].append((call, snapshot(hdr)))
        return obs, node
    finally:
        if saved is None:
            sp.sandbox_params.pop('proof_of_work_threshold', None)
        else:
            sp.sandbox_params['proof_of_work_threshold'] = saved


def snapshot(hdr):
    return {'protocol_data': json.loads(json.dumps(hdr.protocol_data)), 'operations': json.loads(json.dumps(hdr.operations)),
            'shell_header': json.loads(json.dumps(hdr.shell_header)), 'signature': hdr.signature}


# ---------------------------------------------------------------- compare an observation with one model variant
def differences(inp, var, mode, salt, obs, node):
    """Names of the observation classes in which pytezos differs from the model variant (empty = conforms)."""
    mempool, min_fee, head_level, head_ts, proto, refused, stamp, prev_fit, ts_arg, flow = inp
    out = []

    def bad(name, got=None, want=None):
        out.append((name, got, want))
    act = None
    if mode == 'activate' and 'new' in obs:
        c = obs['new']['protocol_data'].get('content') or {}
        try:
            act = (c.get('hash'), list(c.get('fitness')), bytes.fromhex(c.get('protocol_parameters')))
        except (TypeError, ValueError):
            act = None
    e = Expect(inp, var, mode, salt, act)
    end = obs['end']
    # --- how the flow ended
    if e.pc == 'crashed':
        if end is None or end[0] != 'crashed' or tuple(end[1]) != tuple(e.err):
            bad('end', end, ('crashed', e.err))
        return out
    if end is None or end[0] != e.pc:
        bad('end', end and end[:2], (e.pc, e.err))
        return out
    if e.pc == 'refused' and tuple(end[1]) != tuple(e.err):
        bad('end', end, (e.pc, e.err))
    # --- bake_block / activate_protocol
    new = obs['new']
    if mode == 'bake':
        got = [[node.by_sig.get(g.get('signature'), 0) if isinstance(g, dict) else 0 for g in p] for p in new['operations']]
        if got != [list(p) for p in e.passes]:
            bad('passes', got, e.passes)
        else:
            for p in new['operations']:
                for g in p:
                    if g != node.groups[node.by_sig[g['signature']] - 1]:
                        bad('group-altered', g)
    else:
        c = new['protocol_data'].get('content') or {}
        want_fit = ['%02x' % e.fitness[0], e.fitness[1].to_bytes(4, 'big').hex(), '', 'ffffffff', '00000000']
        if c.get('command') != 'activate' or c.get('hash') != R.PROTO_HASH[24]:
            bad('activate-command', c)
        if c.get('fitness') != want_fit:
            bad('activate-fitness', c.get('fitness'), want_fit)
        if act is None or len(act[2]) < 4 or int.from_bytes(act[2][:4], 'big') != len(act[2]) - 4:
            bad('activate-parameters')
        if new['operations'] != []:
            bad('passes', new['operations'], [])
    if new['signature'] is not None:
        bad('new-signature', new['signature'])
    # --- the calls
    steps = dict(obs['steps'])
    if e.filled != ('fill' in steps):
        bad('filled', 'fill' in steps, e.filled)
        return out
    if e.filled:
        if len(node.preapply) != 1:
            bad('preapply-count', len(node.preapply), 1)
            return out
        body, params = node.preapply[0]
        if not isinstance(params, dict) or params.get('timestamp') != e.req[0] or isinstance(params.get('timestamp'), bool):
            bad('preapply-timestamp', params, e.req[0])
        if not isinstance(params, dict) or params.get('sort') is not True:
            bad('preapply-sort', params)
        pd = dict(body.get('protocol_data') or {})
        if pd.pop('protocol', None) != R.PROTO_HASH[proto]:
            bad('preapply-protocol', body.get('protocol_data', {}).get('protocol'), R.PROTO_HASH[proto])
        try:
            R.dec('sig', pd.pop('signature', None) or '')
        except ValueError:
            bad('preapply-signature')
        seed = pd.pop('seed_nonce_hash', None)
        if (seed is not None) != e.req[1]:
            bad('preapply-seed-nonce-hash', seed, e.req[1])
        elif seed is not None:
            try:
                R.dec('nce', seed)
            except ValueError:
                bad('preapply-seed-nonce-hash-value', seed)
        if mode == 'bake':
            ai = pd.pop('adaptive_issuance_vote', None)
            if proto >= 18 and (ai is not None) != e.req[2]:
                bad('preapply-adaptive-issuance-vote', ai, e.req[2])
            if ai not in (None, 'off'):
                bad('preapply-adaptive-issuance-vote-value', ai)
            try:
                R.dec('vh', pd.pop('payload_hash', None) or '')
            except ValueError:
                bad('preapply-payload-hash')
            if pd != {'proof_of_work_nonce': '0000000000000000', 'payload_round': 0, 'liquidity_baking_toggle_vote': 'off'}:
                bad('preapply-protocol-data', pd)
            sent = body.get('operations')
            ids = [[node.by_sig.get(o.get('signature'), 0) for o in p] for p in sent]
            if ids != [list(p) for p in e.req[3]]:
                bad('preapply-operations', ids, e.req[3])
            else:
                for p in sent:
                    for o in p:
                        g = node.groups[node.by_sig[o['signature']] - 1]
                        if o != {'protocol': R.PROTO_HASH[proto], 'branch': g['branch'], 'contents': g['contents'], 'signature': g['signature']}:
                            bad('preapply-operation-fields', o)
        else:
            if pd != {'content': new['protocol_data'].get('content')}:
                bad('preapply-protocol-data', pd)
            if body.get('operations') != []:
                bad('preapply-operations', body.get('operations'), [])
        f = steps['fill']
        if f['shell_header'] != node.shell_header:
            bad('filled-shell-header', f['shell_header'], node.shell_header)
        want_ops = [[{'branch': HEAD_HASH, 'data': node.data_of[i]} for i in p] for p in e.applied]
        if f['operations'] != want_ops:
            bad('filled-operations', f['operations'], want_ops)
        if mode == 'bake' and f['protocol_data'].get('payload_hash') != e.payload_hash:
            bad('payload-hash', f['protocol_data'].get('payload_hash'), e.payload_hash)
    # the header at hand after the last call before inject / at the end
    last = obs['steps'][-1][1] if obs['steps'] else new
    if e.filled and mode == 'bake':
        got_nonce = last['protocol_data'].get('proof_of_work_nonce')
        if got_nonce != e.nonce.to_bytes(8, 'big').hex():
            bad('nonce', got_nonce, e.nonce)
        rest = {k: v for k, v in last['protocol_data'].items() if k != 'proof_of_work_nonce'}
        if rest != {k: v for k, v in steps['fill']['protocol_data'].items() if k != 'proof_of_work_nonce'}:
            bad('protocol-data-changed-after-fill', rest)
    if e.filled and last['shell_header'] != node.shell_header:
        bad('shell-header-changed-after-fill')
    # --- signature
    signed = 'sign' in steps
    if signed != (e.sig[0] == 'sig'):
        bad('signed', signed, e.sig)
    if signed and e.sig[0] == 'sig' and (mode == 'activate' or proto >= 12):
        s = steps['sign']['signature']
        msg = e.watermark(e.sig[1]) + e.unsigned(e.sig[2])
        try:
            the_key().verify(s, msg)
        except Exception:
            other = e.watermark(0x01 if e.sig[1] == 0x11 else 0x11) + e.unsigned(e.sig[2])
            try:
                the_key().verify(s, other)
                bad('signature-watermark', s)
            except Exception:
                bad('signature-invalid', s)
    elif signed and e.sig[0] == 'sig':
        # pre-Tenderbake header layout: not part of the compared domain, only the watermark rule is (see assumptions)
        raw = bytes.fromhex(node.injected[0][0]['data'])[:-64] if node.injected else None
        s = steps['sign']['signature']
        if raw is not None:
            try:
                the_key().verify(s, e.watermark(e.sig[1]) + raw)
            except Exception:
                bad('signature-watermark', s)
    # --- injection
    if e.pc == 'injected':
        if len(node.injected) != 1:
            bad('inject-count', len(node.injected), 1)
            return out
        body, params, answer = node.injected[0]
        want_ops = [[{'branch': HEAD_HASH, 'data': node.data_of[i]} for i in p] for p in e.inj[2]]
        if body.get('operations') != want_ops:
            bad('inject-operations', body.get('operations'), want_ops)
        data = bytes.fromhex(body['data'])
        if e.inj[1][0] == 'sig':
            try:
                sig_bytes = R.dec('edsig', last['signature']) if last['signature'].startswith('edsig') else R.dec('sig', last['signature'])
            except ValueError:
                sig_bytes = None
                bad('signature-format', last['signature'])
        else:
            sig_bytes = bytes(64)
        if sig_bytes is not None:
            if mode == 'activate' or proto >= 12:
                if data != e.unsigned(e.inj[0]) + sig_bytes:
                    bad('inject-data', data.hex(), (e.unsigned(e.inj[0]) + sig_bytes).hex())
            elif data[-64:] != sig_bytes:
                bad('inject-data-signature', data.hex())
        if not isinstance(params, dict) or params.get('async') is not False or params.get('force') is not False:
            bad('inject-params', params)
        if end[1] != answer:
            bad('inject-result', end[1], answer)
        if end[2] != answer:
            bad('block-hash', end[2], answer)
    elif node.injected:
        bad('inject-count', len(node.injected), 0)
    if node.unknown:
        bad('unexpected-request', node.unknown)
    return out


def check_case(ctx, uname, mode, inp, variants, counters):
    """variants: list of (var, dev) of the model for this input."""
    # the variant that gets furthest decides salt / threshold (they are the same for all variants that get that far)
    lead = max(variants, key=lambda v: (v[0][3], v[0][0] == 'injected'))
    salt, threshold = find_salt(inp, lead[0], mode)
    obs, node = observe(inp, mode, salt, threshold)
    ctx.replayed += 1
    ctx.count((uname, repr(inp)), nontrivial=len(inp[0]) > 0 or mode == 'activate')
    results = [(differences(inp, var, mode, salt, obs, node), var, dev) for var, dev in variants]
    for diff, var, dev in results:
        if not diff:
            for d in dev:
                counters[d] = counters.get(d, 0) + 1
            if not dev and len(variants) > 1:
                counters['(intended behaviour observed where a deviation is modelled)'] = counters.get('(intended behaviour observed where a deviation is modelled)', 0) + 1
            return True
    # report against the variant that ends like the observation (the intended one first), otherwise the intended one
    results.sort(key=lambda r: (r[0][0][0] == 'end', bool(r[2])))
    diff, var, dev = results[0]
    name, got, want = diff[0]
    ctx.mismatch('X06:%s:%s:%s' % (mode, uname, name),
                 'mempool=%s min_fee=%s head level=%s ts=%s protocol=%s refused by preapply=%s stamps=%s prev fitness=%s fill(timestamp=%s) calls=%s:\n'
                 'pytezos: %s\nmodel:   %s\nall differences: %s\nmodel behaviour: %s' % (
                     list(inp[0]), inp[1], inp[2], inp[3], inp[4], sorted(inp[5]), list(inp[6]), list(inp[7]), inp[8], list(inp[9]),
                     repr(got)[:400], repr(want)[:400], [d[0] for d in diff], repr(var)[:600]),
                 {'universe': uname, 'mode': mode, 'input': json.loads(json.dumps(jsonable(inp)))})
    return False


def jsonable(v):
    if isinstance(v, (tuple, list)):
        return [jsonable(x) for x in v]
    if isinstance(v, (set, frozenset)):
        return {'set': sorted(jsonable(x) for x in v)}
    return v


def unjson(v):
    if isinstance(v, dict) and 'set' in v:
        return frozenset(unjson(x) for x in v['set'])
    if isinstance(v, list):
        return tuple(unjson(x) for x in v)
    return v


def run_universe(ctx, u, only=None, counters=None):
    gen = MC % dict(groups=set_tla(u['groups']), stamps=set_tla(u['stamps']), flows=set_tla(u['flows']), prevfits=set_tla(u['prevfits']), tsargs=u['tsargs'])
    r = ctx.tlc('BlockBakeMC', CFG % u, name='BlockBake_' + u['name'], workers=WORKERS, coverage=False, gen={'BlockBakeMC': gen})
    ctx.require_no_violation(r, 'BlockBake/' + u['name'])
    outs = [v for v in r.printed if v[0] == 'OUT']
    m = re.search(r'Finished computing initial states: (\d+) distinct state', r.output)
    cases = {}
    for _, inp, var, dev in outs:
        cases.setdefault(inp, []).append((var, tuple(sorted(dev))))
    printed = len(re.findall(r'^<<\s*"OUT"', r.output, re.M))
    if not m or int(m.group(1)) != len(cases) or printed != len(outs):
        from ..tlc import MachineryError
        raise MachineryError('BlockBake/%s: %s initial states but %d exported inputs; %d OUT lines, %d parsed' % (u['name'], m and m.group(1), len(cases), printed, len(outs)))
    for inp, variants in sorted(cases.items(), key=lambda kv: repr(jsonable(kv[0]))):       # TLC's workers print in no fixed order
        variants.sort(key=repr)
        if only is not None and inp != only:
            continue
        ok = check_case(ctx, u['name'], u['mode'], inp, variants, counters)
        if ok and len(inp[0]) >= 3 and variants[0][0][0] == 'injected':
            ctx.sample({'mempool': inp[0], 'min_fee': inp[1], 'protocol': inp[4], 'refused': sorted(inp[5]), 'passes': variants[0][0][2],
                        'payload': variants[0][0][6], 'nonce': variants[0][0][8]}, limit=3)
    return len(cases)


DEVIATIONS = {
    'unknown-kind-KeyError': 'bake_block raises KeyError for a validated group whose first content is of a kind missing from rpc/kind.py:validation_passes '
                             '(attestation, drain_delegate, set_deposits_limit, ...): no block can be baked while such an operation is in the mempool',
    'dummy-signature-injected': 'fill() leaves an all-zero dummy signature in the header, so inject() without sign() sends the block with 64 zero bytes instead of raising '
                                "ValueError('Not signed')",
}


def run(ctx):
    boundary.install()
    from pytezos.sandbox.parameters import sandbox_params
    bpc = int(sandbox_params['blocks_per_commitment'])
    ctx.rule = ('four bounded universes of BlockBake.tla, each enumerated completely by TLC and every finished behaviour replayed: classify (all mempools up to %d groups over %d '
                'group shapes x min_fee 0/2), fill (protocols %s x head levels around a commitment level x fill(timestamp) %s x every subset of groups refused by '
                'preapply), work (every below/equal/above stamp pattern over the first %d nonces x 5 call sequences x protocols 011/012/024), activate (2 head fitnesses x timestamps x 3 '
                'call sequences)' % ((3, 9, '012/023/024', 'none/0', 3) if ctx.quick else (4, 11, '011/012/018/023/024', 'none/0/7', 4)))
    ctx.assumptions = [
        'the node is simulated by an RpcNode subclass answering the 7 RPCs of the flow; nothing of pytezos is patched; the proof-of-work threshold is set through the '
        "sandbox_params['proof_of_work_threshold'] entry (protocol constant, plain data) and restored; the salt of the context hash answered by preapply is searched so that the real "
        'blake2b stamps fall below / on / above it as TLC chose',
        'the byte of per-block votes in the forged header is taken as 0x01 (what pytezos emits for liquidity_baking_toggle_vote=off) and NOT compared with the protocol: for 018-023 the '
        'byte also carries the adaptive issuance vote and 0x01 does not read as off/off there; the meaning for 024 was not established',
        'protocol 011 (pre-Tenderbake) only exercises the 0x01 watermark rule; its header layout (priority instead of payload hash/round) is not supported by pytezos and not compared; '
        'presence of adaptive_issuance_vote is compared from 018 on',
        'the bson encoding of the protocol parameters in the activation command is opaque (only its length prefix is checked)',
        'Merkle tree of the payload hash: full binary tree padded with the last leaf (lib_crypto Blake2B.Make_merkle_tree), two formulations cross-checked in x06_ref',
        'the order in which preapply (sort=true) answers is the order sent; operations answered as refused are simply absent from `applied`',
    ]
    counters = {}
    total = 0
    for u in universes(ctx.quick, bpc):
        total += run_universe(ctx, u, counters=counters)
    for d, n in sorted(counters.items()):
        print('INFO X06: %d replayed behaviour(s) follow %s%s' % (n, d, ': ' + DEVIATIONS[d] if d in DEVIATIONS else ''))
    ctx.exhaustive = True


def replay(ctx, rep):
    boundary.install()
    from pytezos.sandbox.parameters import sandbox_params
    bpc = int(sandbox_params['blocks_per_commitment'])
    case = rep['case']
    inp = unjson(case['input'])
    counters = {}
    for tier in (True, False):
        for u in universes(tier, bpc):
            if u['name'] == case['universe']:
                try:
                    run_universe(ctx, u, only=inp, counters=counters)
                except Exception:
                    continue
                if ctx.replayed:
                    return ctx.finish()
    print('case not found in the universes')
    return 2


META = {'category': 'model_checking', 'text': 'growth of the specification: BlockBake.tla (sandbox baking flow)', 'design_ref': 'DESIGN.md 11.7', 'note': 'not a listed property',
        'technique': 'TLA+ + TLC + replay'}
