"""C20 - tickets are never forged, duplicated, zeroed or merged incorrectly.  Specs: MichSem.tla (ticket instructions), VM.tla (ledger invariants)."""
import json
from .. import vmfam, vmreplay
from ..tlaparse import to_json
from ..vmfam import *   # noqa
from . import C01

FAILS = (PUSH(STR, s('none')), ('FAILWITH',))
SELF = addr(4, 51)
OTHER = addr(4, 52)
fam = vmfam.fam
TKT = ('ticket', STR)
TK = lambda who, c, n: ('t', who, s(c), n)
SPL = lambda x, y: ('SEQ', (PUSH(P(NAT, NAT), p(i(x), i(y))), ('SWAP',), ('SPLIT_TICKET',)))
MK = ('SEQ', (('TICKET',), ('IF_NONE', FAILS, ())))
MK2 = ('SEQ', (('TICKET',), ('IF_NONE', FAILS, ()), ('DUG', 2), ('TICKET',), ('IF_NONE', FAILS, ()), ('PAIR', 2)))
ALPH = [('TICKET',), MK, MK2, ('READ_TICKET',), ('SWAP',), DROP(1), ('DIG', 2), SPL(1, 2), SPL(0, 3), SPL(3, 0), SPL(2, 2), SPL(1, 1), SPL(2, 1),
        ('IF_NONE', FAILS, (('UNPAIR', 2),)), ('IF_NONE', FAILS, ()), ('PAIR', 2), ('JOIN_TICKETS',), ('UNPAIR', 2),
        PUSH(STR, s('c')), PUSH(NAT, i(2)), PUSH(NAT, i(0)), ('SOME',), ('NIL', ('ticket', STR)), ('CONS',), ('CDR',), ('CAR',), ('UPDATE', 1)]
fam('ticket', depth=5, maxstack=4, envs=[{'SELF_ADDRESS': SELF}],
    inits=[(S(STR, s('c')), S(NAT, i(3))), (S(STR, s('c')), S(NAT, i(0))), (S(NAT, i(7)), S(NAT, i(2))),
           (S(STR, s('c')), S(NAT, i(3)), S(STR, s('d')), S(NAT, i(1))), (S(STR, s('c')), S(NAT, i(3)), S(STR, s('c')), S(NAT, i(1))),
           # tickets that arrived from outside (parameter / storage): same contents, minted by somebody else / by this contract
           # a comb whose leaf type UPDATE n changes from ticket-free to ticket-carrying under the same outer constructor (option nat -> option (ticket string))
           (S(STR, s('c')), S(NAT, i(3)), S(P(OPT(NAT), NAT), p(some(i(1)), i(5)))),
           # contents of a union type: the same side with different payloads are different contents
           (S(('ticket', OR(STR, NAT)), ('t', SELF, left(s('c')), 3)), S(('ticket', OR(STR, NAT)), ('t', SELF, left(s('d')), 2))),
           # contents that are keys: two P-256 keys with the same x and the other parity flag are different contents (as are two different Ed25519 keys)
           (S(('ticket', ('key',)), ('t', SELF, ('o', (2, 2) + (9,) * 32), 3)), S(('ticket', ('key',)), ('t', SELF, ('o', (2, 3) + (9,) * 32), 2))),
           (S(('ticket', ('key',)), ('t', SELF, ('o', (0, 1) + (9,) * 31), 3)), S(('ticket', ('key',)), ('t', SELF, ('o', (0, 1) + (9,) * 31), 2))),
           (S(TKT, TK(OTHER, 'c', 3)), S(TKT, TK(SELF, 'c', 2))), (S(TKT, TK(OTHER, 'c', 3)), S(TKT, TK(OTHER, 'c', 1)), S(STR, s('c')), S(NAT, i(2)))],
    alphabet=ALPH)


def has_ticket_type(t):
    return t[0] == 'ticket' or any(isinstance(x, tuple) and has_ticket_type(x) for x in t[1:])


def lookalike(t, v):
    """the same value with every ticket replaced by its contents: a duplicable value of the same outer type shape"""
    if t[0] == 'ticket':
        return t[1], v[2]
    if t[0] == 'pair':
        (ta, va), (tb, vb) = lookalike(t[1], v[1]), lookalike(t[2], v[2])
        return ('pair', ta, tb), ('p', va, vb)
    if t[0] == 'option':
        if v[0] == 'none':
            return ('option', lookalike_type(t[1])), v
        ti, vi = lookalike(t[1], v[1])
        return ('option', ti), ('some', vi)
    if t[0] == 'list':
        items = [lookalike(t[1], x) for x in v[1]]
        return ('list', lookalike_type(t[1])), ('list', tuple(x[1] for x in items))
    return t, v


def lookalike_type(t):
    if t[0] == 'ticket':
        return t[1]
    return (t[0],) + tuple(lookalike_type(x) if isinstance(x, tuple) else x for x in t[1:])


def check_no_dup(ctx, st):
    """negative test: the model has no DUP of a ticket-carrying slot; pytezos must refuse it as well - also right after a
    look-alike ticket-free value of the same outer shape has been duplicated (duplicability must not be remembered by shape)"""
    stack = st['stack']
    for n, slot in enumerate(stack):
        if has_ticket_type(slot[0]):
            try:
                lt, lv = lookalike(slot[0], slot[1])
                primed = vmreplay.run_impl(((lt, lv),), {}, (('DUP', 1),))
                if primed[0] != 'running':
                    ctx.skip('look-alike DUP not accepted')
            except Exception:
                ctx.skip('look-alike value not constructible')
            got = vmreplay.run_impl(st['init'], st['env'], st['hist'] + (('DUP', n + 1),))
            ctx.count(('dup', st['hist'], n), nontrivial=True)
            if got[0] == 'running':
                ctx.mismatch('C20:dup-of-ticket-accepted', 'DUP %d duplicates a value containing a ticket after %s' % (n + 1, to_json(st['hist'])),
                             {'family': 'ticket', 'init': to_json(st['init']), 'env': to_json(st['env']), 'hist': to_json(st['hist'] + (('DUP', n + 1),)), 'status': 'err',
                              'stack': to_json(st['stack']), 'failv': []})


def check_no_unpack(ctx):
    """negative test: ticket types are not packable, so no bytes can be read as a ticket: UNPACK / PACK at a type holding a ticket is refused
    (the reference typing has no such instruction instance; a ticket read from bytes would be forged)"""
    from pytezos.michelson.instructions.base import MichelsonInstruction
    from pytezos.michelson.stack import MichelsonStack
    from pytezos.michelson.types import BytesType
    from pytezos.context.impl import ExecutionContext
    comb = vmreplay.make_item(P(ADDR, P(STR, NAT)), p(SELF, p(s('c'), i(5))))
    data = comb.pack()
    T = {'prim': 'ticket', 'args': [{'prim': 'string'}]}
    for name, tj, payload in (('ticket', T, data), ('option', {'prim': 'option', 'args': [T]}, b'\x05\x05\x09' + data[1:]),
                              ('pair', {'prim': 'pair', 'args': [{'prim': 'nat'}, T]}, b'\x05\x07\x07\x00\x01' + data[1:]), ('list', {'prim': 'list', 'args': [T]}, b'\x05\x02' + len(data[1:]).to_bytes(4, 'big') + data[1:])):
        st = MichelsonStack([BytesType.from_value(payload)])
        ctx.count(('unpack-ticket', name), nontrivial=True)
        try:
            MichelsonInstruction.match({'prim': 'UNPACK', 'args': [tj]}).execute(st, [], ExecutionContext())
            res = st.items[0].to_micheline_value() if st.items else None
        except Exception:   # noqa: refused
            continue
        if res != {'prim': 'None'}:
            ctx.mismatch('C20:unpack-forges-ticket:%s' % name, 'UNPACK %s of bytes yields %s: a ticket that no TICKET instruction minted' % (json.dumps(tj), res), {'family': 'unpack', 'type': name})


def check_no_push(ctx):
    """negative test: a ticket has no literal - PUSH at a type holding a ticket is refused (tickets come from TICKET only)"""
    from pytezos.michelson.instructions.base import MichelsonInstruction
    from pytezos.michelson.stack import MichelsonStack
    from pytezos.context.impl import ExecutionContext
    T = {'prim': 'ticket', 'args': [{'prim': 'string'}]}
    lit = terms_value(('ticket', STR), TK(SELF, 'c', 1000))
    for name, tj, v in (('ticket', T, lit), ('option', {'prim': 'option', 'args': [T]}, {'prim': 'Some', 'args': [lit]}),
                        ('pair', {'prim': 'pair', 'args': [{'prim': 'nat'}, T]}, {'prim': 'Pair', 'args': [{'int': '1'}, lit]}), ('list', {'prim': 'list', 'args': [T]}, [lit])):
        st = MichelsonStack()
        ctx.count(('push-ticket', name), nontrivial=True)
        try:
            MichelsonInstruction.match({'prim': 'PUSH', 'args': [tj, v]}).execute(st, [], ExecutionContext())
        except Exception:   # noqa: refused
            continue
        ctx.mismatch('C20:push-forges-ticket:%s' % name, 'PUSH %s %s is accepted: a ticket that no TICKET instruction minted' % (json.dumps(tj), json.dumps(v)), {'family': 'push', 'type': name})


def check_no_smuggling(ctx):
    """A well-typed program in which a ticket ends up in a list that started out as an empty list nat (MAP over the empty list produces the ticket type; the
    body never runs): whatever an implementation does with the element type of that empty list, DUP of the list holding the ticket must not succeed.
    (On the pinned tree the program stops earlier, at CONS - the recorded C02 finding about MAP over empty collections; that is a failure, not a duplicate.)"""
    from .. import vmreplay
    body = (DROP(1), PUSH(STR, s('c')), PUSH(NAT, i(5)), MK)
    for name, prog in (('cons-then-dup', (('MAP', body), ('SWAP',), ('CONS',), DUP(1))),
                       ('cons-then-dup-join', (('MAP', body), ('SWAP',), ('CONS',), DUP(1), ('IF_CONS', (('SWAP',), DROP(1)), FAILS), ('SWAP',),
                                               ('IF_CONS', (('SWAP',), DROP(1)), FAILS), ('PAIR', 2), ('JOIN_TICKETS',)))):
        init = (S(LIST(NAT), lst()), S(TKT, TK(SELF, 'c', 5)))
        ctx.count(('smuggle', name), nontrivial=True)
        ctx.replayed += 1
        got = vmreplay.run_impl(init, {'SELF_ADDRESS': SELF}, prog)
        if got[0] == 'running':
            ctx.mismatch('C20:ticket-duplicated-through-empty-list-type:%s' % name, 'program %s on %s runs to the end: the list holding the ticket was duplicated (stack %s)' % (
                json.dumps(to_json(prog)), json.dumps(to_json(init)), got[1]), {'family': 'smuggle', 'name': name})


def terms_value(t, v):
    from .. import terms
    return terms.value_json(t, v)


def replay_fn(ctx, prop, fname, st):
    cls = C01.replay_state(ctx, prop, fname, st)
    if cls is None and st['status'] == 'running':
        check_no_dup(ctx, st)
    return cls


def run(ctx):
    ctx.rule = ('all well-typed programs up to depth 5 (6 thorough) over TICKET, READ_TICKET, SPLIT_TICKET (with parts summing / not summing / containing zero), JOIN_TICKETS '
                '(matching and non-matching contents), pair/option/list wrapping, DROP/SWAP/DIG. Leg A: TLC checks NoZeroTicket and TicketConservation (per (ticketer, contents) '
                'total grows only in a step that executes TICKET) on the reference semantics. Leg B: every program replayed in pytezos, whole stack compared (ticketer, contents, '
                'amount of every ticket); DUP of every ticket-carrying slot must be refused')
    ctx.assumptions = ['tickets are created by TICKET or are present in the initial stack (as received in a parameter / storage), minted by this or by another contract; the self address is fixed by the environment']
    f = dict(vmfam.FAMILIES['ticket'])
    if ctx.quick:
        f['depth'] = 4
        drop = {SPL(1, 1), PUSH(STR, s('c')), PUSH(NAT, i(0)), ('NIL', ('ticket', STR)), ('CONS',), ('DIG', 2), ('SOME',)}
        f['alphabet'] = [x for x in f['alphabet'] if x not in drop]
    C01.ASPECTS['C20'] = {'status', 'value', 'type', 'failwith-value'}
    C01.run_families(ctx, 'C20', 'ticket', {'ticket': f}, extra_inv='INVARIANT NoZeroTicket\nPROPERTY TicketConservation', replay_fn=replay_fn)
    check_no_unpack(ctx)
    check_no_push(ctx)
    check_no_smuggling(ctx)
    ctx.exhaustive = True


def replay(ctx, rep):
    C01.ASPECTS['C20'] = {'status', 'value', 'type', 'failwith-value'}
    if rep['case'].get('family') in ('smuggle', 'push'):
        check_no_smuggling(ctx) if rep['case']['family'] == 'smuggle' else check_no_push(ctx)
        for m in ctx.mismatches:
            print('REPRODUCED', m.signature, m.detail[:600])
        return 1 if ctx.mismatches else 0
    return C01.replay(ctx, rep)


META = {
    'category': 'model_checking',
    'text': ('The ticket instructions are part of MichSem.tla; VM.tla carries the ledger invariants NoZeroTicket (no ticket with amount 0 anywhere in the stack) and '
             'TicketConservation (the total amount per (ticketer, contents) increases only in a step executing TICKET), which TLC checks over every well-typed ticket '
             'program up to the depth bound. Each program is replayed in pytezos with the full stack compared, and for every ticket-carrying slot DUP must be refused.'),
    'design_ref': 'DESIGN.md section 5 C20',
    'note': 'Trusted: transcription of the ticket rules (TICKET 0 / zero or non-summing SPLIT -> None, JOIN iff ticketer and contents equal), terms.py. Bounds: depth 4 (quick) / 5, stack <= 3, 3 initial stacks.',
    'technique': 'TLA+ reference semantics with ledger invariants, TLC exhaustive over ticket programs; replay into pytezos; negative DUP tests',
}
