"""C19 - macro expansions have their specified Michelson meaning.  Spec: MichMacro.tla (names from structure, direct meanings) over MichSem.tla."""
import itertools, json

from .. import terms, vmreplay
from ..tlaparse import to_json, to_tla
from ..vmfam import *   # noqa

OPS = ['EQ', 'NEQ', 'LT', 'GT', 'LE', 'GE']
LEAF = ('leaf',)


def trees(n):
    """all binary trees with exactly n leaves"""
    if n == 1:
        return [LEAF]
    out = []
    for k in range(1, n):
        for l in trees(k):
            for r in trees(n - k):
                out.append(('node', l, r))
    return out


def paths(maxlen):
    out = []
    for n in range(1, maxlen + 1):
        out += [tuple(p) for p in itertools.product('AD', repeat=n)]
    return out


BT = (PUSH(STR, s('t')),)
BF = (PUSH(STR, s('f')),)
BFAIL = (PUSH(STR, s('boom')), ('FAILWITH',))
BASE = (S(INT, i(1)), S(NAT, i(2)), S(STR, s('c')), S(BOOL, T_), S(BYT, b([5])), S(INT, i(6)))

MC = """---- MODULE MichMacroMC ----
EXTENDS MichMacro
Base == %s
MacrosV == %s
IntPairs == %s
Flat == %s
StacksOfV(mm) ==
  CASE mm[1] \\in {"CMP", "IFCMP", "ASSERT_CMP"} -> IntPairs
    [] mm[1] \\in {"IF", "ASSERT_"} -> {Tail(x) : x \\in IntPairs}
    [] mm[1] = "FAIL" -> {<<>>, Base}
    [] mm[1] = "ASSERT" -> %s
    [] mm[1] \\in {"ASSERT_NONE", "ASSERT_SOME", "IF_SOME"} -> %s
    [] mm[1] \\in {"ASSERT_LEFT", "ASSERT_RIGHT", "IF_RIGHT"} -> %s
    [] mm[1] \\in {"DIIP", "DUUP", "PAIR"} -> {Base}
    [] mm[1] = "UNPAIR" -> {<<Build(mm[2], Base)>> \\o <<Base[6]>>}
    [] mm[1] \\in {"CADR", "MAP_CADR"} -> {<<FullTree(%d, 1)>> \\o <<Base[3]>>, <<FullTree(%d, 1)>> \\o <<Base[6], Base[3]>>}
    [] mm[1] = "SET_CADR" -> {<<FullTree(%d, 1), Base[3]>>, <<FullTree(%d, 1), FullTree(1, 50), Base[1]>>}
====
"""
LAWS = ['UnpairUndoesPair', 'PairUndoesUnpair', 'SetThenGet', 'MapIsSetOfBody', 'ResultsWellTyped', 'CmpIsCompareThenTest', 'Emit']
CFG = "SPECIFICATION Spec\nCONSTANTS Macros <- MacrosV\n StacksOf <- StacksOfV\n" + ''.join('INVARIANT %s\n' % l for l in LAWS)


def macros(quick):
    ms = []
    for op in OPS:
        ms += [('CMP', op), ('IF', op, BT, BF), ('IFCMP', op, BT, BFAIL), ('ASSERT_', op), ('ASSERT_CMP', op)]
    ms += [('FAIL',), ('ASSERT',), ('ASSERT_NONE',), ('ASSERT_SOME',), ('ASSERT_LEFT',), ('ASSERT_RIGHT',)]
    ms += [('IF_SOME', (PUSH(INT, i(1)), ('ADD',)), (PUSH(INT, i(-5)),)), ('IF_RIGHT', (('SIZE',), ('INT',)), ())]
    for n in range(2, 5 if quick else 6):
        ms += [('DIIP', n, (PUSH(INT, i(9)),)), ('DIIP', n, (DROP(1),)), ('DUUP', n)]
    # code arguments holding a literal that is a sequence of sequences: an expansion arranges instructions and must leave data alone
    LL = LIST(LIST(INT))
    ms += [('DIIP', 2, (PUSH(LL, lst(lst(), lst())),)), ('DIIP', 3, (PUSH(LL, lst(lst(i(1), i(2)), lst(i(3)))), ('SIZE',))),
           ('IF_SOME', (DROP(1), PUSH(LL, lst(lst(), lst())), ('SIZE',), ('INT',)), (PUSH(INT, i(-5)),))]
    # bodies that themselves begin with a DIP and go on after it (an expansion must not merge or drop anything of the body)
    ms += [('DIIP', 2, (DIP(1, DROP(1)), PUSH(INT, i(9)))), ('DIIP', 3, (DIP(1, PUSH(INT, i(9))), DROP(1))), ('DIIP', 2, (DIP(2, PUSH(INT, i(9))), ('SWAP',), DROP(1))),
           ('DIIP', 2, (DIP(1, DROP(1)),))]
    for n in range(2, 6 if quick else 7):
        for t in trees(n):
            ms += [('PAIR', t), ('UNPAIR', t)]
    depth = 3 if quick else 4
    for p in paths(depth):
        ms += [('CADR', p), ('SET_CADR', p), ('MAP_CADR', p, (PUSH(INT, i(100)), ('ADD',))), ('MAP_CADR', p, (DROP(1), PUSH(STR, s('m')))),
               ('MAP_CADR', p, (DIP(1, DUP(1)), ('ADD',)))]       # a body that reads the element below the field
    return ms, depth


def body_text(body):
    from pytezos.michelson.format import micheline_to_michelson
    return micheline_to_michelson([terms.instr_json(x) for x in body], inline=True)


_EXPANSIONS = {}


class ExpansionChanged(Exception):
    pass


def run_macro(name, bodies, st, annot=''):
    from pytezos.context.impl import ExecutionContext
    from pytezos.michelson.instructions.base import MichelsonInstruction
    from pytezos.michelson.micheline import MichelsonRuntimeError
    from pytezos.michelson.parse import michelson_to_micheline
    from pytezos.michelson.stack import MichelsonStack
    text = name + annot + ''.join(' ' + body_text(b_) for b_ in bodies)
    expr = michelson_to_micheline(text)
    # expansion is a function of the macro text: the same text expands to the same code whatever was expanded before (and earlier results do not change afterwards)
    dumped = json.dumps(expr, sort_keys=True)
    if _EXPANSIONS.setdefault(text, dumped) != dumped:
        raise ExpansionChanged('`%s` expanded to %s earlier in this process and to %s now' % (text, _EXPANSIONS[text], dumped))
    stack = MichelsonStack([vmreplay.make_item(t, v) for (t, v) in st])
    try:
        MichelsonInstruction.match(expr).execute(stack, [], ExecutionContext())
    except MichelsonRuntimeError as e:
        args = [str(a) for a in e.args]
        if 'FAILWITH' in args:
            return ('fail', None, args[args.index('FAILWITH') + 1]), text
        return ('err', None, ' / '.join(args)[:300]), text
    return ('running', vmreplay.project_stack(stack), ''), text


def compare(ctx, name, bodies, st, res):
    case = {'name': name, 'bodies': to_json(bodies), 'st': to_json(st), 'res': to_json(res)}
    try:
        got, text = run_macro(name, bodies, st)
    except ExpansionChanged as e:
        ctx.mismatch('C19:expansion-depends-on-history', str(e), case)
        return False
    except Exception as e:      # parser refused the macro name
        got, text = ('err', None, 'parser: %s %s' % (type(e).__name__, str(e)[:200])), name
    status = {'ok': 'running', 'fail': 'fail', 'err': 'err'}[res[0]]
    cls = vmreplay.classify(status, res[1] if res[0] == 'ok' else (), res[1] if res[0] == 'fail' else (), got)
    if cls is None:
        # the same macro carrying a variable annotation: annotations name results, they do not change the effect
        if name.startswith(('C', 'SET_C', 'MAP_C', 'DU', 'PA', 'PP', 'UNP')) and not bodies or name.startswith('MAP_C'):
            try:
                got2, text2 = run_macro(name, bodies, st, annot=' @v')
                cls2 = vmreplay.classify(status, res[1] if res[0] == 'ok' else (), res[1] if res[0] == 'fail' else (), got2)
            except ExpansionChanged as e:
                ctx.mismatch('C19:expansion-depends-on-history', str(e), case)
                return False
            except Exception as e:   # noqa
                cls2 = ('status', 'parser: %s %s' % (type(e).__name__, str(e)[:200]))
                text2 = name + ' @v'
            ctx.count(('annotated', name, bodies, st), nontrivial=True)
            if cls2 is not None:
                ctx.mismatch('C19:annotated:%s' % cls2[0], 'macro `%s` on %s: %s (without the annotation it has the reference effect)' % (text2, json.dumps(to_json(st)), cls2[1]), case)
                return False
        return True
    fam = name if not name.startswith(('P', 'UNP', 'C', 'SET_C', 'MAP_C', 'D')) or name in ('CMPEQ',) else ''.join(ch for ch in name if ch not in 'AID')[:8]
    kind = 'UNPAIR-tree' if name.startswith('UNP') else 'PAIR-tree' if name.startswith('P') else 'SET_CADR' if name.startswith('SET_C') else \
        'MAP_CADR' if name.startswith('MAP_C') else 'CADR' if (name.startswith('C') and set(name[1:-1]) <= set('AD') and name.endswith('R')) else \
        'DIIP' if (name.startswith('DI') and name.endswith('P')) else 'DUUP' if (name.startswith('DU') and name.endswith('P')) else name
    ctx.mismatch('C19:%s:%s' % (kind, cls[0]), 'macro `%s` on %s: %s' % (text, json.dumps(to_json(st)), cls[1]),
                 {'name': name, 'bodies': to_json(bodies), 'st': to_json(st), 'res': to_json(res)})
    return False


def long_paths(ctx):
    """C[AD]+R / SET_C[AD]+R with paths far beyond what the TLC universe holds (5..40 letters; seeded C19_13 unrolled paths in blocks of 16).  The meaning is the
    model's rule stated directly - follow the letters, A = left component, D = right component - on a tree whose siblings along the path are all distinct."""
    import random
    rnd = random.Random(19)
    n = 0
    for length in (5, 7, 8, 9, 15, 16, 17, 18, 24, 31, 32, 33, 34, 40):
        ps = {'A' * length, 'D' * length, ('AD' * length)[:length], ('DDA' * length)[:length]}
        while len(ps) < 7:
            ps.add(''.join(rnd.choice('AD') for _ in range(length)))
        for path in sorted(ps):
            def build(k, leaf):
                if k == len(path):
                    return INT, leaf
                t, v = build(k + 1, leaf)
                return (P(t, INT), p(v, i(-(k + 1)))) if path[k] == 'A' else (P(INT, t), p(i(-(k + 1)), v))
            t, v = build(0, i(1000))
            _, v2 = build(0, i(2000))
            rest = S(STR, s('c'))
            for name, st, res in (('C%sR' % path, (S(t, v), rest), ('ok', (S(INT, i(1000)), rest))),
                                  ('SET_C%sR' % path, (S(t, v), S(INT, i(2000)), rest), ('ok', (S(t, v2), rest)))):
                compare(ctx, name, (), st, res)
                ctx.replayed += 1
                ctx.count((name, st), nontrivial=True)
                n += 1
    ctx.extra['long_path_macros'] = n


def run(ctx):
    ctx.rule = ('every macro of the generated universe (6 comparison operators x CMP/IF/IFCMP/ASSERT_/ASSERT_CMP; FAIL, ASSERT, ASSERT_NONE/SOME/LEFT/RIGHT, IF_SOME, IF_RIGHT; '
                'DII..P and DUU..P depth 2..4(5); every PAIR tree with 2..4 (6) leaves and its UNPAIR; every C[AD]+R / SET_C[AD]+R / MAP_C[AD]+R path of length 1..3 (4)) on every '
                'stack of its pool. Leg A: TLC computes the direct meaning and checks the laws (UNPAIR o PAIR = id, SET then GET, MAP = SET of body, CMPop = COMPARE;op). '
                'Leg B: the macro text goes through the pytezos parser/expander and the interpreter; stack or failure must equal the direct meaning')
    ctx.assumptions = ['bodies are printed with pytezos\' formatter (verified by C18)', 'annotated variants: the accessor / setter / mapper / DUP / PAIR-tree macros are also run with one variable annotation (@v), which must not change the effect; field-annotation variants (PAIR %a %b) are not covered', 'the expansion of every macro text is recorded and must be the same whenever the text is expanded again in the process']
    ms, depth = macros(ctx.quick)
    ints = [(S(INT, i(a)), S(INT, i(b_)), S(STR, s('rest'))) for a in (-1, 0, 1) for b_ in (-1, 0, 1)]
    bools = [(S(BOOL, T_), S(INT, i(3))), (S(BOOL, F_), S(INT, i(3)))]
    opts = [(S(OPT(INT), some(i(4))), S(INT, i(3))), (S(OPT(INT), none), S(INT, i(3)))]
    ors = [(S(OR(INT, STR), left(i(4))), S(INT, i(3))), (S(OR(INT, STR), right(s('rr'))), S(INT, i(3)))]
    gen = {'MichMacroMC': MC % (to_tla(BASE), to_tla(set(ms)), to_tla(set(ints)), to_tla(BASE), to_tla(set(bools)), to_tla(set(opts)), to_tla(set(ors)), depth, depth, depth, depth)}
    r = ctx.tlc('MichMacroMC', CFG, gen=gen, timeout=1500, coverage=False)
    ctx.require_no_violation(r, 'MichMacro')
    outs = [v for v in r.printed if v[0] == 'OUT']
    kinds = set()
    for v in sorted(outs, key=repr):
        _, name, bodies, st, res = v
        ok = compare(ctx, name, bodies, st, res)
        ctx.again(compare, ctx, name, bodies, st, res)
        kinds.add(name)
        ctx.replayed += 1
        ctx.count((name, bodies, st), nontrivial=True)
        if ok and ctx.replayed % 97 == 1:
            ctx.sample({'macro': name, 'bodies': bodies, 'stack': st, 'model_result': res}, limit=8)
    if len(kinds) < len({m_[0] for m_ in ms}):
        raise Exception('vacuity: too few macro kinds exported')
    ctx.extra['macro_names'] = len(kinds)
    long_paths(ctx)
    ctx.second_pass()
    ctx.exhaustive = True


def replay(ctx, rep):
    c = rep['case']
    tup = lambda x: tuple(tup(y) for y in x) if isinstance(x, list) else x
    ok = compare(ctx, c['name'], tup(c['bodies']), tup(c['st']), tup(c['res']))
    for m_ in ctx.mismatches:
        print('REPRODUCED', m_.signature, m_.detail[:800])
    return 0 if ok else 1


META = {
    'category': 'model_checking',
    'text': ('MichMacro.tla generates each macro *name* from its structure (PAIR trees, C[AD]+R paths, DII..P depth, comparison operator) and gives its *meaning* directly '
             'on the typed stack of the reference semantics, not by expansion. TLC evaluates every macro of the universe on its stack pool and checks the laws between macros; '
             'each case is replayed by feeding the macro text to the pytezos parser/expander and executing the expansion, comparing the stack or failure.'),
    'design_ref': 'DESIGN.md section 5 C19, A.11',
    'note': 'Trusted: my reading of the macro definitions of the Michelson reference, MichSem.tla, terms.py. Bounds: PAIR trees <= 5 (6) leaves, paths <= 3 (4), DII..P / DUU..P depth <= 4 (5); plus 196 C[AD]+R / SET_C[AD]+R paths of 5..40 letters run against the direct meaning.',
    'technique': 'TLA+ direct macro semantics + TLC law checking; exhaustive replay through the pytezos parser, macro expander and interpreter',
}
