"""C25 - injected operations carry the account's next counters.  Spec: OpClient.tla (+ OpClientTrace.tla)."""
import json, os, random, re

from .. import tlaparse
from ..tlaparse import iter_dump, to_json

CFG = """SPECIFICATION Spec
CONSTANTS Families <- FamiliesDef
 Repaired = {%s}
"""
# Deviations of the as-coded machine that have been repaired in /repo (see OpClient.tla, constant Repaired).  On the tree as found
# this is empty.  After a repair of get_counter_offset ("validated-mempool") or of autofill's failure path ("failed-simulation")
# add the name here (VERIF_C25_REPAIRED overrides it for experiments on a patched copy).
REPAIRED = ("validated-mempool", "failed-simulation")


def repaired():
    v = os.environ.get('VERIF_C25_REPAIRED')
    names = tuple(x for x in v.split(',') if x) if v is not None else REPAIRED
    return ', '.join('"%s"' % x for x in names)


INV_AS_CODED = "INVARIANT CountersOKmodDev\nINVARIANT DevIsReal\nINVARIANT NodeRule\nINVARIANT MempoolConsecutive\n"
INV_IDEAL = "INVARIANT CountersOK\n"
ALL = ('fill', 'autofill', 'autofail', 'send', 'inject', 'bake')
CLASSES = ('stale-cache-after-failed-simulation', 'stale-cache-after-abandoned-fill', 'plain-fill-with-nonempty-mempool',
           'autofill-ignores-validated-mempool', 'stale-cache-after-block', 'inject-between-pipelined-fills',
           'pipelined-fills-in-separate-contexts')
CHAIN0 = 10


def fam(name, key, calls, built=1, nctx=1, batches=(2,), acts=ALL, groups=None):
    """One family = one bounds record of OpClient.tla (Init picks a record of the constant Families)."""
    return dict(name=name, key=key, calls=calls, built=built, ctx=nctx, batches=frozenset(batches), acts=frozenset(acts),
                groups=groups or built + calls, chain0=CHAIN0)


def wrapper(fams):
    """OpClientMC: the families as a TLA+ set of records (a .cfg cannot hold records)."""
    return ('---- MODULE OpClientMC ----\nEXTENDS OpClient\nFamiliesDef == {\n  %s }\n====\n'
            % ',\n  '.join(tlaparse.to_tla(f) for f in fams))


def families(quick):
    """Families share OpClient.tla and differ in the constants only."""
    auto = ('autofill', 'inject', 'bake')
    two = ('fill', 'autofill', 'send', 'inject')
    if quick:
        return [fam('A-applied', 'applied', 5), fam('A-validated', 'validated', 4),
                fam('B-applied', 'applied', 4, built=2, nctx=2, batches=(1,), acts=('fill', 'autofill', 'inject')),
                fam('B-shared', 'applied', 3, built=2, nctx=1, batches=(1, 2)),
                fam('P-applied', 'applied', 7, batches=(1,), acts=auto), fam('P-validated', 'validated', 6, batches=(1,), acts=auto),
                fam('P-split', 'split', 6, batches=(1,), acts=auto)]
    pipe = ('fill', 'autofill', 'inject', 'bake')
    return [fam('A-applied', 'applied', 6), fam('A-validated', 'validated', 6),
            fam('B-applied', 'applied', 4, built=2, nctx=2, batches=(1, 2)),
            fam('B-validated', 'validated', 4, built=2, nctx=2, batches=(1,), acts=two),
            fam('B3-applied', 'applied', 4, built=3, nctx=3, batches=(1,), acts=two),
            fam('P-applied', 'applied', 8, batches=(1,), acts=pipe), fam('P-validated', 'validated', 8, batches=(1,), acts=auto),
            fam('P-split', 'split', 7, batches=(1,), acts=auto)]


# ------------------------------------------------------------------ Leg B
def judge(ctx, rec, model, followed, case, where):
    """One observed injection `rec` (from the fake node) against the property and the as-coded model entry.
    Returns True when the implementation still follows the as-coded machine."""
    got, want = rec.get('got'), rec.get('want')
    if rec.get('decoded') is None:
        ctx.mismatch('C25:%s:payload-undecodable' % where, 'the injected payload is not a signed manager operation group: %s' % rec.get('error'), case)
        return False
    same = model is not None and list(model['got']) == got
    if got == want:
        if rec.get('raised'):      # not part of the property: noted, not judged
            ctx.extra['inject_raised_although_node_accepted'] = ctx.extra.get('inject_raised_although_node_accepted', 0) + 1
        return same
    # the property is violated for this injection: got # chain counter + pending + 1..
    if rec.get('behind_refused'):
        ctx.skip('injection of a group that was filled behind a group the node later refused (outside the compared domain)')
        return same
    detail = ('injected counters %s, the node (counter %d, %d pending) demands %s' % (got, rec['chain_ctr'], rec['pending'], want)
              + '\nhistory=%s' % json.dumps(case.get('hist')))
    if followed and same and model['cls'] in CLASSES:
        ctx.mismatch('C25:' + model['cls'], detail + '\n(the as-coded machine of OpClient.tla predicts exactly these counters; class %s)' % model['cls'], case)
        return True
    ctx.mismatch('C25:unexplained', detail + '\nas-coded model: %s' % (to_json(model),), case)
    return False


def replay_history(ctx, hist, log, key_kind, mempool_key, where='replay'):
    """Run one history of OpClient.tla through the real client; compare every injection."""
    from ..opclient import Session, make_key
    hist = [tuple(e) for e in hist]
    per_ctx = {}
    for e in hist:
        if e[0] == 'build':
            per_ctx[e[2]] = per_ctx.get(e[2], 0) + 1
    s = Session(make_key(key_kind), chain0=CHAIN0, mempool_key=mempool_key, root_ctx=[c for c, n in per_ctx.items() if n > 1])
    case = {'hist': to_json(hist), 'log': to_json(log), 'key': key_kind, 'mempool_key': mempool_key}
    by_at = {}
    ncall = 0
    for l in log:
        by_at[l['at']] = l
    followed = True
    ninj = 0
    for e in hist:
        if e[0] == 'build':
            s.build(e[1], e[2])
            continue
        ncall += 1
        try:
            if e[0] == 'fill':
                s.fill(e[1])
            elif e[0] == 'autofill':
                s.autofill(e[1], e[2])
            elif e[0] == 'bake':
                s.bake()
            elif e[0] in ('inject', 'send'):
                rec = s.inject(e[1]) if e[0] == 'inject' else s.send(e[1])[1]
                ninj += 1
                followed = judge(ctx, rec, by_at.get(ncall), followed, case, where) and followed
            else:
                raise KeyError(e)
        except (ValueError, TypeError, AttributeError) as ex:
            # the client itself refuses a call of a history the model performs (the node was never the one to complain)
            ctx.mismatch('C25:%s:client-raises:%s:%s' % (where, e[0], type(ex).__name__), 'call #%d %s of %s raised %s: %s' % (ncall, e[0], to_json(hist), type(ex).__name__, str(ex)[:200]), case)
            return ninj
    if s.node.unknown:
        raise RuntimeError('FakeNode does not know %s' % s.node.unknown[:3])
    return ninj


def counterexample_hist(output):
    """Final `hist` and `log` of the error trace TLC printed."""
    i = output.find('The behavior up to this point is')
    if i < 0:
        return None
    blocks = tlaparse._state_split.split(output[i:])[1:]
    blocks[-1] = re.split(r'^\d+ states generated|^Finished|^The number of states', blocks[-1], flags=re.M)[0]
    st = tlaparse._parse_state(blocks[-1])
    return {'hist': to_json(st['hist']), 'log': to_json(st['log'])}


def bulk_scenarios(ctx):
    """client.bulk(..) over groups that have already been filled / autofilled: the batch is a new, unfilled group - once filled and
    injected it carries the account's next counters like any other group (the model: Build of n contents, then the usual steps)."""
    from ..opclient import Session, make_key
    for pending in (0, 1):
        for how in ('fill', 'autofill'):
            for mk in ('validated', 'applied'):
                s = Session(make_key('tz1'), chain0=CHAIN0, mempool_key=mk, root_ctx=())
                if pending:
                    g0 = s.build(1, 9)
                    s.send(g0)
                a, b = s.build(1, 1), s.build(2, 2)
                fa = s.fill(a) if how == 'fill' else s.autofill(a, True)
                fb = s.autofill(b, True)
                batch = s.client.bulk(s.groups[fa - 1], s.groups[fb - 1])
                before = len(s.node.injections)
                case = {'bulk': True, 'pending': pending, 'how': how, 'mempool_key': mk}
                try:
                    batch.autofill().sign().inject()
                except Exception as e:   # noqa
                    if len(s.node.injections) == before:
                        ctx.mismatch('C25:bulk:raises-%s' % type(e).__name__, 'bulk of a %sed and an autofilled group, autofill, inject raised %s: %s' % (how, type(e).__name__, str(e)[:200]), case)
                        continue
                rec = s.node.injections[-1]
                ctx.count(('bulk', pending, how, mk), nontrivial=True)
                ctx.replayed += 1
                if rec.get('got') != rec.get('want'):
                    ctx.mismatch('C25:bulk:wrong-counters', 'bulk(%sed group, autofilled group of 2).autofill().inject() with %d operation(s) pending (%s): injected counters %s, the node demands %s' % (
                        how, pending, mk, rec.get('got'), rec.get('want')), case)


def override_scenarios(ctx):
    """autofill with explicit fee / gas_limit / storage_limit (any subset, all three included) while operations of the account are pending: what the caller
    overrides is the price, not the counter"""
    from ..opclient import Session, make_key
    import itertools
    names = ('fee', 'gas_limit', 'storage_limit')
    for mk in ('validated', 'applied'):
        for pending in (0, 1, 2):
            for r in (1, 2, 3):
                for subset in itertools.combinations(names, r):
                    s = Session(make_key('tz1'), chain0=CHAIN0, mempool_key=mk, root_ctx=())
                    for k_ in range(pending):
                        s.send(s.build(1, 10 + k_))
                    g = s.build(1, 1)
                    kw = {k: {'fee': 5000, 'gas_limit': 20000, 'storage_limit': 300}[k] for k in subset}
                    case = {'overrides': list(subset), 'pending': pending, 'mempool_key': mk}
                    before = len(s.node.injections)
                    try:
                        s.groups[g - 1].autofill(**kw).sign().inject()
                    except Exception as e:   # noqa
                        if len(s.node.injections) == before:
                            ctx.mismatch('C25:overrides:raises-%s' % type(e).__name__, 'autofill(%s) with %d pending raised %s: %s' % (', '.join(subset), pending, type(e).__name__, str(e)[:200]), case)
                            continue
                    rec = s.node.injections[-1]
                    ctx.count(('overrides', mk, pending, subset), nontrivial=pending > 0)
                    ctx.replayed += 1
                    if rec.get('got') != rec.get('want'):
                        ctx.mismatch('C25:overrides:wrong-counters', 'autofill(%s).inject() with %d operation(s) pending (%s): injected counters %s, the node demands %s' % (
                            ', '.join(subset), pending, mk, rec.get('got'), rec.get('want')), case)


def mempool_outage_scenarios(ctx):
    """The node does not serve its mempool for one request while operations of the account are pending: whatever the client does then (give up, ask again),
    a group that does reach the node carries the next counters."""
    from ..opclient import Session, make_key
    for mk in ('validated', 'applied'):
        for pending in (1, 2):
            for how, skip in (('autofill', 0), ('autofill', 1), ('autofill', 2), ('send', 0), ('send', 1), ('send', 2)):      # the outage hits the 1st / 2nd / 3rd mempool request of the call
                # (fill() alone never looks at the mempool: the recorded finding about fill and pending operations)
                s = Session(make_key('tz1'), chain0=CHAIN0, mempool_key=mk, root_ctx=())
                for k_ in range(pending):
                    s.send(s.build(1, 10 + k_))
                g = s.groups[s.build(1, 1) - 1]
                before = len(s.node.injections)
                s.node.mempool_failures, s.node.mempool_skip = 1, skip
                case = {'mempool_outage': True, 'pending': pending, 'how': how, 'skip': skip, 'mempool_key': mk}
                try:
                    if how == 'send':
                        g.send()
                    else:
                        (g.autofill() if how == 'autofill' else g.fill()).sign().inject()
                except Exception:   # noqa: giving up is fine
                    pass
                s.node.mempool_failures = 0
                ctx.count(('outage', mk, pending, how, skip), nontrivial=True)
                ctx.replayed += 1
                for rec in s.node.injections[before:]:
                    if rec.get('got') != rec.get('want'):
                        ctx.mismatch('C25:mempool-outage:wrong-counters', '%s with %d operation(s) pending while the node refuses one mempool request (%s): a group reached the node with counters %s, the node demands %s' % (
                            how, pending, mk, rec.get('got'), rec.get('want')), case)
                        break


def contract_call_scenarios(ctx):
    """The same histories entered through a contract interface: contract.default(..) is a call object; .as_transaction() builds a group, .autofill() on it
    is a fill that injects nothing (a cost preview), .send() fills and injects.  Each send carries the account's next counters."""
    from ..opclient import Session, make_key
    KT = 'KT1PWx2mnDueood7fEmfbBDKx1D9BAnnXitn'
    scripts = (('send', 'send'), ('preview', 'send'), ('send', 'preview', 'send', 'send'), ('preview', 'preview', 'send', 'preview', 'send'), ('fillonly', 'send', 'send'))
    for mk in ('validated', 'applied'):
        for script in scripts:
            s = Session(make_key('tz1'), chain0=CHAIN0, mempool_key=mk, root_ctx=())
            case = {'contract_call': True, 'script': list(script), 'mempool_key': mk}
            try:
                contract = s.client.contract(KT)
                for n, step in enumerate(script):
                    call = contract.default().with_amount(n + 1)
                    if step == 'preview':
                        call.as_transaction().autofill()
                    elif step == 'fillonly':
                        call.as_transaction().fill()
                    else:
                        call.send()
            except Exception as e:   # noqa
                ctx.mismatch('C25:contract-call:raises-%s' % type(e).__name__, 'contract call history %s raised %s: %s' % (list(script), type(e).__name__, str(e)[:200]), case)
                continue
            ctx.count(('contract-call', mk, script), nontrivial=True)
            ctx.replayed += 1
            sends = [k for k, st in enumerate(script) if st == 'send']
            if len(s.node.injections) != len(sends):
                ctx.mismatch('C25:contract-call:injections', 'contract call history %s: %d injections reached the node, %d sends' % (list(script), len(s.node.injections), len(sends)), case)
                continue
            for k, rec in enumerate(s.node.injections):
                if rec.get('got') != rec.get('want'):
                    ctx.mismatch('C25:contract-call:wrong-counters', 'contract call history %s (%s): injection #%d carries counters %s, the node demands %s' % (
                        list(script), mk, k + 1, rec.get('got'), rec.get('want')), case)
                    break


def run(ctx):
    ctx.rule = ('Leg A: OpClient.tla (the client as coded + the ideal counter rule) model-checked per family (all call histories up to the '
                'bound, builds first in canonical order); Leg B: every history that ends with an injection is replayed through the real client '
                'against FakeNode and the counters decoded from the injected binary payload are compared with the node state (ideal) and with '
                'the as-coded machine; a case is non-trivial if the group was injected with a non-empty mempool, from a cached counter or '
                'after a failed simulation; Leg C: random call histories recorded at the client/fake node and validated by OpClientTrace')
    ctx.assumptions = [
        'FakeNode (harness/vf/fakenode.py) is a simulated node for one account; it accepts an injection iff the counters decoded from the binary payload are counter+pending+1..; no pytezos function is patched',
        'domain: groups are injected in the order in which they were filled, each at most once; filled groups may be abandoned',
        'injections of groups filled behind a group whose injection the node later refused are outside the compared domain (counted as skipped)',
        'the legacy mempool RPC form ("applied") and the current one ("validated", Octez >= v19) are both simulated, as separate families; a third family serves the oldest pending operation under "validated" and the later ones under "unprocessed"',
        'sign() is part of the inject step of a history (signing does not touch counters; C23 covers it)',
    ]
    exemplars = {}
    fams = families(ctx.quick)
    # one TLC run for all families: Init picks the bounds record (constant Families of the generated wrapper module)
    r = ctx.tlc('OpClientMC', CFG % repaired() + INV_AS_CODED, name='OpClientMC', dump=True, timeout=1500, gen={'OpClientMC': wrapper(fams)},
                workers=4 if ctx.quick else None)
    ctx.require_no_violation(r, 'OpClient')
    ctx.require_coverage(r, ['ABuild', 'AFill', 'AAutofill', 'AAutofillFail', 'ASend', 'AInject', 'ABake'])
    bulk_scenarios(ctx)
    contract_call_scenarios(ctx)
    override_scenarios(ctx)
    mempool_outage_scenarios(ctx)
    per_family = {}
    for st in iter_dump(r.dump):
        log, hist, f = st['log'], st['hist'], st['fam']
        if not log or log[-1]['at'] != st['calls']:
            continue          # replay histories at the moment of an injection (every injection is the last event of one state)
        last = log[-1]
        c = last['cls']
        if c in CLASSES and (c not in exemplars or len(hist) < len(exemplars[c]['hist'])):
            exemplars[c] = {'hist': to_json(hist), 'got': list(last['got']), 'want': list(last['want']), 'mempool_key': f['key']}
        replay_history(ctx, hist, log, 'tz1', f['key'])
        ctx.replayed += 1
        per_family[f['name']] = per_family.get(f['name'], 0) + 1
        ctx.count((f['key'], hist), nontrivial=c != 'ok' or any(e[0] in ('bake',) for e in hist) or len(log) > 1)
        if c != 'ok' and len(hist) <= 5:
            ctx.sample({'family': f['name'], 'hist': hist, 'injected': last['got'], 'demanded': last['want'], 'class': c}, limit=8)
    missing = [f['name'] for f in fams if f['name'] not in per_family]
    if missing:
        raise RuntimeError('vacuity: no injection replayed for families %s' % missing)
    ctx.extra['histories_replayed_per_family'] = per_family
    ctx.exhaustive = True
    # ---- the ideal property on the as-coded machine: expected to be violated; TLC's shortest counterexample is recorded ----
    ideal = {}
    r = ctx.tlc('OpClientMC', CFG % '' + INV_IDEAL, name='OpClientMC-ideal', workers=1, timeout=600, coverage=False,
                gen={'OpClientMC': wrapper([fam('ideal-applied', 'applied', 4), fam('ideal-validated', 'validated', 4)])})
    ideal = {'violated': r.violation, 'counterexample': counterexample_hist(r.output) if r.violation else None}
    ctx.extra['ideal_invariant_on_as_coded_machine'] = ideal
    ctx.extra['shortest_history_per_deviation_class'] = exemplars
    if ideal['violated'] is None:
        ctx.notes.append('CountersOK (ideal) is no longer violated by the as-coded machine: OpClient.tla has been changed')
    # ---- Leg C ----
    leg_c(ctx)


# ------------------------------------------------------------------ Leg C
TCFG = """SPECIFICATION Spec
CONSTANTS Families = {}
 MaxCtx = %d
 Repaired = {%s}
POSTCONDITION Accepted
"""
MAXCTX_C = 4


def record_history(rng, key_kind, mempool_key, nsteps):
    """A random client session (not derived from the spec): returns the recorded events."""
    from ..opclient import Session, make_key
    chain0 = rng.choice([0, 3, 10, 127, 128, 16383, 70000])
    s = Session(make_key(key_kind), chain0=chain0, mempool_key=mempool_key, root_ctx=(),
                kinds=rng.choice([('transaction',), ('transaction', 'delegation', 'reveal'), ('transaction', 'origination')]))
    ev = [{'ev': 'init', 'chain': chain0, 'key': mempool_key}]
    nctx = 0
    unfilled, filled = [], []
    for _ in range(nsteps):
        st = {'chain': s.node.chain_ctr, 'pend': s.node.pending()}
        choices = ['build'] * (2 if len(unfilled) < 3 else 0)
        if unfilled:
            choices += ['fill', 'autofill', 'autofill', 'autofail', 'send', 'send']
        inj = [g for g in filled if g > s.last_inj]
        if inj:
            choices += ['inject'] * 3
        if s.node.mempool:
            choices += ['bake'] * 2
        a = rng.choice(choices)
        if a == 'build':
            shared = sorted(s.root_ctx)
            if shared and rng.random() < 0.4:
                c = rng.choice(shared)           # another group derived from an existing root group (shared context)
            elif nctx < MAXCTX_C:
                c = nctx + 1                     # client.transaction(..): a new context ...
                if rng.random() < 0.4:
                    s.root_ctx.add(c)            # ... or a new root group
            elif shared:
                c = rng.choice(shared)
            else:
                continue
            nctx = max(nctx, c)
            k = rng.choice([1, 1, 2, 3, 4])
            g = s.build(k, c)
            unfilled.append(g)
            ev.append(dict(st, ev='build', k=k, cx=c, new=g))
        elif a in ('fill', 'autofill', 'autofail'):
            g = rng.choice(unfilled)
            if a == 'fill':
                new = s.fill(g)
            else:
                new = s.autofill(g, a == 'autofill')
            if new is None:
                ev.append(dict(st, ev='autofail', g=g))
            else:
                filled.append(new)
                ev.append(dict(st, ev='fill', g=g, new=new, plain=a == 'fill', ctrs=s.meta[new - 1]['ctrs']))
        elif a == 'send':
            g = rng.choice(unfilled)
            new, rec = s.send(g)
            filled.append(new)
            ev.append(dict(st, ev='fill', g=g, new=new, plain=False, ctrs=rec.get('got') or []))
            ev.append(dict(st, ev='inject', g=new, got=rec.get('got') or [], want=rec.get('want') or [], accepted=rec['accepted'],
                           behind=rec['behind_refused']))
        elif a == 'inject':
            g = rng.choice(inj)
            rec = s.inject(g)
            ev.append(dict(st, ev='inject', g=g, got=rec.get('got') or [], want=rec.get('want') or [], accepted=rec['accepted'],
                           behind=rec['behind_refused']))
        elif a == 'bake':
            s.bake()
            ev.append(dict(st, ev='bake'))
    if s.node.unknown:
        raise RuntimeError('FakeNode does not know %s' % s.node.unknown[:3])
    return ev


def validate_traces(ctx, traces, sig='C25:trace'):
    tf = os.path.join(ctx.wd, 'traces.json')
    json.dump(traces, open(tf, 'w'))
    r = ctx.tlc('OpClientTrace', TCFG % (MAXCTX_C, repaired()), name='OpClientTrace', workers=1, env={'TRACE_FILE': tf}, timeout=900, coverage=False)
    rejects = [v for v in r.printed if v[0] == 'REJECT']
    devs = [v for v in r.printed if v[0] == 'INFO' and v[1] == 'DEV']
    if r.violation and not rejects:
        ctx.mismatch(sig + ':' + str(r.violation), 'TLC: %s on the recorded traces\n%s' % (r.violation, r.output[-1500:]), {'traces_file': tf})
    bad = set()
    for v in rejects:
        tid, l, clause = v[1], v[2], v[3]
        bad.add(tid)
        ctx.mismatch('C25:unexplained' if clause == 'counters' else sig + ':' + str(clause),
                     'recorded execution is not explained by the property or the as-coded machine: %s\ntrace=%s' % (to_json(v), json.dumps(traces[tid - 1])),
                     {'trace': traces[tid - 1]})
    for v in devs:
        tid, l, cls = v[2], v[3], v[4]
        e = traces[tid - 1][l - 1]
        ctx.mismatch('C25:' + cls, 'recorded injection carries counters %s, the node demands %s (class %s predicted by the as-coded machine)\ntrace=%s'
                     % (e['got'], e['want'], cls, json.dumps(traces[tid - 1][:l])), {'trace': traces[tid - 1]})
    skips = [v for v in r.printed if v[0] == 'INFO' and v[1] == 'SKIP']
    if skips:
        ctx.skip('injection of a group that was filled behind a group the node later refused (outside the compared domain)', len(skips))
    ctx.traces += len(traces) - len(bad)
    return r


def leg_c(ctx):
    rng = random.Random(ctx.seed * 7919 + 25)
    ntr = 150 if ctx.quick else 3000
    traces = []
    for t in range(ntr):
        key_kind = 'tz1' if ctx.quick or t % 3 == 0 else rng.choice(['tz2', 'tz3'])
        ev = record_history(rng, key_kind, rng.choice(['applied', 'applied', 'validated']), rng.randint(4, 14))
        traces.append(ev)
        ctx.count(('c', t), nontrivial=sum(1 for e in ev if e['ev'] == 'inject') > 0)
    validate_traces(ctx, traces)
    if traces:
        ctx.sample({'recorded_trace': traces[0]}, limit=10)


def replay(ctx, rep):
    c = rep['case']
    if 'hist' in c:
        hist = tlaparse.P(tlaparse.to_tla(_tup(c['hist']))).val()
        log = [dict(l, got=tuple(l['got']), want=tuple(l['want'])) for l in c['log']]
        replay_history(ctx, hist, log, c.get('key', 'tz1'), c.get('mempool_key', 'applied'))
    elif 'trace' in c:
        validate_traces(ctx, [c['trace']])
    return report_replay(ctx, rep)


def _tup(v):
    return tuple(_tup(x) for x in v) if isinstance(v, list) else v



def report_replay(ctx, rep):
    """exit 1 iff the saved disagreement (same signature) shows again."""
    hits = [m for m in ctx.mismatches if m.signature == rep.get('signature')]
    for m in hits:
        print('REPRODUCED', m.signature, m.detail)
    for sig in sorted(set(m.signature for m in ctx.mismatches if m not in hits)):
        print('NOT-THE-SAVED-CASE: this run shows', sig)
    if not hits:
        print('not reproduced:', rep.get('signature'))
    return 1 if hits else 0


META = {
    'category': 'model_checking',
    'text': ('OpClient.tla states the counter rule of the property (an injected group carries account counter + pending + 1..) and, separately, '
             'the client as it is coded (per-context cached counter, fill/autofill/send/inject/reset, mempool offset). TLC checks on every call '
             'history up to the bound that the as-coded machine leaves the rule only in named deviation classes (and records its counterexamples '
             'to the ideal rule); every history ending in an injection is replayed through the real client against a simulated node, the '
             'counters decoded from the injected binary payload must be the ideal ones or exactly the as-coded machine\'s (known-finding classes), '
             'anything else is C25:unexplained; random recorded sessions are validated by TLC against OpClientTrace.tla.'),
    'design_ref': 'DESIGN.md section 5 C25, A.5, D.7',
    'note': ('Trusted: FakeNode (one-account node simulator incl. its binary decoder), the history -> client call mapping (harness/vf/opclient.py). '
             'Bounds (builds not counted): quick <= 5 calls on one context, <= 4 on two contexts / two built groups, <= 7 for the autofill/inject/bake alphabet; '
             'thorough <= 6, <= 4 (three contexts), <= 8; batches <= 2 (4 in recorded sessions); both mempool RPC forms.'),
    'technique': 'TLA+ spec + TLC exhaustive model checking; spec-behaviour replay into the real operation client against a simulated node; TLC trace validation of recorded sessions',
}
