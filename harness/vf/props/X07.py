"""X07 (not a listed property: growth of the specification) - TZIP-16 contract metadata, TZIP-12 token metadata and TZIP-16 off-chain
views follow spec/MetadataUri.tla, spec/MetadataUriToken.tla and spec/MetadataUriView.tla.

Leg A: TLC checks the declarative invariants of the three modules, in one run per module both on the intended behaviour (devs = {}) and
on the behaviour AS CODED (devs = the named deviations):
  MetadataUri       the document obtained is the one the author's intent denotes; a tezos-storage key is percent-decoded exactly once; host,
                    network and contract are recovered from the text; a sha256 URI resolves to what its inner URI resolves to; http URIs are
                    fetched verbatim, IPFS documents from <gateway>/<cid><path>; nothing is followed beyond the document, a self reference ends
                    in an error; the second access gives what the first gave, a cached value costs no request; None iff there is no URI; the
                    chain is read as of one block; only contracts named by the URI are asked for; only named deviations make a difference
  MetadataUriToken  the token's metadata is what the ledger says, whether the off-chain view is declared or not (on top of the URI resolver)
  MetadataUriView   a view is a function of its argument and of the storage as of the bound block (or of the caller's storage)
Leg B: every behaviour exported by TLC for the AS CODED choice is replayed through the public API with a simulated node (RpcNode subclass)
and a stubbed HTTP transport:
  pytezos.using(shell=ShellQuery(node)[, ipfs_gateway=..]).contract(KT1..)[.using(block_id=.. / ipfs_gateway=..)].metadata (twice), .metadata_url
  ....token_metadata[0] (twice)            ....metadata.<view>(argument).storage_view([storage=..])
and the document / None / failure, the URI, the big_map keys looked up, the URLs fetched, the contracts asked for and the blocks read are
compared with the model's.

VERIF_X07_FIXED=1 replays the intended model only, VERIF_X07_FIXED=Name,Name,.. the model without the named deviations (to try a patched tree)."""
import hashlib, json, os

from .. import x07_world as W
from ..tlaparse import to_json, to_tla

KEYS = ['', 'm', 'a/b', 'a%2Fb', '/m']
WEB = ['https://example.com/meta.json', 'http://example.com/meta.json', 'https://example.com/dir/meta.json?v=1', 'https://example.com/a%2Fb.json']
CID = 'QmPK1s3pNYLi9ERiq3BDxKa4XosgWwFRQUydHUtz4YgpqB'
IPFS_PATHS = ['', '/meta.json', '/dir/meta.json']
CUSTOM_GATEWAY = 'https://gw.example/ipfs/'
RAW = ['', 'm', 'ftp://example.com/meta.json', 'tezos-storage', 'file:///etc/hostname', 'tezos_storage:m', '1http://example.com/meta.json']
LAYOUTS = ['top', 'flat', 'named', 'second', 'none', 'map', 'renamed']
DEVIATIONS = {
    'KeyNotDecoded': 'the path of a tezos-storage URI is used as the big_map key without percent-decoding (TZIP-16: the key is percent-encoded)',
    'HostNetworkNotSplit': 'tezos-storage://KT1...<.network>/key: the whole authority is taken for the contract address',
    'NestedMapNotReached': "the document is read with storage['metadata'] (top-level field) although metadata_url finds the %metadata big_map anywhere in the storage",
    'IpfsPathDropped': 'ipfs://<cid>/<path>: the path below the content identifier is dropped (from_ipfs(parsed_url.netloc))',
    'ClientGatewayLost': 'an IPFS gateway configured with pytezos.using(ipfs_gateway=..) is lost by .contract(); the default gateway is asked',
    'StatusIgnored': 'the body of a non-200 HTTP response is taken for the document (requests.get(url).json() without a look at the status)',
    'Sha256Unsupported': 'sha256:// URIs are refused with NotImplementedError',
    'HostReadAtHead': 'tezos-storage://KT1.../key: the named contract is read at the head although the contract interface is bound to another block '
                      '(_spawn_context(address=..) without the block id)',
}
PAST_BLOCK = 100
OTHER_URI = 'tezos-storage:m'        # what Other's key "" holds
FAULT_BODY = {'notjson': b'{"name": oops', 'badschema': b'{"name": 5}', 'notutf8': b'\xff\xfe{}', 'errjson': b'{"error": "not found"}',
              'absent': b'404 page not found\n'}


FIELDS = {'name': b'tok0', 'symbol': b'T0', 'decimals': b'3'}          # a token_info that carries the fields itself
FIELDS_DOC = {'name': 'tok0', 'symbol': 'T0', 'decimals': 3}
DOC_KEY = 'm'


def T(s):
    return tuple(s.encode() if isinstance(s, str) else s)


def S(t):
    return bytes(t).decode('latin-1')


# ---------------------------------------------------------------- the documents of the base world
def loc_label(loc):
    if loc[0] == 'bm':
        return 'bm/%s/%s' % (loc[1], S(loc[2]))
    return '%s/%s' % (loc[0], S(loc[1]))


MODE = ['contract']        # 'contract': the documents are TZIP-16 contract metadata; 'token': TZIP-21 token metadata


def doc_json(loc):
    return {'name': loc_label(loc), 'version': '1'} if MODE[0] == 'contract' else {'name': loc_label(loc), 'decimals': 0}


def doc_body(loc):
    return json.dumps(doc_json(loc)).encode()


def base_locs():
    for c in ('self', 'other'):
        for k in KEYS:
            if k:
                yield ('bm', c, T(k))
    for u in WEB:
        yield ('web', T(u))
    for p in IPFS_PATHS:
        yield ('ipfs', T(CID + p))


LABEL_TO_LOC = {loc_label(l): l for l in base_locs()}


def set_universe(thorough):
    """the thorough tier adds keys with a reserved character and with a literal percent sign"""
    KEYS[:] = ['', 'm', 'a/b', 'a%2Fb', '/m'] + (['a?b', '100%'] if thorough else [])
    LABEL_TO_LOC.clear()
    LABEL_TO_LOC.update({loc_label(l): l for l in base_locs()})


def body_of(token):
    if token[0] == 'doc':
        return doc_body(token[1])
    if token[0] == 'text':
        return OTHER_URI.encode()
    return FAULT_BODY[token[0]]


def hexhash(b):
    return hashlib.sha256(b).hexdigest()


MC = """---- MODULE {Module} ----
EXTENDS {Base}
SelfV == {Self}
OtherV == {Other}
GhostV == {Ghost}
ChainIdV == {ChainId}
OtherChainV == {OtherChain}
KeysV == {Keys}
WebUrlsV == {WebUrls}
CidsV == {Cids}
IpfsPathsV == {IpfsPaths}
DefaultGatewayV == {DefaultGateway}
GatewaysV == {Gateways}
RawUrisV == {RawUris}
BadHashV == {BadHash}
DocKeyV == {DocKey}
HashOfV(b) == CASE {HashCases}
                [] OTHER -> BadHashV
ASSUME TS = {TS} /\\ HTTP = {HTTP} /\\ HTTPS = {HTTPS} /\\ IPFS = {IPFS} /\\ SHA = {SHA}
ASSUME <<Colon, Slash, Percent, Dot, Zero, LowerX>> = {Chars}
ASSUME \\A l \\in {{ {Docs} }} : HashOfV(<<"doc", l>>) # BadHashV
====
"""
CFG = """SPECIFICATION {spec}
CONSTANTS Self <- SelfV
 Other <- OtherV
 Ghost <- GhostV
 ChainId <- ChainIdV
 OtherChain <- OtherChainV
 Keys <- KeysV
 WebUrls <- WebUrlsV
 Cids <- CidsV
 IpfsPaths <- IpfsPathsV
 DefaultGateway <- DefaultGatewayV
 Gateways <- GatewaysV
 RawUris <- RawUrisV
 BadHash <- BadHashV
 HashOf <- HashOfV
 ErrJsonValid = {errjson}
 Styles = {styles}
 ShaStyles = {shastyles}
 Layouts = {layouts}
 ProbeOnly = {probe}
 MaxNest = {nest}
 DevChoices = {choices}
 Replayed = {devs}
{extra}{invs}
"""
INVARIANTS = ['ResultIsIntended', 'OnlyNamedDeviations', 'KeyDecodedOnce', 'DecoderAgrees', 'HostRecovered', 'ShaTransparent', 'FetchedVerbatim',
              'Bounded', 'SelfReferenceFails', 'Deterministic', 'CachedNoIO', 'NoneIffNoUri', 'IntendedModeIsClean', 'AskedOnlyNamed', 'ReadsOneBlock']
TOKEN_INVARIANTS = ['TokenResultIsIntended', 'TokenOnlyNamedDeviations', 'ViewAndStorageAgree', 'TokenBounded', 'KeyDecodedOnce', 'DecoderAgrees',
                    'HostRecovered', 'ShaTransparent', 'FetchedVerbatim', 'IntendedModeIsClean', 'AskedOnlyNamed', 'ReadsOneBlock']
VIEW_INVARIANTS = ['ResultIsIntended', 'OnlyNamedDeviations', 'ReadsOneBlock', 'GivenIsSelfContained']


def mc_module(module, base):
    """the constants of the universe as TLA+ definitions; the SHA-256 of every body the simulated world can serve is computed here"""
    tokens = [('doc', l) for l in base_locs()] + [('text',)] + [(k,) for k in FAULT_BODY]
    cases = '\n                [] '.join('b = %s -> %s' % (to_tla(t), to_tla(T(hexhash(body_of(t))))) for t in tokens)
    return MC.format(
        Module=module, Base=base,
        Self=to_tla(T(W.SELF)), Other=to_tla(T(W.OTHER)), Ghost=to_tla(T(W.GHOST)), ChainId=to_tla(T(W.CHAIN)), OtherChain=to_tla(T(W.OTHER_CHAIN)),
        Keys='{' + ', '.join(to_tla(T(k)) for k in KEYS) + '}', WebUrls='{' + ', '.join(to_tla(T(u)) for u in WEB) + '}',
        Cids='{' + to_tla(T(CID)) + '}', IpfsPaths='{' + ', '.join(to_tla(T(p)) for p in IPFS_PATHS) + '}',
        DefaultGateway=to_tla(T(W.DEFAULT_GATEWAY)),
        Gateways='{' + ', '.join(to_tla(g) for g in [('default', T(W.DEFAULT_GATEWAY)), ('client', T(CUSTOM_GATEWAY)), ('contract', T(CUSTOM_GATEWAY)),
                                                      ('contract', T(W.DEFAULT_GATEWAY + '/'))]) + '}',
        RawUris='{' + ', '.join(to_tla(T(r)) for r in RAW) + '}', BadHash=to_tla(T('b' * 64)), DocKey=to_tla(T(DOC_KEY)), HashCases=cases,
        TS=to_tla(T('tezos-storage')), HTTP=to_tla(T('http')), HTTPS=to_tla(T('https')), IPFS=to_tla(T('ipfs')), SHA=to_tla(T('sha256')),
        Chars=to_tla(T(':/%.0x')), Docs=', '.join(to_tla(l) for l in base_locs()))


def tla_set(names):
    return '{' + ', '.join('"%s"' % d for d in sorted(names)) + '}'


def cfg(spec, devs, invs, nest, errjson, extra='', shastyles='{"min"}', probe=True):
    return CFG.format(spec=spec, devs=tla_set(devs), choices='{{}, %s}' % tla_set(devs) if devs else '{{}}', invs='\n'.join('INVARIANT ' + i for i in invs),
                      styles='{"min", "lower", "all"}', layouts='{' + ', '.join('"%s"' % l for l in LAYOUTS) + '}', probe='TRUE' if probe else 'FALSE', nest=nest,
                      errjson='TRUE' if errjson else 'FALSE', extra=extra, shastyles=shastyles)


# ---------------------------------------------------------------- the world of one behaviour
def prim(p, *args, annots=None):
    d = {'prim': p}
    if args:
        d['args'] = list(args)
    if annots:
        d['annots'] = list(annots)
    return d


BM_META = prim('big_map', prim('string'), prim('bytes'), annots=['%metadata'])
NAT = lambda name: prim('nat', annots=['%' + name])
CODE = prim('code', [prim('CDR'), prim('NIL', prim('operation')), prim('PAIR')])
I = lambda n: {'int': str(n)}
PAIR = lambda *a: prim('Pair', *a)
BYTES = lambda b: {'bytes': bytes(b).hex()}
SELF_BM, OTHER_BM, LEDGER_BM = 10, 11, 13


def self_script(layout, entries):
    """(storage type, storage value) of Self for a layout; `entries` = the %metadata map as {key text: bytes}"""
    if layout == 'top':
        return prim('pair', BM_META, NAT('counter')), PAIR(I(SELF_BM), I(7))
    if layout == 'flat':
        return prim('pair', prim('pair', NAT('x'), BM_META), NAT('y')), PAIR(PAIR(I(1), I(SELF_BM)), I(7))
    if layout == 'named':
        return prim('pair', prim('pair', NAT('x'), BM_META, annots=['%inner']), NAT('y')), PAIR(PAIR(I(1), I(SELF_BM)), I(7))
    if layout == 'second':
        return prim('pair', prim('big_map', prim('string'), prim('bytes'), annots=['%ledger']), BM_META), PAIR(I(LEDGER_BM), I(SELF_BM))
    if layout == 'none':
        return prim('pair', NAT('x'), NAT('y')), PAIR(I(1), I(7))
    if layout == 'map':
        lit = [prim('Elt', {'string': k}, BYTES(v)) for k, v in sorted(entries.items())]
        return prim('pair', prim('map', prim('string'), prim('bytes'), annots=['%metadata']), NAT('y')), PAIR(lit, I(7))
    if layout == 'renamed':
        return prim('pair', prim('big_map', prim('string'), prim('bytes'), annots=['%meta']), NAT('y')), PAIR(I(SELF_BM), I(7))
    raise ValueError(layout)


def script_of(ty, value):
    return {'code': [prim('parameter', prim('unit')), prim('storage', ty), CODE], 'storage': value}


def base_maps(url, fault, gw, target):
    """the %metadata maps of Self and Other and the HTTP world, with the fault applied at the target"""
    maps = {'self': {k: doc_body(('bm', 'self', T(k))) for k in KEYS if k}, 'other': {k: doc_body(('bm', 'other', T(k))) for k in KEYS if k}}
    maps['other'][''] = OTHER_URI.encode()
    if url is not None:
        maps['self'][''] = url.encode('latin-1')
    W.HTTP.clear()
    for u in WEB:
        W.HTTP[u] = (200, doc_body(('web', T(u))))
    gateway = S(gw[1]).rstrip('/')
    for p in IPFS_PATHS:
        W.HTTP[gateway + '/' + CID + p] = (200, doc_body(('ipfs', T(CID + p))))        # only the configured gateway is reachable
    if fault[0] == 'at':
        k = fault[1]
        if target[0] == 'bm':
            if k == 'absent':
                maps[target[1]].pop(S(target[2]), None)
            else:
                maps[target[1]][S(target[2])] = FAULT_BODY[k]
        else:
            u = S(target[1]) if target[0] == 'web' else gateway + '/' + S(target[1])
            W.HTTP[u] = (404 if k in ('absent', 'errjson') else 200, FAULT_BODY[k])
    return maps


def string_map(m):
    return {W.string_key_hash(k): BYTES(v) for k, v in m.items()}


def build_world(url, layout, fault, gw, target):
    maps = base_maps(url, fault, gw, target)
    ty, val = self_script(layout, maps['self'])
    oty, _ = self_script('top', None)
    contracts = {W.SELF: script_of(ty, val), W.OTHER: script_of(oty, PAIR(I(OTHER_BM), I(8)))}
    big_maps = {SELF_BM: string_map(maps['self']), OTHER_BM: string_map(maps['other']),
                LEDGER_BM: {W.string_key_hash(''): BYTES(b'tezos-storage:ledger-is-not-metadata')}}
    return W.make_node(contracts, big_maps)


def classify(fn):
    """run one access; -> (token, object)"""
    try:
        m = fn()
    except Exception as e:      # noqa: the class of the failure is recorded, any failure is "an error"
        return ('error', type(e).__name__), None
    if m is None:
        return ('none',), None
    raw = m.raw
    if raw == FIELDS_DOC:
        return ('doc', ('fields',)), m
    if isinstance(raw, dict) and raw.get('name') in LABEL_TO_LOC and raw == doc_json(LABEL_TO_LOC[raw['name']]):
        return ('doc', LABEL_TO_LOC[raw['name']]), m
    if raw == json.loads(FAULT_BODY['errjson']):
        return ('errjson',), m
    return ('other', json.dumps(raw, sort_keys=True, default=repr)[:80]), m


def kind(tok):
    return ('error',) if tok[0] == 'error' else tuple(tok)


def client(node, **kw):
    from pytezos import pytezos
    from pytezos.rpc.shell import ShellQuery
    return pytezos.using(shell=ShellQuery(node), **kw)


def make_contract(node, gw, block='head'):
    route, g = gw[0], S(gw[1])
    if route == 'client':
        return client(node, ipfs_gateway=g).contract(W.SELF)
    c = client(node).contract(W.SELF)
    if block == 'past':
        c = c.using(block_id=PAST_BLOCK)
    return c.using(ipfs_gateway=g) if route == 'contract' else c


def blocks_read(reads):
    """the blocks at which storages and big_maps were read (scripts are code, not state)"""
    return sorted(set('head' if b == 'head' else 'past' if b == str(PAST_BLOCK) else b for b, what in reads if what != 'script'))


NAMES = {SELF_BM: 'self', OTHER_BM: 'other', LEDGER_BM: 'ledger'}


def observe(case):
    intent, layout, fault, gw, url, target = case[:6]
    node = build_world(None if fault == ('nourl',) else S(case[16]), layout, fault, gw, target)     # the author's URI is there whether it is found or not
    del W.FETCHED[:]
    c = make_contract(node, gw, case[14])
    r1, m1 = classify(lambda: c.metadata)
    mark = (len(node.gets), len(W.FETCHED))
    r2, m2 = classify(lambda: c.metadata)
    try:
        u = c.metadata_url
    except Exception as e:      # noqa
        u = 'error:' + type(e).__name__
    return {'first': r1, 'second': r2, 'same_object': m1 is m2, 'mark': mark, 'url': u,
            'gets': [(NAMES.get(b, str(b)), h) for b, h in node.gets], 'fetched': list(W.FETCHED), 'asked': sorted(set(node.asked)),
            'blocks': blocks_read(node.reads)}


def show(tok):
    if tok[0] == 'doc':
        return 'the document at ' + loc_label(tok[1]) if tok[1] != ('fields',) else 'the fields of token_info'
    return '/'.join(map(str, tok))


def tally(stats, taken, result, intended, text):
    for d in taken:
        st = stats['dev'].setdefault(d, {'n': 0, 'differ': 0, 'eg': None})
        st['n'] += 1
        if kind(result) != kind(intended):
            st['differ'] += 1
            if st['eg'] is None or len(text or '') < len(st['eg'][0] or ''):
                st['eg'] = (text, '%s instead of %s' % (show(result), show(intended)))


def first_difference(ctx, sig, where, fields, got, want, extra, jcase):
    for field in fields:
        if got[field] != want[field]:
            cls = 'differs'
            if isinstance(want[field], tuple) and want[field] and isinstance(want[field][0], str):
                cls = '%s->%s' % (want[field][0], got[field][0] if got[field] else '-')
                if cls == 'doc->doc':
                    cls = 'wrong-document'
            ctx.mismatch('%s:%s:%s' % (sig, field, cls), '%s: %s - pytezos %s, model %s%s' % (
                where, field, show(got[field]) if cls != 'differs' else got[field], show(want[field]) if cls != 'differs' else want[field], extra), jcase)
            return False
    return True


def compare(ctx, case, stats):
    intent, layout, fault, gw, url, target, first, result, mark, lookups, fetched, asked, taken, intended, block, blocks, written = case
    MODE[0] = 'contract'
    obs = observe(case)
    ikind = '-'.join(intent)
    text = None if url == (-1,) else S(url)
    where = 'layout=%s fault=%s gateway=%s:%s block=%s URI=%r' % (layout, '/'.join(fault), gw[0], S(gw[1]), block, S(written))
    jcase = {'part': 'metadata', 'out': to_json(case)}
    want = {'first': kind(first), 'second': kind(result), 'url': text, 'mark': tuple(mark),
            'gets': [(c, W.string_key_hash(bytes(k))) for c, k in lookups], 'fetched': [S(f) for f in fetched], 'asked': sorted(S(a) for a in asked),
            'blocks': sorted(blocks)}
    got = dict(obs, first=kind(obs['first']), second=kind(obs['second']))
    extra = ' (pytezos raised %s)' % obs['first'][1] if obs['first'][0] == 'error' else ''
    extra += ' [deviations taken in the model: %s]' % sorted(taken) if taken else ''
    ok = first_difference(ctx, 'X07:metadata:' + ikind, where, ('first', 'second', 'url', 'gets', 'fetched', 'asked', 'blocks', 'mark'), got, want, extra, jcase)
    if ok and first[0] == 'doc' and not obs['same_object']:
        ok = False
        ctx.mismatch('X07:metadata:%s:second-access-not-cached' % ikind, '%s: the second access returned another object' % where, jcase)
    tally(stats, taken, result, intended, text)
    if first[0] == 'error':
        stats['exc'].setdefault(first[1], set()).add(obs['first'][1] if obs['first'][0] == 'error' else '-')
    return ok


def exported(r, tag):
    cases = sorted((tuple(v[2:]) for v in r.printed if v and v[0] == 'OUT' and v[1] == tag), key=repr)
    if not cases:
        raise RuntimeError('no behaviours exported (%s)' % tag)
    return cases


def run_part1(ctx, devs, stats):
    nest = 1 if ctx.quick else 2
    sty = '{"min"}' if ctx.quick else '{"min", "lower", "all"}'
    gen = {'MetadataUriMC': mc_module('MetadataUriMC', 'MetadataUri')}
    # Leg A on the intended resolver (devs = {}) and on the resolver that is replayed, in one run; the behaviours of the latter are exported
    r = ctx.tlc('MetadataUriMC', cfg('Spec', devs, INVARIANTS + ['Export'], nest, True, shastyles=sty, probe=ctx.quick), name='MetadataUri', gen=gen, coverage=True,
                timeout=1500)
    ctx.require_no_violation(r, 'MetadataUri')
    ctx.require_coverage(r, ['ReadUrl', 'SplitScheme', 'Dispatch', 'ShaOpen', 'TsAuthority', 'TsHost', 'DecodeStep', 'DecodeEnd', 'TsLookup',
                             'WebFetch', 'IpfsFetch', 'CheckHash', 'ParseJson', 'Validate', 'Again'])
    cases = exported(r, 'META')
    seen = set(d for c in cases for d in c[12])
    if set(devs) - seen:
        raise RuntimeError('vacuity: deviations never taken: %s' % sorted(set(devs) - seen))
    for case in cases:
        ctx.replayed += 1
        ctx.count(('metadata',) + case[1:5] + case[14:15], nontrivial=case[7][0] != 'none')
        if compare(ctx, case, stats) and case[12] and len(ctx.samples) < 3:
            ctx.sample({'uri': S(case[16]), 'layout': case[1], 'fault': case[2], 'model': show(case[7]), 'intended': show(case[13]), 'deviations': sorted(case[12])})
    return len(cases)


# ---------------------------------------------------------------- token metadata (MetadataUriToken.tla)
TOKEN_DEVIATIONS = {
    'TokenNoContractMetadata': "token_metadata[id] of a contract without TZIP-16 metadata raises AttributeError ('NoneType' object has no attribute "
                               "'tokenMetadata') before the %token_metadata big_map is tried",
    'TokenViewLinkNotFollowed': 'a token_info returned by the off-chain view that links to a document (key "") is validated as if it were the document '
                                '(ValidationError) instead of being followed',
    'TokenInfoDirectIgnored': 'a token_info in the storage that carries the fields itself (no key "") is answered with None',
}
TOKEN_INFO = prim('pair', prim('nat', annots=['%token_id']), prim('map', prim('string'), prim('bytes'), annots=['%token_info']))
BM_TOKENS = prim('big_map', prim('nat'), TOKEN_INFO, annots=['%token_metadata'])
TOKEN_BM = 12
TOKEN_TY = prim('pair', BM_META, prim('pair', NAT('counter'), BM_TOKENS))
TOKEN_VIEW_CODE = [prim('UNPAIR'), prim('SWAP'), prim('CDR'), prim('CDR'), prim('SWAP'), prim('GET'),
                   prim('IF_NONE', [prim('PUSH', prim('string'), {'string': 'FA2_TOKEN_UNDEFINED'}), prim('FAILWITH')], [])]
TOKEN_VIEW = {'name': 'token_metadata', 'implementations': [{'michelsonStorageView': {
    'parameter': prim('nat'), 'returnType': prim('pair', prim('nat'), prim('map', prim('string'), prim('bytes'))), 'code': TOKEN_VIEW_CODE}}]}


def token_value(tid, info):
    return PAIR(I(tid), [prim('Elt', {'string': k}, BYTES(v)) for k, v in sorted(info.items())])


def build_token_world(url, fault, cm, entry, target):
    gw = ('default', T(W.DEFAULT_GATEWAY))
    maps = base_maps(None, fault, gw, target)
    doc = {'name': 'the contract', 'views': [TOKEN_VIEW]} if cm == 'view' else {'name': 'the contract'}
    maps['self'][DOC_KEY] = json.dumps(doc).encode()
    if cm != 'nometa':
        maps['self'][''] = ('tezos-storage:' + DOC_KEY).encode()
    tokens = {}
    if entry == 'link':
        tokens[0] = {'': url.encode('latin-1')}
    elif entry == 'direct':
        tokens[0] = dict(FIELDS)
    if entry == 'nomap':
        ty, val = self_script('top', None)
    else:
        ty, val = TOKEN_TY, PAIR(I(SELF_BM), I(7), I(TOKEN_BM))
    oty, _ = self_script('top', None)
    contracts = {W.SELF: script_of(ty, val), W.OTHER: script_of(oty, PAIR(I(OTHER_BM), I(8)))}
    big_maps = {SELF_BM: string_map(maps['self']), OTHER_BM: string_map(maps['other']),
                TOKEN_BM: {W.nat_key_hash(t): token_value(t, info) for t, info in tokens.items()}}
    return W.make_node(contracts, big_maps)


def compare_token(ctx, case, stats):
    intent, fault, cm, entry, url, target, result, lookups, fetched, asked, taken, intended = case
    MODE[0] = 'token'
    link = S(url) if entry == 'link' else None
    node = build_token_world(link, fault, cm, entry, target)
    del W.FETCHED[:]
    c = client(node).contract(W.SELF)
    r1, m1 = classify(lambda: c.token_metadata[0])
    n_gets, n_fetched = len(node.gets), len(W.FETCHED)
    r2, m2 = classify(lambda: c.token_metadata[0])
    # the keys of %metadata read on behalf of the link: everything but the contract's own "" and document
    own = {W.string_key_hash(''), W.string_key_hash(DOC_KEY)}
    gets = [(NAMES[b], h) for b, h in node.gets if b in (SELF_BM, OTHER_BM) and not (b == SELF_BM and h in own)]
    got = {'result': kind(r1), 'again': kind(r2), 'gets': sorted(set(gets)), 'fetched': sorted(set(W.FETCHED)),
           'asked': sorted(set(node.asked))}
    want = {'result': kind(result), 'again': kind(result), 'gets': sorted(set((c_, W.string_key_hash(bytes(k))) for c_, k in lookups)),
            'fetched': sorted(set(S(f) for f in fetched)), 'asked': sorted(S(a) for a in asked)}
    where = 'contract metadata=%s token=%s fault=%s link=%r' % (cm, entry, '/'.join(fault), link)
    extra = ' (pytezos raised %s)' % r1[1] if r1[0] == 'error' else ''
    extra += ' [deviations taken in the model: %s]' % sorted(taken) if taken else ''
    ikind = '-'.join(intent)
    jcase = {'part': 'token', 'out': to_json(case)}
    ok = first_difference(ctx, 'X07:token_metadata:%s:%s:%s' % (cm, entry, ikind), where, ('result', 'again', 'gets', 'fetched', 'asked'), got, want, extra, jcase)
    if ok and result[0] != 'error' and (m1 is not m2 or (len(node.gets), len(W.FETCHED)) != (n_gets, n_fetched)):
        ok = False
        ctx.mismatch('X07:token_metadata:second-access-not-cached', '%s: the second access was not served from the cache' % where, jcase)
    tally(stats, taken, result, intended, '%s/%s%s' % (cm, entry, ' ' + link if link else ''))
    return ok


def run_part2(ctx, devs, stats):
    MODE[0] = 'token'
    gen = {'MetadataUriTokenMC': mc_module('MetadataUriTokenMC', 'MetadataUriToken')}
    extra = ' DocKey <- DocKeyV\n'
    r = ctx.tlc('MetadataUriTokenMC', cfg('TSpec', devs, TOKEN_INVARIANTS + ['TExport'], 1, False, extra, shastyles='{"min"}' if ctx.quick else '{"min", "lower", "all"}'),
                name='MetadataUriToken', gen=gen, coverage=True)
    ctx.require_no_violation(r, 'MetadataUriToken')
    ctx.require_coverage(r, ['TokenFromView', 'TokenFromStorage'])
    cases = exported(r, 'TOK')
    routes = set((c[2], c[3], c[0][-1], c[6][0]) for c in cases)       # vacuity: documents are reached through the view and through the storage
    for need in [('view', 'link', 'ts', 'doc'), ('noview', 'link', 'web', 'doc'), ('noview', 'link', 'ipfs', 'doc'), ('view', 'direct', 'ts', 'doc')]:
        if need not in routes and not (devs and need[0] == 'view' and need[1] == 'link'):
            raise RuntimeError('vacuity: no token behaviour %s' % (need,))
    seen = set(d for c in cases for d in c[10])
    if set(d for d in devs if d in TOKEN_DEVIATIONS) - seen:
        raise RuntimeError('vacuity: token deviations never taken: %s' % sorted(set(TOKEN_DEVIATIONS) - seen))
    for case in cases:
        ctx.replayed += 1
        ctx.count(('token',) + case[1:5], nontrivial=case[6][0] != 'none')
        if compare_token(ctx, case, stats) and case[10] and len(ctx.samples) < 5:
            ctx.sample({'contract_metadata': case[2], 'token': case[3], 'model': show(case[6]), 'intended': show(case[11]), 'deviations': sorted(case[10])})
    MODE[0] = 'contract'
    return len(cases)


# ---------------------------------------------------------------- off-chain views (MetadataUriView.tla)
VIEW_DEVIATIONS = {
    'ViewReadsHead': 'storage_view() reads the storage and the big_maps at the head although the contract interface is bound to another block '
                     '(context.get_storage_value asks shell.head; the interpreter context is spawned without the block id)',
}
VIEW_CFG = """SPECIFICATION Spec
CONSTANTS DevChoices = {choices}
 Replayed = {devs}
{invs}
"""
STRINGS = {1: 'm', 2: 'n', 3: 'zz'}


def view_decl(name, code, parameter=None, returns=None, legacy=False):
    impl = {'returnType': returns or prim('nat'), 'code': code}
    if parameter:
        impl['parameter'] = parameter
    if legacy:      # the spelling of early TZIP-16 drafts, which the library accepts
        impl['return-type'] = impl.pop('returnType')
        return {'name': name, 'implementations': [{'michelson-storage-view': impl}]}
    return {'name': name, 'implementations': [{'michelsonStorageView': impl}]}


def views_document():
    return {'name': 'views', 'views': [
        view_decl('get-counter', [prim('CDR'), prim('CDR'), prim('CAR')]),
        view_decl('add_to', [prim('UNPAIR'), prim('SWAP'), prim('CDR'), prim('CAR'), prim('ADD')], prim('nat'), legacy=True),
        view_decl('Failing', [prim('DROP'), prim('PUSH', prim('string'), {'string': 'boom'}), prim('FAILWITH')]),
        view_decl('lookup', [prim('UNPAIR'), prim('SWAP'), prim('CAR'), prim('SWAP'), prim('GET')], prim('string'), prim('option', prim('bytes'))),
        dict(TOKEN_VIEW),
        {'name': 'rest-only', 'implementations': [{'restApiQuery': {'specificationUri': 'https://example.com/openapi.json', 'path': '/counter'}}]},
    ]}


def view_world():
    doc = json.dumps(views_document()).encode()

    def at(counter, keys, tokens):
        meta = {'': b'tezos-storage:m', 'm': doc}
        for k in keys:
            if STRINGS[k] != 'm':
                meta[STRINGS[k]] = ('value of ' + STRINGS[k]).encode()
        contracts = {W.SELF: script_of(TOKEN_TY, PAIR(I(SELF_BM), I(counter), I(TOKEN_BM)))}
        return contracts, {SELF_BM: string_map(meta), TOKEN_BM: {W.nat_key_hash(t): token_value(t, FIELDS) for t in tokens}}
    head, past = at(7, {1, 2}, {0, 1}), at(3, {1}, {0})
    return W.make_node(head[0], head[1], past=past), doc


def view_value(v, doc):
    if isinstance(v, bool):
        return ('other', repr(v))
    if isinstance(v, int):
        return ('nat', v)
    if v is None:
        return ('nothing',)
    if isinstance(v, bytes):
        for k, name in STRINGS.items():
            if v == (doc if name == 'm' else ('value of ' + name).encode()):
                return ('some', k)
    if isinstance(v, (tuple, list)) and len(v) == 2 and isinstance(v[0], int) and v[1] == FIELDS:
        return ('token', v[0])
    return ('other', repr(v)[:80])


def compare_view(ctx, case, stats, cache):
    block, call, result, reads, taken, intended = case
    name, arg, source = call
    jcase = {'part': 'view', 'out': to_json(case)}
    if block not in cache:
        node, doc = view_world()
        c = client(node).contract(W.SELF)
        if block == 'past':
            c = c.using(block_id=PAST_BLOCK)
        try:
            cache[block] = (node, doc, c, c.metadata)
        except Exception as e:      # noqa
            cache[block] = None
            ctx.mismatch('X07:storage_view:document-refused', 'the TZIP-16 document that declares the views (one of them in the legacy spelling) is refused: %s: %s' % (
                type(e).__name__, str(e)[:300]), jcase)
    if cache[block] is None:
        return False
    node, doc, c, meta = cache[block]
    args = () if arg[0] == 'unit' else (STRINGS[arg[1]],) if arg[0] == 'string' else (arg[1],)
    kw = {'storage': {'metadata': {}, 'counter': 99, 'token_metadata': {}}} if source == 'given' else {}
    n0 = len(node.reads)
    try:
        got = view_value(getattr(meta, name)(*args).storage_view(**kw), doc)
    except Exception as e:      # noqa: any failure is "an error"; its class is recorded
        got = ('error', type(e).__name__)
    blocks = blocks_read(node.reads[n0:])
    where = 'contract bound to %s: metadata.%s(%s).storage_view(%s)' % (block, name, ', '.join(map(repr, args)), 'storage=...' if kw else '')
    extra = ' (pytezos raised %s)' % got[1] if got[0] == 'error' else ''
    extra += ' [deviations taken in the model: %s]' % sorted(taken) if taken else ''
    ok = first_difference(ctx, 'X07:storage_view:%s:%s' % (name, arg[0]), where, ('result', 'blocks'),
                          {'result': kind(got), 'blocks': blocks}, {'result': kind(result), 'blocks': sorted(reads)}, extra, jcase)
    tally(stats, taken, result, intended, where)
    if result[0] == 'error':
        stats['exc'].setdefault('view:' + result[1], set()).add(got[1] if got[0] == 'error' else '-')
    return ok


def in_view_domain(case):
    """the compared domain: an argument passed to a view that declares no parameter is outside (nothing says it must be refused)"""
    name, arg, _ = case[1]
    return not (name in ('getCounter', 'failing') and arg[0] != 'unit')


def run_part3(ctx, devs, stats):
    MODE[0] = 'contract'
    invs = '\n'.join('INVARIANT ' + i for i in VIEW_INVARIANTS)
    r = ctx.tlc('MetadataUriView', VIEW_CFG.format(devs=tla_set(devs), choices='{{}, %s}' % tla_set(devs) if devs else '{{}}', invs=invs + '\nINVARIANT Export'),
                name='MetadataUriView', coverage=True)
    ctx.require_no_violation(r, 'MetadataUriView')
    ctx.require_coverage(r, ['Lookup', 'Encode', 'ReadStorage', 'Run'])
    cases, cache = exported(r, 'VIEW'), {}
    for case in cases:
        if not in_view_domain(case):
            ctx.skip('an argument passed to a view without parameter')
            continue
        ctx.replayed += 1
        ctx.count(('view',) + case[:2], nontrivial=case[2][0] != 'error')
        compare_view(ctx, case, stats, cache)
    return len(cases)


def run(ctx):
    W.install()
    set_universe(not ctx.quick)
    fixed = os.environ.get('VERIF_X07_FIXED') or ''          # "1": every deviation is fixed in the tree under test; or a comma separated list of names
    every = dict(DEVIATIONS, **TOKEN_DEVIATIONS, **VIEW_DEVIATIONS)
    gone = set(every) if fixed == '1' else set(x for x in fixed.split(',') if x)
    if gone - set(every):
        raise RuntimeError('VERIF_X07_FIXED names unknown deviations: %s' % sorted(gone - set(every)))

    def left(*tables):
        return {k: v for t in tables for k, v in t.items() if k not in gone}
    stats = {'dev': {}, 'exc': {}}
    n1 = run_part1(ctx, left(DEVIATIONS), stats)
    n2 = run_part2(ctx, left(DEVIATIONS, TOKEN_DEVIATIONS), stats)
    n3 = run_part3(ctx, left(VIEW_DEVIATIONS), stats)
    ctx.rule = ('metadata: every URI the TZIP-16 grammar generates from the intents of the bounded universe (tezos-storage with/without host and network, %d keys ' % len(KEYS) +
                'x 3 percent-encoding styles; 4 http(s) URLs; IPFS with 3 paths; sha256 wrappers; 7 texts outside the grammar) x fault at the target x 7 storage '
                'layouts (probe intents) x 4 gateway routes (IPFS intents); token_metadata: contract metadata none / without / with the view x token unknown / '
                'linked (every link URI x fault) / carrying its fields; storage_view: 7 view names x 8 arguments x chain / given storage x 2 blocks')
    ctx.assumptions = ['the node is simulated by an RpcNode subclass, HTTP by a stub of requests.adapters.HTTPAdapter.send; only the configured IPFS gateway is reachable',
                       'compared: document / None / failure (any exception) of two accesses, metadata_url, big_map keys looked up, URLs fetched, contracts asked for, '
                       'view results and the blocks a view reads; the class of an exception is not compared',
                       'outside the compared domain: unescaped "/", "?", "#" in keys, malformed escapes, upper-case schemes, non-UTF-8 URI bytes, '
                       'tezos-storage://host without a path, a contract metadata URI that fails while a token is looked up, '
                       'a token_info with both a link and fields',
                       'the deviations %s are modelled as coded (INFO lines); VERIF_X07_FIXED=1 (or =Name,Name,..) switches the model to the intended '
                       'behaviour for all (the named) deviations to try a patch%s' % (sorted(set(every) - gone), '; fixed in this run: %s' % sorted(gone) if gone else '')]
    what = dict(DEVIATIONS, **TOKEN_DEVIATIONS, **VIEW_DEVIATIONS)
    for d, st in sorted(stats['dev'].items()):
        mod = 'MetadataUriToken' if d in TOKEN_DEVIATIONS else 'MetadataUriView' if d in VIEW_DEVIATIONS else 'MetadataUri'
        print('INFO X07 deviation (modelled as coded, %s!%s): %s - %d behaviours, %d with another outcome than intended%s' % (
            mod, d, what[d], st['n'], st['differ'], ', e.g. %r gives %s' % st['eg'] if st['eg'] else ''))
    print('INFO X07: behaviours replayed: %d metadata, %d token_metadata, %d storage_view; failures by model class -> pytezos exceptions: %s' % (
        n1, n2, n3, json.dumps({k: sorted(v) for k, v in sorted(stats['exc'].items())})))
    ctx.exhaustive = True


def replay(ctx, rep):
    W.install()
    set_universe(rep.get('tier') == 'thorough')

    def tup(x):
        return tuple(tup(y) for y in x) if isinstance(x, list) else x
    part, case = rep['case'].get('part', 'metadata'), tup(rep['case']['out'])
    stats = {'dev': {}, 'exc': {}}
    if part == 'metadata':
        compare(ctx, case[:11] + (frozenset(case[11]), frozenset(case[12])) + case[13:15] + (frozenset(case[15]),) + case[16:], stats)
    elif part == 'token':
        compare_token(ctx, case[:9] + (frozenset(case[9]), frozenset(case[10])) + case[11:], stats)
    else:
        compare_view(ctx, case[:3] + (frozenset(case[3]), frozenset(case[4])) + case[5:], stats, {})
    return ctx.finish()


META = {'category': 'model_checking', 'text': 'growth of the specification: MetadataUri.tla, MetadataUriToken.tla, MetadataUriView.tla', 'design_ref': 'DESIGN.md 11.7',
        'note': 'not a listed property', 'technique': 'TLA+ + TLC + replay'}
