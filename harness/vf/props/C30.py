"""C30 - protocol source diffs apply and revert exactly.  Spec: UniDiff.tla."""
import hashlib, json, os, re

from ..tlaparse import to_json
from ..tlc import MachineryError

MC = """---- MODULE UniDiffMC ----
EXTENDS UniDiff
GivenV == {}
====
"""
# implementation patches reach TLC as JSON (arrays become tuples): a module literal of that size takes SANY longer than the check itself
MC_GIVEN = """---- MODULE UniDiffGiven ----
EXTENDS UniDiff, Json, IOUtils
GivenV == LET raw == JsonDeserialize(IOEnv.GIVEN_FILE) IN {raw[k] : k \\in DOMAIN raw}   \\* LET: the file is read once
====
"""
CFG = """SPECIFICATION Spec
CONSTANTS Alphabet = {1, 2, 3}
 MaxLines = %(lines)d
 Contexts = {0, 1, 2, 3}
 Mode = "%(mode)s"
 AllBelow = %(allbelow)d
 CanonA = %(canon)s
 Given <- GivenV
INVARIANT ApplyRevertExact
INVARIANT NeverStuck
INVARIANT RenderedIsValid
INVARIANT TextsWellFormed
INVARIANT Progress
INVARIANT EmitDone
"""
CFG_GIVEN = """SPECIFICATION Spec
CONSTANTS Alphabet = {1, 2, 3}
 MaxLines = 0
 Contexts = {0}
 Mode = "given"
 AllBelow = 0
 CanonA = FALSE
 Given <- GivenV
INVARIANT GivenValid
INVARIANT GivenVerdict
INVARIANT Progress
"""
NOEOL = '\\ No newline at end of file'
WORKERS = 4   # a fixed small number: with `auto` TLC is slower on a busy machine than with 4 workers

# ---- abstract line letters 1..3 -> real line contents ----
# plain pools: no character that str.splitlines() treats as a line boundary; full comparison with the model
PLAIN = [
    ('alpha', 'beta', 'gamma'),
    ('@@ -1 +1 @@', '+plus', '-minus'),
    (NOEOL, ' leading space', ''),
    ('--- a/x.ml', '+++ b/x.ml', '@@'),
    ('\\', '@', ' '),
    ('let x = 1', 'let x = 1 ', 'Let x = 1'),
    ('-- looks like a header when deleted', '++ same when inserted', '@ -1,2 +1,2 @@'),
    ('tab\there', 'ünïcode ✓ λ', 'x' * 300),
    ('', '\\ No newline', '+'),
    ('(* comment *)', 'let rec f = function | [] -> 0 | _ :: t -> 1 + f t', 'end'),
]
# exotic pools: characters that str.splitlines() splits on but POSIX diff does not; the model's notion of a line does not
# apply to them, only the round trip demanded by the property statement is checked
EXOTIC = [
    ('a\rb', 'c\r', '\rd'),
    ('x\x0cy', 'p\u2028q', 'v\x0bw'),
    ('\x1c', '\x85z', 'n\u2029'),
    ('\r', 'a', '\r\r'),
    ('a', 'a\r', 'b\x1d\x1e'),
]


def _h(obj):
    return int.from_bytes(hashlib.blake2b(repr(obj).encode(), digest_size=4).digest(), 'big')


def text(t, pool):
    return ''.join(pool[c - 1] + ('\n' if eol else '') for c, eol in t)


def faithful(t, pool):
    """the concrete text has exactly the abstract line structure (an empty last line without newline is no line at all)"""
    return not (t and not t[-1][1] and pool[t[-1][0] - 1] == '')


def render(patch, pool, fname, style):
    """model patch -> unified diff text.  style 0: length 1 omitted (as diff -u prints); 1: always explicit; 2: no file header"""
    out = []
    for ln in patch:
        tag = ln[0]
        if tag == 'from':
            if style != 2:
                out.append('--- ' + fname)
        elif tag == 'to':
            if style != 2:
                out.append('+++ ' + fname)
        elif tag == 'hdr':
            def rng(st, le):
                return str(st) if le == 1 and style != 1 else '%d,%d' % (st, le)
            out.append('@@ -%s +%s @@' % (rng(ln[1], ln[2]), rng(ln[3], ln[4])))
        elif tag == 'noeol':
            out.append(NOEOL)
        else:
            out.append({'ctx': ' ', 'del': '-', 'ins': '+'}[tag] + pool[ln[1] - 1])
    return ''.join(x + '\n' for x in out)


_HDR = re.compile(r'^@@ -(\d+)(?:,(\d+))? \+(\d+)(?:,(\d+))? @@$')


def parse(ptext, pool):
    """unified diff text of the implementation -> model patch (None, reason) if it is not a diff file over the pool"""
    if ptext == '':
        return (), None
    if not ptext.endswith('\n'):
        return None, 'last line unterminated'
    lines = ptext[:-1].split('\n')
    inv = {s: k + 1 for k, s in enumerate(pool)}
    out = []
    for k, ln in enumerate(lines):
        if k == 0 and ln.startswith('--- '):
            out.append(('from',))
        elif k == 1 and ln.startswith('+++ '):
            out.append(('to',))
        elif ln.startswith('@'):
            m = _HDR.match(ln)
            if not m:
                return None, 'bad hunk header %r' % ln
            g = m.groups()
            out.append(('hdr', int(g[0]), 1 if g[1] is None else int(g[1]), int(g[2]), 1 if g[3] is None else int(g[3])))
        elif ln == NOEOL:
            out.append(('noeol',))
        elif ln[:1] in (' ', '-', '+'):
            if ln[1:] not in inv:
                return None, 'line %r is not a line of either text' % ln
            out.append(({' ': 'ctx', '-': 'del', '+': 'ins'}[ln[0]], inv[ln[1:]]))
        else:
            return None, 'unexpected line %r' % ln
    return tuple(out), None


def call(f, *a, **kw):
    try:
        return 'ok', f(*a, **kw)
    except Exception as e:   # noqa: any exception is an observation here
        return 'raised', '%s: %s' % (type(e).__name__, str(e)[:80])


def obs_class(st, got, want):
    if st == 'raised':
        return 'raises-' + got.split(':')[0]
    return None if got == want else 'wrong-text'


def roundtrip(ctx, a, b, n, pool, kind, pi, given=None):
    """make_patch then apply / revert on concrete texts; returns the patch text (or None)"""
    from pytezos.protocol.diff import apply_patch, make_patch
    ta, tb = text(a, pool), text(b, pool)
    fname = 'src/proto_%d/lib_protocol/x.ml' % pi
    case = {'check': 'roundtrip', 'a': ta, 'b': tb, 'n': n, 'kind': kind, 'abs': to_json([a, b]), 'pool': list(pool)}
    st, p = call(make_patch, ta, tb, fname, context_size=n)
    if st == 'raised':
        ctx.mismatch('C30:roundtrip:%s:make_patch:raises-%s' % (kind, p.split(':')[0]), 'make_patch(%r, %r, n=%d) raised %s' % (ta, tb, n, p), case)
        return None
    for rev, src, dst in ((False, ta, tb), (True, tb, ta)):
        st, got = call(apply_patch, src, p, revert=rev)
        cls = obs_class(st, got, dst)
        if cls:
            ctx.mismatch('C30:roundtrip:%s:%s:%s' % (kind, 'revert' if rev else 'apply', cls),
                         'a=%r b=%r context=%d: apply_patch(%s, make_patch(a, b), revert=%s) gave %r, expected %r; patch %r' % (
                             ta, tb, n, 'b' if rev else 'a', rev, got, dst, p), case)
    return p


def model_diff(ctx, a, b, n, rev, patch, target, pool, style):
    """a diff produced by the model, rendered as text, applied by apply_patch: the result must be the model's result"""
    from pytezos.protocol.diff import apply_patch
    src = text(b if rev else a, pool)
    want = text(target, pool)
    ptext = render(patch, pool, 'x.ml', style)
    st, got = call(apply_patch, src, ptext, revert=rev)
    cls = obs_class(st, got, want)
    if cls:
        ctx.mismatch('C30:apply_patch:model-diff:%s:%s' % ('revert' if rev else 'apply', cls),
                     'source %r, valid diff %r, revert=%s: apply_patch gave %r, the model %r' % (src, ptext, rev, got, want),
                     {'check': 'model-diff', 'src': src, 'patch': ptext, 'rev': rev, 'want': want})
        return False
    return True


def validate_given(ctx, entries, name):
    """entries: list of (a, b, n, abstract patch, info).  TLC runs Valid and the apply automaton on every patch."""
    if not entries:
        return 0
    path = os.path.join(ctx.wd, name + '.json')
    with open(path, 'w') as f:
        json.dump([to_json((k + 1, a, b, n, p)) for k, (a, b, n, p, _) in enumerate(entries)], f)
    r = ctx.tlc('UniDiffGiven', CFG_GIVEN, gen={'UniDiffGiven': MC_GIVEN}, name=name, timeout=1500, coverage=False, workers=WORKERS, env={'GIVEN_FILE': path})
    if r.violation:
        raise MachineryError('given-mode run must not stop on an invariant: %s\n%s' % (r.violation, r.output[-1500:]))
    ok = {(v[1], v[2]) for v in r.printed if v[0] == 'OUT'}
    rejects = [v for v in r.printed if v[0] == 'REJECT']
    for v in rejects:
        gi, rev, why = v[1], v[2], v[3]
        a, b, n, p, info = entries[gi - 1]
        ctx.mismatch('C30:make_patch:model-rejects:%s' % why.replace(' ', '-'),
                     'make_patch output for a=%r b=%r context=%d is not accepted by the model (%s, revert=%s): %r' % (info['a'], info['b'], n, why, rev, info['patch']),
                     {'check': 'given', 'a': info['a'], 'b': info['b'], 'n': n, 'abs': to_json([a, b]), 'pool': info['pool']})
    bad = {(v[1], v[2]) for v in rejects}
    expected = {(g, rv) for g in range(1, len(entries) + 1) for rv in (False, True)}
    if (ok | bad) != expected:
        raise MachineryError('given-mode run lost cases: %d of %d reported' % (len(ok | bad), len(expected)))
    return len(ok)


def protocol_clause(ctx, a, b, n, pool, kind):
    """Protocol.diff then Protocol.patch over small protocols built in the node's JSON format"""
    from pytezos.protocol.protocol import Protocol
    ta, tb = text(a, pool), text(b, pool)
    hx = lambda s: s.encode().hex()
    old = {'expected_env_version': 0, 'components': [
        {'name': 'Alpha', 'interface': hx(ta), 'implementation': hx(ta)},
        {'name': 'Beta', 'implementation': hx(tb)},
        {'name': 'Gone', 'interface': hx('val x : int\n'), 'implementation': hx(ta)}]}
    new = {'expected_env_version': 0, 'components': [
        {'name': 'Alpha', 'interface': hx(ta), 'implementation': hx(tb)},
        {'name': 'Beta', 'implementation': hx(tb)},
        {'name': 'Fresh', 'interface': hx(tb), 'implementation': hx(ta)}]}
    case = {'check': 'protocol', 'a': ta, 'b': tb, 'n': n, 'kind': kind, 'abs': to_json([a, b]), 'pool': list(pool)}
    p1, p2 = Protocol(old), Protocol(new)
    import zlib
    exported = zlib.crc32(('%s|%s|%d' % (ta, tb, n)).encode()) % 2 == 0
    if exported:
        # other uses of the same objects in between (listing the files, exporting a tarball) change nothing about them
        before = (list(p1), list(p2))
        for px in (p1, p2):
            st0, out0 = call(px.export_tar, os.path.join(ctx.wd, 'exported.tar'))
            if st0 == 'raised':
                ctx.mismatch('C30:protocol:export:raises-' + out0.split(':')[0], 'Protocol.export_tar() raised %s' % out0, dict(case, exported=True))
                return False
        if (list(p1), list(p2)) != before:
            ctx.mismatch('C30:protocol:export:changes-the-protocol', 'after export_tar() the protocol lists the files %r, before %r' % ([f for f, _ in list(p2)], [f for f, _ in before[1]]), dict(case, exported=True))
            return False
        case = dict(case, exported=True)
    st, d = call(p1.diff, p2, context_size=n)
    if st == 'raised':
        ctx.mismatch('C30:protocol:diff:raises-' + d.split(':')[0], 'Protocol.diff(<Protocol>, context_size=%d) raised %s' % (n, d), case)
        return False
    st, res = call(p1.patch, d)
    if st == 'raised':
        ctx.mismatch('C30:protocol:patch:raises-' + res.split(':')[0], 'Protocol.patch(<result of diff>) raised %s (a=%r b=%r)' % (res, ta, tb), case)
        return False
    if list(res) != list(p2):
        ctx.mismatch('C30:protocol:patch:wrong-files', 'a=%r b=%r context=%d: old.patch(old.diff(new)) has files %r, new has %r' % (ta, tb, n, list(res), list(p2)), case)
        return False
    if res.hash() != p2.hash():
        ctx.mismatch('C30:protocol:patch:wrong-hash', 'a=%r b=%r: same files but hash %s != %s' % (ta, tb, res.hash(), p2.hash()), case)
        return False
    return True


def vacuity(outs, name):
    """the exported runs exercise every kind of patch line, several hunks, both directions (used where -coverage is too slow)"""
    need = {'empty patch', 'two hunks', 'noeol', 'ctx', 'del', 'ins', 'forward', 'reverse', 'zero-length old range', 'zero-length new range'}
    for _, a, b, n, rev, patch, target in outs:
        need.discard('reverse' if rev else 'forward')
        if not patch:
            need.discard('empty patch')
        hdrs = [ln for ln in patch if ln[0] == 'hdr']
        if len(hdrs) > 1:
            need.discard('two hunks')
        for ln in hdrs:
            if ln[2] == 0:
                need.discard('zero-length old range')
            if ln[4] == 0:
                need.discard('zero-length new range')
        for ln in patch:
            need.discard(ln[0])
        if not need:
            return
    raise MachineryError('vacuity: %s never exercised: %s' % (name, sorted(need)))


def enumerate_and_replay(ctx, mode, lines, canon, name, entries, seen_pairs, allbelow=0, impl_diffs=True, coverage=True):
    gen = {'UniDiffMC': MC}
    r = ctx.tlc('UniDiffMC', CFG % dict(lines=lines, mode=mode, allbelow=allbelow, canon='TRUE' if canon else 'FALSE'), gen=gen, name=name, timeout=3000,
                coverage=coverage, workers=WORKERS)
    ctx.require_no_violation(r, name)
    if coverage:
        ctx.require_coverage(r, ['Pick', 'Make', 'Header', 'Hunk', 'Line', 'NoEol', 'EndHunk', 'Finish'])
    outs = [v for v in r.printed if v[0] == 'OUT']
    if not outs:
        raise MachineryError('no completed runs exported by ' + name)
    vacuity(outs, name)
    nproto = 0
    for _, a, b, n, rev, patch, target in outs:
        h = _h((a, b, n)) + ctx.seed
        key = (a, b, n)
        if impl_diffs and key not in seen_pairs:
            # pytezos' own diffs: round trip on two plain pools and one exotic pool, model-side validation of the plain ones
            seen_pairs.add(key)
            for k, pi in enumerate((h % len(PLAIN), (h // 7 + 1 + h % len(PLAIN)) % len(PLAIN))):
                pool = PLAIN[pi]
                ptext = roundtrip(ctx, a, b, n, pool, 'plain', pi)
                ctx.count(('rt', a, b, n, pi), nontrivial=a != b)
                if ptext is None:
                    continue
                if not (faithful(a, pool) and faithful(b, pool)):
                    ctx.skip('model-side validation of a patch over texts whose last line is empty and unterminated (no line at all)')
                    continue
                ap, why = parse(ptext, pool)
                if ap is None:
                    ctx.mismatch('C30:make_patch:unparseable', 'make_patch(%r, %r, n=%d) is not a unified diff: %s: %r' % (text(a, pool), text(b, pool), n, why, ptext),
                                 {'check': 'given', 'a': text(a, pool), 'b': text(b, pool), 'n': n, 'abs': to_json([a, b]), 'pool': list(pool)})
                    continue
                entries.setdefault((a, b, n, ap), {'a': text(a, pool), 'b': text(b, pool), 'patch': ptext, 'pool': list(pool)})
            ex = EXOTIC[h % len(EXOTIC)]
            roundtrip(ctx, a, b, n, ex, 'exotic', 100 + h % len(EXOTIC))
            ctx.count(('rt-x', a, b, n), nontrivial=a != b)
            ctx.skip('model-side validation of patches over lines containing \\r, \\f, U+2028.. (str.splitlines boundaries that are not POSIX line ends)')
            if h % (5 if ctx.quick else 11) == 0:
                pool = (PLAIN + EXOTIC)[h // 13 % len(PLAIN + EXOTIC)]
                okp = protocol_clause(ctx, a, b, n, pool, 'plain' if pool in PLAIN else 'exotic')
                ctx.count(('proto', a, b, n), nontrivial=a != b)
                nproto += 1
                if okp and a != b and nproto % 50 == 1:
                    ctx.sample({'protocol': 'old.patch(old.diff(new, context_size=%d)) == new' % n, 'a': text(a, pool), 'b': text(b, pool)}, limit=8)
        # the model's diff through apply_patch
        pi = (h // 3 + (1 if rev else 0)) % len(PLAIN)
        pool = PLAIN[pi]
        if not (faithful(a, pool) and faithful(b, pool)):
            pool = PLAIN[0]
        ok = model_diff(ctx, a, b, n, rev, patch, target, pool, (h // 5) % 3)
        ctx.replayed += 1
        ctx.count(('md', a, b, n, rev, patch), nontrivial=len(patch) > 0)
        if ok and len(patch) > 8 and h % 101 == 0:
            ctx.sample({'source': text(b if rev else a, pool), 'patch': render(patch, pool, 'x.ml', 0), 'revert': rev, 'result': text(target, pool)}, limit=5)
    return len(outs), nproto


def long_texts(ctx):
    """Texts of 9..45 lines (line numbers with one, two digits, multiples of ten) with edits placed around lines 9, 10, 11, 19, 20, 21, 30, at the start and at the
    end, contexts 0..3: the statement itself - apply(a, make(a, b)) = b and revert(b, make(a, b)) = a.  (The model's line-by-line automaton is exercised on the short texts.)"""
    import random
    from pytezos.protocol.diff import make_patch, apply_patch
    rng = random.Random(ctx.seed + 30)
    words = [w for pool in PLAIN for w in pool]
    n_cases = 0
    for length in (9, 10, 11, 12, 20, 21, 31, 45):
        base = ['%s %d' % (words[(length + k) % len(words)], k) for k in range(1, length + 1)]
        edits = []
        for pos in sorted({1, 2, 8, 9, 10, 11, 19, 20, 21, 29, 30, length - 1, length} & set(range(1, length + 1))):
            edits.append(('ins', pos)), edits.append(('del', pos)), edits.append(('rep', pos))
        edits += [('multi', k) for k in range(6)]
        for kind, pos in edits:
            b = list(base)
            if kind == 'ins':
                b.insert(pos - 1, 'inserted before %d' % pos)
            elif kind == 'del':
                del b[pos - 1]
            elif kind == 'rep':
                b[pos - 1] = 'replaced %d' % pos
            else:
                for q_ in sorted(rng.sample(range(length), min(4, length)), reverse=True):
                    b[q_:q_ + rng.randint(0, 2)] = ['multi %d %d' % (pos, q_)] * rng.randint(0, 2)
            for eol_a, eol_b in ((True, True), (False, True), (True, False)):
                ta = '\n'.join(base) + ('\n' if eol_a else '')
                tb = '\n'.join(b) + ('\n' if eol_b and b else '')
                for n in (0, 1, 2, 3):
                    n_cases += 1
                    ctx.count(('long', length, kind, pos, eol_a, eol_b, n), nontrivial=True)
                    case = {'check': 'long', 'a': ta, 'b': tb, 'n': n}
                    st, pt = call(make_patch, ta, tb, 'f.ml', context_size=n)
                    if st == 'raised':
                        ctx.mismatch('C30:long:make_patch:raises-' + pt.split(':')[0], 'make_patch on a %d-line text (%s at line %d, context %d) raised %s' % (length, kind, pos, n, pt), case)
                        continue
                    for rev, src, want in ((False, ta, tb), (True, tb, ta)):
                        st2, got = call(apply_patch, src, pt, rev)
                        if st2 == 'raised' or got != want:
                            ctx.mismatch('C30:long:%s:%s' % ('revert' if rev else 'apply', 'raises-' + str(got).split(':')[0] if st2 == 'raised' else 'wrong-text'),
                                         '%d-line text, %s at line %d, context %d: %s of make_patch(a, b) %s' % (length, kind, pos, n, 'revert' if rev else 'apply',
                                                                                                              'raised %s' % got if st2 == 'raised' else 'does not give the other text'), case)
                            break
    # very long texts with runs of identical lines (licence headers, tables, blank lines): an edit inside such a run
    for total, n in ((1000, 0), (1000, 3), (1300, 1), (2100, 3)):
        run_a = total // 2
        base = ['same'] * run_a + ['unique %d' % k for k in range(20)] + [''] * (total - run_a - 20)
        for kind, pos in (('ins', run_a // 2), ('del', run_a // 2), ('ins', total - 50), ('del', total - 50), ('rep', run_a + 10)):
            b = list(base)
            if kind == 'ins':
                b.insert(pos, base[pos])
            elif kind == 'del':
                del b[pos]
            else:
                b[pos] = 'replaced'
            ta, tb = '\n'.join(base) + '\n', '\n'.join(b) + '\n'
            n_cases += 1
            ctx.count(('very-long', total, kind, pos, n), nontrivial=True)
            case = {'check': 'long', 'a': '<%d lines>' % total, 'b': '<%s at line %d>' % (kind, pos), 'n': n}
            st, pt = call(make_patch, ta, tb, 'f.ml', context_size=n)
            ok_ = st != 'raised'
            if ok_:
                for rev, src, want in ((False, ta, tb), (True, tb, ta)):
                    st2, got = call(apply_patch, src, pt, rev)
                    ok_ = ok_ and st2 != 'raised' and got == want
            if not ok_:
                ctx.mismatch('C30:long:identical-run:%s' % kind, 'text of %d lines with a run of %d identical lines, %s at line %d, context %d: make_patch / apply / revert do not reproduce the texts' % (total, run_a, kind, pos, n), case)
    # very long texts with MANY hunks (seeded C30_13: output folded every 256 pieces, the second fold overwrote the first):
    # distinct lines, an edit every `step` lines (insertion / deletion / replacement in turn), all context sizes
    for total, step in ((600, 7), (600, 150), (1500, 256), (1500, 300), (3000, 40), (3000, 1000)):
        base = ['line %d of the text' % k for k in range(total)]
        b, turn = [], 0
        for k, ln in enumerate(base):
            if k % step == step // 2:
                turn += 1
                if turn % 3 == 0:
                    b.extend([ln, 'inserted after %d' % k])
                elif turn % 3 == 1:
                    continue
                else:
                    b.append('replaced %d' % k)
            else:
                b.append(ln)
        for n in (0, 1, 3):
            for eol in (True, False):
                ta, tb = '\n'.join(base) + ('\n' if eol else ''), '\n'.join(b) + '\n'
                n_cases += 1
                ctx.count(('many-hunks', total, step, n, eol), nontrivial=True)
                case = {'check': 'long', 'a': '<%d distinct lines>' % total, 'b': '<an edit every %d lines>' % step, 'n': n}
                st, pt = call(make_patch, ta, tb, 'f.ml', context_size=n)
                ok_ = st != 'raised'
                if ok_:
                    for rev, src, want in ((False, ta, tb), (True, tb, ta)):
                        st2, got = call(apply_patch, src, pt, rev)
                        ok_ = ok_ and st2 != 'raised' and got == want
                if not ok_:
                    ctx.mismatch('C30:long:many-hunks', 'text of %d distinct lines with an edit every %d lines, context %d, final newline of the old text %s: make_patch / apply / revert do not reproduce the texts' % (total, step, n, eol), case)
    ctx.replayed += n_cases
    ctx.extra['long_text_round_trips'] = n_cases


def run(ctx):
    ctx.rule = ('texts = sequences of at most L lines over 3 abstract line contents, last line with or without newline, empty text; contexts 0..3. Leg A: for every '
                'pair TLC renders diffs from edit scripts (one canonical shortest script; every monotone script for shorter texts), checks they are valid diffs by the '
                'declarative definition, and runs the apply automaton line by line forward and in reverse: result = other text. Leg B: each model diff is rendered as text '
                '(10 pools of real lines: hunk-header look-alikes, leading + - \\ @, empty, tabs, unicode; three header styles) and applied by apply_patch, result = model; '
                'for every (a, b, n) make_patch + apply_patch / revert must round-trip on plain and on exotic (\\r, \\f, U+2028..) lines; every make_patch output is parsed '
                'and TLC checks it is a valid diff whose application gives b / a; Protocol.diff + Protocol.patch on small protocols. non-trivial = texts differ / patch non-empty')
    ctx.assumptions = ['lines containing characters that str.splitlines() splits on but POSIX diff does not (\\r, \\v, \\f, \\x1c-\\x1e, \\x85, U+2028, U+2029) are compared on the round trip only',
                       'the old text is enumerated up to renaming of line contents (first-occurrence order) in the larger instances; the concrete strings rotate over the pools',
                       'a diff produced for context n is only required to be a valid diff; the amount of context is not compared']
    entries = {}
    seen = set()
    # (script mode, max lines, old text up to renaming, name, all scripts for texts up to this many lines, also exercise make_patch on these pairs, -coverage)
    if ctx.quick:
        plan = [('canon', 3, True, 'UniDiff_canon', 2, True, False)]
    else:
        plan = [('canon', 4, True, 'UniDiff_canon', 2, True, True), ('all', 3, True, 'UniDiff_all', 0, False, True), ('min', 3, False, 'UniDiff_min', 0, True, True)]
    tot = totp = 0
    for mode, lines, canon, name, allbelow, impl_diffs, cov in plan:
        k, kp = enumerate_and_replay(ctx, mode, lines, canon, name, entries, seen, allbelow, impl_diffs, cov)
        tot += k
        totp += kp
    ents = [(a, b, n, p, info) for (a, b, n, p), info in entries.items()]
    step = 20000
    for off in range(0, len(ents), step):
        ctx.traces += validate_given(ctx, ents[off:off + step], 'UniDiff_given%d' % (off // step))
    ctx.notes.append('%d model runs replayed, %d (a, b, n) triples round-tripped, %d distinct make_patch outputs validated by TLC in both directions, %d protocol round trips' % (
        tot, len(seen), len(ents), totp))
    ctx.exhaustive = True
    long_texts(ctx)


def replay(ctx, rep):
    c = rep['case']

    def tup(x):
        return tuple(tup(y) for y in x) if isinstance(x, list) else x
    if c['check'] == 'long':
        long_texts(ctx)
        ctx.mismatches = [m for m in ctx.mismatches if m.signature == rep.get('signature')] or ctx.mismatches
    elif c['check'] == 'model-diff':
        from pytezos.protocol.diff import apply_patch
        st, got = call(apply_patch, c['src'], c['patch'], revert=c['rev'])
        if obs_class(st, got, c['want']):
            ctx.mismatch(rep['signature'], 'apply_patch gave %r, the model %r' % (got, c['want']), c)
    else:
        a, b = tup(c['abs'])
        pool = tuple(c['pool'])
        if c['check'] == 'roundtrip':
            roundtrip(ctx, a, b, c['n'], pool, c['kind'], 0)
        elif c['check'] == 'protocol':
            protocol_clause(ctx, a, b, c['n'], pool, c['kind'])
        else:
            from pytezos.protocol.diff import make_patch
            ptext = make_patch(c['a'], c['b'], 'x.ml', context_size=c['n'])
            ap, why = parse(ptext, pool)
            if ap is None:
                ctx.mismatch('C30:make_patch:unparseable', why, c)
            else:
                validate_given(ctx, [(a, b, c['n'], ap, {'a': c['a'], 'b': c['b'], 'patch': ptext, 'pool': c['pool']})], 'UniDiff_given_replay')
    for m in ctx.mismatches:
        print('REPRODUCED', m.signature, m.detail)
    return 1 if ctx.mismatches else 0


META = {
    'category': 'model_checking',
    'text': ('UniDiff.tla defines what a unified diff between two texts means (hunk ranges, context / delete / insert lines, the no-newline marker), renders diffs from '
             'edit scripts and runs the apply automaton one patch line per action, forward and in reverse; TLC checks for every pair of bounded texts and every context '
             'size that rendered diffs are valid and that apply gives the new and revert the old text. Every model diff is applied by pytezos apply_patch and compared; '
             'every make_patch output is round-tripped through apply_patch, parsed back and validated by TLC (valid diff, applies to b, reverts to a); Protocol.diff / patch '
             'are round-tripped on small protocols.'),
    'design_ref': 'DESIGN.md section 5 C30',
    'note': ('Trusted: concretisation of line letters (pools), the diff-text renderer and parser, protocol JSON construction. Plus ~2.9k round trips of 9..45-line texts (edits around lines 9-11, 19-21, 30; contexts 0..3) judged by the statement itself. Bounds quick: texts <= 3 lines (old text up to renaming) x '
             'contexts 0..3 with one canonical script, all scripts for texts <= 2 lines; thorough: <= 4 lines canonical, all / all shortest scripts for <= 3 lines. '
             'The protocol clause calls diff / patch with Protocol instances as documented.'),
    'technique': 'TLA+ spec + TLC exhaustive model checking; spec-behaviour replay into apply_patch; implementation diffs validated by the TLC model (given mode)',
}
