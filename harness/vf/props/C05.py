"""C05 - Micheline binary encoding round-trips and decodes strictly.  Spec: MichelineCodec.tla (+ MichelineCodecTrace.tla)."""
import glob, json, os, re

from ..tlaparse import to_json, to_tla
from ..fastdump import iter_dump
from ..tlc import MachineryError, SPEC
from ..common import REPO

MC = """---- MODULE MichelineCodecMC ----
EXTENDS MichelineCodec
MagsV == %s
TagsAV == %s
TagsBV == %s
TopTagsV == %s
BadPrimTagsV == %s
WideV == TRUE
====
"""
CFG = """SPECIFICATION Spec
CONSTANTS Mags <- MagsV
 TagsA <- TagsAV
 TagsB <- TagsBV
 TopTags <- TopTagsV
 BadPrimTags <- BadPrimTagsV
 Wide <- WideV
 ByteSpan = %d
 Depth = %d
INVARIANT RoundTrip
INVARIANT Injective
INVARIANT Strict
INVARIANT Canon
INVARIANT TypeOK
INVARIANT PatchOK
"""
TCFG = "SPECIFICATION Spec\n"

# primitive tags 159..MARGIN may have been assigned by protocols newer than the table transcribed in the spec
MARGIN = 175
SKIP_RELAXED = 'decoder input is a relaxed form (negative zero / present-but-empty annotation field / short generic application): rejection not demanded'
SKIP_TEXT = 'decoded string or annotation outside the compared text domain (non-ASCII bytes, empty annotation between spaces)'
SKIP_NAME = 'primitive whose protocol name pytezos does not carry under that name (deprecated primitive): node not concretisable'
SKIP_MARGIN = 'primitive tag just above the transcribed protocol maximum (may belong to a newer protocol)'


# ---------- concretisation / projection ----------
def limbs(v):
    out = []
    while v:
        out.append(v & 255)
        v >>= 8
    return out


def mags(quick):
    vals = [0, 1, 63, 64, 127, 128, 255, 256, 8191, 8192, 2 ** 64, 2 ** 320 - 1, 2 ** 512 + 1]
    if not quick:
        vals += [2 ** 31, 2 ** 62 - 1, 2 ** 1024, 2 ** 4096 - 1, 2 ** 4096]
    return {tuple(limbs(v)) for v in vals}


_names = None


def prim_names():
    """The model's primitive table (tag -> protocol name), read from the spec text."""
    global _names
    if _names is None:
        txt = open(os.path.join(SPEC, 'MichelineCodec.tla')).read()
        m = re.search(r'^PrimName == <<(.*?)>>', txt, re.S | re.M)
        _names = re.findall(r'"([^"]+)"', m.group(1))
        if len(_names) != 159:
            raise MachineryError('primitive table of the spec not found')
    return _names


def available(names):
    """Tags whose protocol name pytezos maps to exactly that tag (cross-check of tags.py against the model's table)."""
    from pytezos.michelson.tags import prim_tags
    return {i for i, n in enumerate(names) if prim_tags.get(n) == bytes([i])}


DEPRECATED_TAGS = {28}      # CREATE_ACCOUNT: the only protocol primitive pytezos does not carry under its protocol name (pinned tree)


def check_table(ctx, names):
    """The primitive table is part of the encoding: every protocol primitive (the model's table, transcribed from the protocol) is
    written as its tag and read back from it.  Only the known deprecated entry is outside the compared domain."""
    for tag, name in enumerate(names):
        if tag in DEPRECATED_TAGS:
            continue
        ctx.count(('table', tag), nontrivial=True)
        f = impl_forge({'prim': name})
        u = impl_unforge(bytes([3, tag]))
        if f != ('ok', bytes([3, tag])) or u != ('ok', {'prim': name}):
            ctx.mismatch('C05:table:primitive:%s' % name, 'primitive %s has tag 0x%02x: forge_micheline gives %s, unforge_micheline(03%02x) gives %s' % (
                name, tag, f[1].hex() if f[0] == 'ok' else f, tag, u[1] if u[0] == 'ok' else u), {'kind': 'table', 'tag': tag, 'name': name})


    # strings are length-prefixed in bytes of their UTF-8 text, whatever the characters (also next to other nodes)
    for text in ('\u00e9', 'a\u00fc\u20ac', '\u65e5\u672c', 'x' * 127 + '\u00e9'):
        raw = text.encode('utf-8')
        want = b'\x01' + len(raw).to_bytes(4, 'big') + raw
        for expr, wb in (({'string': text}, want), ([{'string': text}, {'prim': 'Unit'}], b'\x02' + (len(want) + 2).to_bytes(4, 'big') + want + b'\x03\x0b')):
            ctx.count(('text', text, isinstance(expr, list)), nontrivial=True)
            f = impl_forge(expr)
            u = impl_unforge(wb)
            if f != ('ok', wb) or u != ('ok', expr):
                ctx.mismatch('C05:text:non-ascii-string', 'string %r: forge_micheline gives %s (Tezos: %s), unforge_micheline of the Tezos bytes gives %s' % (
                    text, f[1].hex() if f[0] == 'ok' else f, wb.hex(), u[1] if u[0] == 'ok' else u), {'kind': 'text', 'text': text})


def to_expr(n, names):
    k = n[0]
    if k == 'int':
        v = int.from_bytes(bytes(n[2]), 'little')
        return {'int': str(-v if n[1] else v)}
    if k == 'string':
        return {'string': bytes(n[1]).decode('ascii')}
    if k == 'bytes':
        return {'bytes': bytes(n[1]).hex()}
    if k == 'seq':
        return [to_expr(x, names) for x in n[1]]
    if k == 'prim':
        d = {'prim': names[n[1]]}
        if n[2]:
            d['args'] = [to_expr(x, names) for x in n[2]]
        if n[3]:
            d['annots'] = [bytes(a).decode('ascii') for a in n[3]]
        return d
    raise ValueError(n)


def to_node(j, tag):
    if isinstance(j, list):
        return ['seq', [to_node(x, tag) for x in j]]
    if 'prim' in j:
        return ['prim', tag[j['prim']], [to_node(x, tag) for x in j.get('args', [])], [list(a.encode()) for a in j.get('annots', [])]]
    if 'int' in j:
        v = int(j['int'])
        return ['int', v < 0, limbs(abs(v))]
    if 'string' in j:
        return ['string', list(j['string'].encode())]
    if 'bytes' in j:
        return ['bytes', list(bytes.fromhex(j['bytes']))]
    raise ValueError(j)


def domain(n, avail):
    """None if the node is inside the compared domain, otherwise the reason for skipping it."""
    k = n[0]
    if k == 'string':
        return None if all(c < 128 for c in n[1]) else SKIP_TEXT
    if k == 'seq':
        for x in n[1]:
            r = domain(x, avail)
            if r:
                return r
    if k == 'prim':
        if n[1] not in avail:
            return SKIP_NAME
        for a in n[3]:
            if not a or any(c <= 32 or c >= 127 for c in a):
                return SKIP_TEXT
        for x in n[2]:
            r = domain(x, avail)
            if r:
                return r
    return None


def spell(j):
    """Another spelling of the same expression: explicit empty args / annots lists, zero written -0."""
    if isinstance(j, list):
        return [spell(x) for x in j]
    if 'prim' in j:
        d = {'prim': j['prim'], 'args': [spell(x) for x in j.get('args', [])], 'annots': list(j.get('annots', []))}
        return d
    if j.get('int') == '0':
        return {'int': '-0'}
    return dict(j)


# ---------- observation ----------
_nforge = [0]


def impl_forge(j):
    from pytezos.michelson.forge import forge_micheline
    _nforge[0] += 1
    if _nforge[0] % 3 == 0:
        # a call that fails half-way (a malformed node deep inside a well-formed expression) leaves nothing behind for the next call
        for bad in ({'prim': 'Pair', 'args': [{'int': '7'}, {'prim': 'Pair', 'args': [{'string': 'x'}, {'bytes': 'abc'}]}]},
                    [{'int': '1'}, {'prim': 'Pair', 'args': [{'int': '2'}, {'int': 'two'}]}]):
            try:
                forge_micheline(bad)
            except Exception:   # noqa
                pass
    try:
        return ('ok', forge_micheline(j))
    except Exception as e:   # noqa
        return ('raised', type(e).__name__)


def impl_unforge(b):
    from pytezos.michelson.forge import unforge_micheline
    try:
        return ('ok', unforge_micheline(bytes(b)))
    except Exception as e:   # noqa
        return ('raised', type(e).__name__)


def scribble(e):
    """edit a decoded expression in place, the way a caller owning it may (annotate every node, extend every sequence)"""
    if isinstance(e, list):
        for x in e:
            scribble(x)
        e.append({'prim': 'edited'})
    elif isinstance(e, dict):
        for x in e.get('args', []):
            scribble(x)
        if 'prim' in e:
            e['annots'] = ['%edited']
            e.setdefault('args', []).append({'int': '999'})
        else:
            for k in list(e):
                e[k] = 'edited'


def check_node(ctx, node, mbytes, names, avail):
    """forge(expr) = model bytes; unforge(model bytes) = expr; other spellings round-trip to the normal form."""
    j = to_expr(node, names)
    case = {'kind': 'node', 'node': to_json(node), 'bytes': list(mbytes)}
    ok = True
    f = impl_forge(j)
    if f[0] != 'ok':
        ctx.mismatch('C05:forge:raises:' + f[1], 'forge_micheline(%s) raised %s, model bytes %s' % (json.dumps(j), f[1], bytes(mbytes).hex()), case)
        ok = False
    elif f[1] != bytes(mbytes):
        ctx.mismatch('C05:forge:wrong-bytes', 'forge_micheline(%s) = %s, model %s' % (json.dumps(j), f[1].hex(), bytes(mbytes).hex()), case)
        ok = False
    u = impl_unforge(mbytes)
    if u[0] != 'ok':
        ctx.mismatch('C05:unforge:valid:raises:' + u[1], 'unforge_micheline(%s) raised %s, model decodes %s' % (bytes(mbytes).hex(), u[1], json.dumps(j)), case)
        ok = False
    elif u[1] != j:
        ctx.mismatch('C05:unforge:valid:wrong-expr', 'unforge_micheline(%s) = %s, model %s' % (bytes(mbytes).hex(), json.dumps(u[1]), json.dumps(j)), case)
        ok = False
    else:
        # decoding is a function of the bytes: whatever the caller does to one result, the next decode of the same bytes gives the expression again
        scribble(u[1])
        u3 = impl_unforge(mbytes)
        if u3 != ('ok', j):
            ctx.mismatch('C05:unforge:valid:depends-on-earlier-result', 'unforge_micheline(%s) after the caller edited an earlier result in place = %s, model %s' % (
                bytes(mbytes).hex(), json.dumps(u3[1]) if u3[0] == 'ok' else u3, json.dumps(j)), case)
            ok = False
    v = spell(j)
    if v != j:
        f2 = impl_forge(v)
        u2 = impl_unforge(f2[1]) if f2[0] == 'ok' else f2
        if u2 != ('ok', j):
            ctx.mismatch('C05:roundtrip:spelling', 'unforge(forge(%s)) = %s, normal form %s' % (json.dumps(v), u2[1] if u2[0] != 'ok' else json.dumps(u2[1]), json.dumps(j)), case)
            ok = False
        ctx.count(('spell', repr(node)), nontrivial=False)
    return ok


def check_mutant(ctx, node, base, mut, names, avail):
    """pytezos raises iff the strict decoder of the model rejects; if both accept the results agree."""
    cls, detail, patch, res = mut
    okm, dn, relaxed = res
    base = tuple(base)
    mb = base[:patch[0] - 1] + tuple(patch[2]) + (base[len(base) - patch[1]:] if patch[1] else ())
    case = {'kind': 'mutant', 'node': to_json(node), 'class': cls, 'detail': detail, 'base': list(base), 'patch': to_json(patch), 'bytes': list(mb), 'model': to_json(res)}
    if okm:
        if relaxed:
            ctx.skip(SKIP_RELAXED)
            return True
        why = domain(dn, avail)
        if why:
            ctx.skip(why)
            return True
    elif dn[1] == 'unknown-prim' and dn[2] <= MARGIN:
        ctx.skip(SKIP_MARGIN)
        return True
    u = impl_unforge(mb)
    ctx.count((cls, bytes(mb)), nontrivial=True)
    if okm:
        j = to_expr(dn, names)
        if u[0] != 'ok':
            ctx.mismatch('C05:unforge:%s:rejects-valid:%s' % (cls, u[1]), 'unforge_micheline(%s) raised %s; it is the encoding of %s' % (bytes(mb).hex(), u[1], json.dumps(j)), case)
            return False
        if u[1] != j:
            ctx.mismatch('C05:unforge:%s:wrong-expr' % cls, 'unforge_micheline(%s) = %s, model %s' % (bytes(mb).hex(), json.dumps(u[1]), json.dumps(j)), case)
            return False
        return True
    if u[0] == 'ok':
        reason = dn[1]
        ctx.mismatch('C05:unforge:accepts-malformed:' + reason,
                     'unforge_micheline(%s) returned %s; Tezos rejects this input (%s at %s; derived from the encoding of %s by %s %s)' % (
                         bytes(mb).hex(), json.dumps(u[1]), reason, dn[2], json.dumps(to_expr(node, names)) if not domain(node, avail) else to_json(node), cls, detail), case)
        return False
    return True


# ---------- Leg C ----------
def pieces(j, limit):
    """Cover of the tree by subtrees whose encoding is at most `limit` bytes (the whole tree if limit is None);
    consecutive small children of an oversize node are validated together as one sequence."""
    def flen(x):
        f = impl_forge(x)
        return len(f[1]) if f[0] == 'ok' else 0
    if limit is None or flen(j) <= limit:
        return [j], 0
    kids = j if isinstance(j, list) else j.get('args', [])
    out, spine, pack, packed = [], 1, [], 0
    for k in kids:
        n = flen(k)
        if n > limit or packed + n > limit:
            if pack:
                out.append(pack)
            pack, packed = [], 0
        if n > limit:
            p, s = pieces(k, limit)
            out += p
            spine += s
        else:
            pack.append(k)
            packed += n
    if pack:
        out.append(pack)
    return out, spine


def size(j):
    if isinstance(j, list):
        return 1 + sum(size(x) for x in j)
    return 1 + sum(size(x) for x in j.get('args', []))


def validate_cases(ctx, cases, sig='C05:trace'):
    tf = os.path.join(ctx.wd, 'forged.json')
    json.dump(cases, open(tf, 'w'))
    r = ctx.tlc('MichelineCodecTrace', TCFG, name='MichelineCodecTrace', env={'TRACE_FILE': tf}, timeout=1500, coverage=False, workers=8)
    seen = {}
    for v in r.printed:
        seen[v[1]] = v
    bad = 0
    for c in cases:
        v = seen.get(c['id'])
        if v is None:
            raise MachineryError('MichelineCodecTrace printed no verdict for case %s' % c['id'])
        if v[0] == 'REJECT':
            bad += 1
            ctx.mismatch('%s:%s' % (sig, v[2]), 'bytes produced by forge_micheline for %s are not what MichelineCodec prescribes: %s' % (c['id'], to_json(v)),
                         {'kind': 'trace', 'case': c})
    ctx.traces += len(cases) - bad
    return bad == 0


def leg_c(ctx, names):
    tag = {n: i for i, n in enumerate(names)}
    limit = 2500 if ctx.quick else None
    cases, nodes, spine = [], 0, 0
    files = sorted(glob.glob(os.path.join(REPO, 'tests', 'contract_tests', '*', '__script__.json')))
    if len(files) < 20:
        raise MachineryError('mainnet contract scripts not found under %s' % REPO)
    for f in files:
        name = os.path.basename(os.path.dirname(f))
        script = json.load(open(f))
        for sec in ('code', 'storage'):
            ps, s = pieces(script[sec], limit)
            spine += s
            for k, p in enumerate(ps):
                case = {'kind': 'script', 'file': f, 'sec': sec, 'piece': k}
                fb = impl_forge(p)
                if fb[0] != 'ok':
                    ctx.mismatch('C05:script:forge:raises:' + fb[1], 'forge_micheline raised %s on a subtree of %s %s' % (fb[1], name, sec), case)
                    continue
                b = fb[1]
                back = impl_unforge(b)
                if back != ('ok', p):
                    ctx.mismatch('C05:script:roundtrip', 'unforge(forge(x)) %s for a subtree of %s %s' % ('raised ' + back[1] if back[0] != 'ok' else 'differs from x', name, sec), case)
                cases.append({'id': '%s:%s:%d' % (name, sec, k), 'node': to_node(p, tag), 'bytes': list(b)})
                n = size(p)
                nodes += n
                ctx.count(('script', name, sec, k), nontrivial=n > 1)
    if spine:
        ctx.skip('quick tier: script nodes above the validated subtrees (whole trees are validated in the thorough tier)', spine)
    validate_cases(ctx, cases)
    ctx.extra['script_nodes_validated_by_tlc'] = nodes
    ctx.extra['script_bytes_validated_by_tlc'] = sum(len(c['bytes']) for c in cases)
    ctx.notes.append('Leg C: %d subtrees of the 20 mainnet scripts (%d Micheline nodes, %d bytes) forged by pytezos and validated by MichelineCodecTrace' % (
        len(cases), nodes, ctx.extra['script_bytes_validated_by_tlc']))


# ---------- driver ----------
def huge_fields(ctx):
    """Fields longer than 32 KiB and than 64 KiB (the length prefix has four bytes; TLC is not the tool for sequences of 70 000 elements, so these few
    are encoded by the independent Python encoder of harness/vf/c06_ref.py, which follows the same schema): forge = reference bytes, unforge gives the expression back."""
    from ..c06_ref import mich
    cases = [{'bytes': 'ab' * 33000}, {'string': 'x' * 33000}, {'string': 'y' * 70000}, [{'int': '1'}] * 17000,
             {'prim': 'Pair', 'args': [{'bytes': '00' * 40000}, {'string': 'z' * 66000}]}]
    for k, j in enumerate(cases):
        ctx.count(('huge', k), nontrivial=True)
        ctx.replayed += 1
        want = mich(j)
        f = impl_forge(j)
        u = impl_unforge(want)
        if f != ('ok', want) or u != ('ok', j):
            ctx.mismatch('C05:huge-field:%s' % ('forge' if f != ('ok', want) else 'unforge'), 'expression #%d with a field of more than 32 KiB (%d bytes encoded): forge %s, unforge of the reference bytes %s' % (
                k, len(want), 'agrees' if f == ('ok', want) else (f[1] if f[0] != 'ok' else 'differs'), 'agrees' if u == ('ok', j) else (u[1] if u[0] != 'ok' else 'differs')), {'kind': 'huge', 'k': k})


def run(ctx):
    names = prim_names()
    avail = available(names)
    check_table(ctx, names)
    missing = sorted(set(range(len(names))) - avail)
    if len(missing) > 4:
        raise MachineryError('pytezos tags.py disagrees with the protocol table on %d primitives: %s' % (len(missing), missing[:10]))
    ctx.rule = ('universe: Micheline trees of depth <= 2 (3 thorough) over boundary integers up to 2^320 (2^4096), strings, bytes, sequences of 0..4, '
                'primitives with 0..4 arguments and 0..2 annotations; for each tree the truncations, one-byte extensions, +-1 on every length field, '
                'non-minimal spelling of each integer, unknown node tags, unknown primitive tags and three replacements of each of the first 24 (64) bytes; '
                'Leg A: RoundTrip, Injective, Strict, Canon on the model; Leg B: forge/unforge of every tree and unforge of every derived byte string '
                'compared with the model (raises iff rejected, same expression if accepted); non-trivial = a derived byte string; '
                'Leg C: bytes forged by pytezos for the 20 mainnet scripts validated by TLC')
    ctx.assumptions = ['rejection of negative zero, of a present-but-empty annotation field and of a generic application with < 3 arguments is not demanded (data-encoding accepts them): skipped',
                       'strings/annotations are compared on ASCII text only; byte strings whose model decoding contains other bytes are skipped',
                       'primitive tags 159..%d are not used as "unknown" (a newer protocol may define them); the model table ends at 158 (Seoul)' % MARGIN,
                       'primitives pytezos does not know under their protocol name (%s) are skipped' % ', '.join(names[i] for i in missing),
                       'any exception raised by unforge_micheline counts as rejection']
    q = ctx.quick
    tags_a = {0, 158}
    tags_b = {28, 91, 157} if q else set(range(159))
    top = {11, 12, 127, 128, 254, 255} if q else set(range(11, 256))
    badp = {176, 238, 255} if q else set(range(MARGIN + 1, 256))
    gen = {'MichelineCodecMC': MC % (to_tla(mags(q)), to_tla(tags_a), to_tla(tags_b), to_tla(top), to_tla(badp))}
    r = ctx.tlc('MichelineCodecMC', CFG % ((24, 2) if q else (64, 3)), gen=gen, dump=True, timeout=2400, workers=8, coverage=False)
    ctx.require_no_violation(r, 'MichelineCodec')
    # vacuity is checked on the dump itself (TLC's -coverage doubles the run time): every action taken for every tree
    seen_classes, accepted, pcs = set(), 0, {}
    for st in iter_dump(r.dump):
        pcs[st['pc']] = pcs.get(st['pc'], 0) + 1
        if st['pc'] != 'done':
            continue
        node, mbytes = st['node'], st['bytes']
        why = domain(node, avail)
        if why:
            ctx.skip(why, 1 + len(st['muts']))
            continue
        ok = check_node(ctx, node, mbytes, names, avail)
        ctx.again(check_node, ctx, node, mbytes, names, avail)
        ctx.replayed += 1
        ctx.count(('node', node), nontrivial=False)
        for m in st['muts']:
            seen_classes.add(m[0])
            accepted += bool(m[3][0])
            ok = check_mutant(ctx, node, mbytes, m, names, avail) and ok
        if ok and node[0] == 'prim' and len(node[2]) >= 2:
            ctx.sample({'expr': to_expr(node, names), 'bytes': bytes(mbytes).hex(), 'derived_inputs': len(st['muts'])}, limit=4)
    want = {'trunc', 'extend', 'len+1', 'len-1', 'nonmin', 'toptag', 'nodetag', 'primtag', 'byte'}
    if seen_classes != want or not accepted or len(set(pcs.get(k, 0) for k in ('encode', 'decode', 'mutate', 'done'))) != 1 or not pcs.get('done'):
        raise MachineryError('vacuity: mutation classes %s, accepted %d, states per phase %s' % (sorted(seen_classes), accepted, pcs))
    ctx.second_pass()
    ctx.exhaustive = True
    huge_fields(ctx)
    leg_c(ctx, names)


def replay(ctx, rep):
    if rep['case'].get('kind') == 'huge':
        huge_fields(ctx)
        for m in ctx.mismatches:
            print('REPRODUCED', m.signature, m.detail)
        return 1 if ctx.mismatches else 0
    names = prim_names()
    avail = available(names)
    c = rep['case']

    def tup(x):
        return tuple(tup(y) for y in x) if isinstance(x, list) else x
    if c['kind'] == 'node':
        ok = check_node(ctx, tup(c['node']), tuple(c['bytes']), names, avail)
    elif c['kind'] == 'mutant':
        ok = check_mutant(ctx, tup(c['node']), tuple(c['base']), (c['class'], c['detail'], tup(c['patch']), tup(c['model'])), names, avail)
    elif c['kind'] == 'trace':
        ok = validate_cases(ctx, [c['case']])
    elif c['kind'] == 'script':
        leg_c(ctx, names)
        ok = not ctx.mismatches
    elif c['kind'] in ('table', 'text'):
        check_table(ctx, names)
        ok = not ctx.mismatches
    else:
        ok = True
    for m in ctx.mismatches:
        print('REPRODUCED', m.signature, m.detail)
    return 0 if ok else 1


META = {
    'category': 'model_checking',
    'text': ('MichelineCodec.tla is the Tezos binary schema of Micheline (encoder, and a strict read-pointer decoder with explicit rejection reasons) plus the '
             'protocol primitive table 0..158. TLC checks on every tree of a bounded universe that decoding inverts encoding, that different trees encode '
             'differently, that every truncation, extension, non-minimal integer, unknown node tag and unknown primitive tag is rejected, and that whatever '
             'the decoder accepts is canonical. Every tree and every derived byte string is replayed through forge_micheline / unforge_micheline (bytes, '
             'expression, raise-iff-reject). The encodings pytezos produces for the 20 mainnet scripts are validated by TLC against the same module.'),
    'design_ref': 'DESIGN.md section 5 C05, A.10, D.2',
    'note': ('Trusted: node <-> Micheline JSON conversion (names from the spec table, cross-checked with tags.py at run time), limb integers <-> Python int. '
             'Bounds: depth 2 (3), integers up to 2^320 (2^4096), tags {0,7,158} on all shapes and 3 (all 159) tags on three shapes, byte replacements on the first 24 (64) bytes. '
             'Not compared: relaxed forms data-encoding accepts, non-ASCII text, tags 159..175.'),
    'technique': 'TLA+ spec + TLC exhaustive model checking; spec-behaviour replay into forge_micheline / unforge_micheline; TLC validation of recorded encodings',
}
