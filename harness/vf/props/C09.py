"""C09 - Base58Check typed encodings are unambiguous and invertible.  Spec: Base58.tla (uses BigInt.tla)."""
import random

from .. import b58ref
from ..tlaparse import to_tla
from ..tlc import MachineryError

MC = """---- MODULE Base58MC ----
EXTENDS Base58
RowsV == %s
CasesV == %s
OKRowsV == %s
====
"""
CFG = """SPECIFICATION Spec
CONSTANTS Rows <- RowsV
 Cases <- CasesV
 Classes = {%s}
 Deep = %s
 OKRows <- OKRowsV
 TableOK = %s
INVARIANT ClaimsRight
INVARIANT EncodeStepwise
INVARIANT DecodeStepwise
INVARIANT Base58Invertible
INVARIANT EncodedShape
INVARIANT RoundTrip
INVARIANT AcceptedIsEncoding
INVARIANT Unambiguous
INVARIANT RejectedIsNoEncoding
INVARIANT Emit
"""
INVS = ['EncodeStepwise', 'DecodeStepwise', 'Base58Invertible', 'EncodedShape', 'RoundTrip', 'AcceptedIsEncoding', 'Unambiguous', 'RejectedIsNoEncoding']

# validators and the kinds their documentation names (human prefixes)
VALIDATORS = {
    'is_pkh': {'tz1', 'tz2', 'tz3', 'tz4'},
    'is_l2_pkh': {'txr1'},
    'is_sig': {'edsig', 'spsig', 'p2sig', 'BLsig', 'sig'},
    'is_bh': {'B'},
    'is_ogh': {'o'},
    'is_kt': {'KT1'},
    'is_sr': {'sr1'},
    'is_public_key': {'edpk', 'sppk', 'p2pk', 'BLpk'},
    'is_chain_id': {'Net'},
    'is_address': {'tz1', 'tz2', 'tz3', 'tz4', 'KT1', 'sr1'},
    'is_txr_address': {'txr1'},
}
# is_public_key also lists the secret-key prefixes in its code; whether a secret key "is a public key" is not
# part of the statement, so the validator is not compared on those kinds
NOT_COMPARED = {'is_public_key': {'edsk', 'spsk', 'p2sk', 'BLsk'}}


def table():
    """The kind table, read from the running code."""
    from pytezos.crypto.encoding import base58_encodings
    return [(bytes(r[0]), int(r[1]), bytes(r[2]), int(r[3]), str(r[4])) for r in base58_encodings]


def rid(row):
    return '%s/%d' % (row[0].decode('latin-1'), row[1])


def text_of(seq):
    return ''.join(map(chr, seq))


def make_cases(tbl, seed, k_random, k_corrupt):
    """Concrete inputs for the model: per row, payload classes {zeros, ones, seeded random x K} to encode, and
    corruptions of one valid text to decode."""
    cases = []   # (tla_value, meta)
    for i, (hp, elen, bp, plen, _doc) in enumerate(tbl):
        rng = random.Random('C09/%d/%d' % (seed, i))
        payloads = [('zeros', bytes(plen)), ('ones', b'\xff' * plen)]
        payloads += [('random', bytes(rng.randrange(256) for _ in range(plen))) for _ in range(k_random)]
        if plen >= len(bp):     # payloads that contain the kind's own binary prefix bytes (at the start / inside): still just payload
            r0 = payloads[2][1] if k_random else bytes(plen)
            mid = (plen - len(bp)) // 2
            payloads.append(('own-prefix-at-start', bytes(bp) + r0[len(bp):]))
            payloads.append(('own-prefix-inside', r0[:mid] + bytes(bp) + r0[mid + len(bp):]))
        for cls, p in payloads:
            ck = b58ref.cksum(bp + p)
            cases.append((('enc', tuple(hp), tuple(p), tuple(ck)), {'kind': 'enc', 'row': i, 'cls': cls, 'payload': p}))
        for base in range(min(k_corrupt, k_random)):
            p = payloads[2 + base][1]
            s = b58ref.b58check(bp, p)
            al = b58ref.ALPHABET
            n = len(hp)
            others = [r for j, r in enumerate(tbl) if j != i and r[0] != hp]
            same_len = [r for r in others if r[1] == elen and len(r[0]) == n] or [r for r in others if len(r[0]) == n] or others
            other = same_len[rng.randrange(len(same_len))]
            pos = rng.randrange(n, len(s))
            ppos = rng.randrange(0, n)
            badck = bytes([b58ref.cksum(bp + p)[0] ^ 1]) + b58ref.cksum(bp + p)[1:]
            unknown = bytes([255] * len(bp))
            corr = [
                ('valid', s),
                ('one-char', s[:pos] + al[(al.index(s[pos]) + 1 + rng.randrange(57)) % 58] + s[pos + 1:]),
                ('prefix-char', s[:ppos] + al[(al.index(s[ppos]) + 1 + rng.randrange(57)) % 58] + s[ppos + 1:]),
                ('truncated', s[:-1]),
                ('extended', s + al[rng.randrange(58)]),
                ('spliced-prefix', other[0].decode() + s[len(other[0]):]),
                ('bad-checksum', b58ref.b58(bp + p + badck)),
                ('non-alphabet', s[:pos] + '0Il'[rng.randrange(3)] + s[pos + 1:]),
                ('padded-behind', s + '\n \t\r'[rng.randrange(4)]),          # a valid text with white space around it is another, longer string
                ('padded-in-front', ' ' + s),
                ('short-payload', b58ref.b58check(bp, p[:-1])),
                ('long-payload', b58ref.b58check(bp, p + b'\x00')),
                ('unknown-binary-prefix', b58ref.b58check(unknown, p)),
                ('neighbour-binary-prefix', b58ref.b58check(bp[:-1] + bytes([(bp[-1] + (1 if i % 2 else 255)) % 256]), p)),
                # the hexadecimal spelling of the valid text is a text of other characters and another length: not an encoding
                ('hex-of-valid', s.encode().hex()),
                ('0x-hex-of-valid', '0x' + s.encode().hex().upper()),
                # bytes that are no text at all (invalid UTF-8) in front of, inside and behind a valid text (code points < 256 stand for the bytes)
                ('invalid-utf8-inside', s[:pos] + '\xff' + s[pos:]),
                ('invalid-utf8-in-front', '\xfe' + s),
                ('invalid-utf8-behind', s + '\x80'),
                ('truncated-utf8-inside', s[:pos] + '\xc3' + s[pos:]),
            ]
            for name, txt in corr:
                cases.append((('dec', tuple(map(ord, txt))), {'kind': 'dec', 'row': i, 'cls': name, 'text': txt}))
    return cases


def impl_encode(payload, hp):
    from pytezos.crypto.encoding import base58_encode
    try:
        return ('ok', base58_encode(payload, hp).decode())
    except Exception as e:   # noqa
        return ('raises', type(e).__name__)


def impl_decode(text):
    from pytezos.crypto.encoding import base58_decode
    try:
        return ('accept', bytes(base58_decode(text.encode('latin-1'))))
    except Exception as e:   # noqa
        return ('reject', type(e).__name__)


def impl_validator(name, text, as_bytes=False):
    from pytezos.crypto import encoding
    try:
        return bool(getattr(encoding, name)(text.encode('latin-1') if as_bytes else text))
    except Exception as e:   # noqa
        return 'raises-' + type(e).__name__


def check_validators(ctx, text, accepted_hp, case):
    """accepted_hp: human prefix of the kind the model accepts the text for, or None when it rejects it."""
    ok = True
    for name, kinds in sorted(VALIDATORS.items()):
        if accepted_hp in NOT_COMPARED.get(name, ()):
            ctx.skip('%s on a secret-key kind (not part of the statement)' % name)
            continue
        want = accepted_hp in kinds
        got = impl_validator(name, text)
        ctx.count(('val', name, text), nontrivial=accepted_hp is not None)
        # the validators take text or the bytes of that text (Union[str, bytes]); for bytes that are not text, failing is rejecting
        gotb = impl_validator(name, text, as_bytes=True)
        if isinstance(gotb, str) and want is False and any(ord(c) > 127 for c in text):
            gotb = False
        if got is want and gotb is not want:
            got = gotb
            name = name + ':bytes-input'
        if got is want:
            continue
        ok = False
        if got is True:
            cls = 'accepts-other-kind:' + accepted_hp if accepted_hp else 'accepts-invalid'
        elif got is False:
            cls = 'rejects-own-kind:' + accepted_hp
        else:
            cls = str(got)
        ctx.mismatch('C09:validator:%s:%s' % (name, cls), '%s(%r) = %s, expected %s (the text is %s)' % (
            name, text, got, want, 'a valid %s' % accepted_hp if accepted_hp else 'not valid for any kind'),
            dict(case, validator=name, want=want))
    return ok


def compare_enc(ctx, hp, elen, payload, want_str, row_ok, case):
    """pytezos base58_encode against the model's text; decode of that text gives the payload back."""
    ok = True
    key = '%s/%d' % (hp.decode(), elen)
    got = impl_encode(payload, hp)
    ctx.count(('enc', key, payload), nontrivial=True)
    if got != ('ok', want_str):
        ok = False
        cls = got[1] if got[0] == 'raises' else 'wrong-text'
        ctx.mismatch('C09:replay:encode:%s:%s' % (key, 'raises-' + cls if got[0] == 'raises' else cls),
                     'base58_encode(%s, %r) gave %s, model %s' % (payload.hex(), hp, got, want_str), case)
    back = impl_decode(want_str)
    ctx.count(('rt', key, payload), nontrivial=True)
    if back != ('accept', payload):
        ok = False
        cls = 'raises-' + back[1] if back[0] == 'reject' else 'wrong-payload'
        ctx.mismatch('C09:replay:roundtrip:%s:%s' % (key, cls),
                     'base58_decode(%r), the encoding of payload %s of kind %s, gave %s' % (want_str, payload.hex(), key, back), case)
    if row_ok:
        ok = check_validators(ctx, want_str, hp.decode(), case) and ok
    return ok


def compare_dec(ctx, text, verdict, cls, case):
    """verdict: ('accept', hp, payload) | ('reject',)"""
    ok = True
    got = impl_decode(text)
    ctx.count(('dec', text), nontrivial=True)
    if verdict[0] == 'accept':
        if got != ('accept', verdict[2]):
            ok = False
            c = 'rejects-valid-' + got[1] if got[0] == 'reject' else 'wrong-payload'
            ctx.mismatch('C09:replay:decode:%s:%s' % (cls, c), 'base58_decode(%r) gave %s, model accepts it as %s with payload %s' % (
                text, got, verdict[1], verdict[2].hex()), case)
    elif got[0] == 'accept':
        ok = False
        ctx.mismatch('C09:replay:decode:%s:accepts-invalid' % cls, 'base58_decode(%r) returned %s, the model rejects the text' % (text, got[1].hex()), case)
    ok = check_validators(ctx, text, verdict[1] if verdict[0] == 'accept' else None, case) and ok
    return ok


def verdict_of(tbl, res):
    """Model result + interpretation of Cksum -> expected verdict, or None when the statement does not decide."""
    tag = res[0]
    if tag == 'rej':
        return ('reject',)
    if tag == 'cand':
        _, drow, payload, body, carried = res
        if b58ref.cksum(bytes(body)) == bytes(carried):
            return ('accept', tbl[drow - 1][0].decode(), bytes(payload))
        return ('reject',)
    if tag in ('badlen', 'off'):
        # text length and human prefix are a kind's, the bytes are not: rejected for the checksum if that is wrong; otherwise
        # the statement ("wrong checksum, unknown prefix, wrong length") does not decide
        return ('reject',) if not b58ref.check_ok(bytes(res[2])) else None
    raise MachineryError('unexpected model result %r' % (res,))


def run(ctx):
    tbl = table()
    k_random, k_corrupt = (1, 1) if ctx.quick else (12, 3)
    classes = ['zero', 'ones'] if ctx.quick else ['zero', 'ones', 'zero-ff', 'ones-00', 'low', 'high', 'mid']
    ctx.rule = ('kind table read from the running code (%d rows); Leg A: TLC encodes, per row, the payload/checksum classes %s and every concrete case three digits per step and '
                'checks the end points, the shape of every encoding, invertibility and that the (length, human prefix) decoder accepts exactly the encodings; '
                'Leg B: per row payloads {zeros, ones, %d seeded random, two containing the binary prefix of their own kind} are encoded and 20 corruption classes of %d valid text(s) per row are decoded by the model, the checksum '
                'is interpreted with hashlib, and base58_encode / base58_decode / is_* are compared with the model; non-trivial = every case (distinct row x payload / text)'
                % (len(tbl), classes, k_random, k_corrupt))
    ctx.assumptions = ['Cksum is uninterpreted in the spec and interpreted by hashlib sha256(sha256(.))[:4] in the harness',
                       'the table (human prefix, lengths, binary prefix) is the code\'s own documentation; binary prefixes are only checked to produce the documented human prefix',
                       'texts whose length and human prefix are a kind\'s and whose checksum is right but whose bytes do not carry the kind\'s binary prefix / byte length are not compared (the statement does not decide them)',
                       'is_public_key is not compared on secret-key kinds']
    cases = make_cases(tbl, ctx.seed, k_random, k_corrupt)
    rows_v = to_tla(tuple((tuple(hp), elen, tuple(bp), plen) for hp, elen, bp, plen, _ in tbl))
    cases_v = '<<' + ',\n  '.join(to_tla(c[0]) for c in cases) + '>>'
    # claims about the table, computed with the independent encoder and verified by TLC (invariant ClaimsRight)
    def claim_ok(row):
        hp, elen, bp, plen, _ = row
        lo, hi = b58ref.b58(bp + bytes(plen + 4)), b58ref.b58(bp + b'\xff' * (plen + 4))
        return len(lo) == elen == len(hi) and lo.startswith(hp.decode('latin-1')) and hi.startswith(hp.decode('latin-1')) and any(bp)
    ok_rows = {i + 1 for i, row in enumerate(tbl) if claim_ok(row)}
    table_ok = not any(i < j and ((a[1] == b[1] and (a[0].startswith(b[0]) or b[0].startswith(a[0]))) or (a[0] == b[0] and a[3] == b[3]))
                       for i, a in enumerate(tbl) for j, b in enumerate(tbl))
    gen = {'Base58MC': MC % (rows_v, cases_v, to_tla(ok_rows))}
    cfg = CFG % (', '.join('"%s"' % c for c in classes), 'FALSE' if ctx.quick else 'TRUE', 'TRUE' if table_ok else 'FALSE')
    r = ctx.tlc('Base58MC', cfg, gen=gen, timeout=1500)
    ctx.require_no_violation(r, 'Base58')
    ctx.require_coverage(r, ['EncLookup', 'EncDiv', 'EncToDec', 'DecStart', 'DecLookup', 'DecMul', 'DecCheck'])
    outs = [v for v in r.printed if v[0] == 'OUT']
    tables = [v for v in outs if v[1] == 'table']
    if len(tables) != 1:
        raise MachineryError('expected one table record from TLC, got %d' % len(tables))
    _, _, overlaps, encdups, badchars = tables[0]
    ends = {(v[2], v[3]): v for v in outs if v[1] == 'end'}
    if sorted(ends) != [(i, b) for i in range(1, len(tbl) + 1) for b in (0, 255)]:
        raise MachineryError('TLC exported %d of %d end points' % (len(ends), 2 * len(tbl)))
    facts = [(ends[(i, 0)][4], ends[(i, 255)][4], ends[(i, 0)][5], ends[(i, 255)][5], ends[(i, 0)][6]) for i in range(1, len(tbl) + 1)]
    row_ok = []
    if {i + 1 for i, row in enumerate(tbl) if tuple(facts[i]) == (row[1], row[1], True, True, True)} != ok_rows or table_ok != (not overlaps and not encdups):
        raise MachineryError('the table facts computed by TLC differ from the independent encoder\'s claims')
    for i, row in enumerate(tbl):
        hp, elen, bp, plen, doc = row
        f = tuple(facts[i])
        good = f == (elen, elen, True, True, True)
        row_ok.append(good)
        ctx.count(('table', rid(row)), nontrivial=True)
        if not good:
            lo, hi = b58ref.b58(bp + bytes(plen + 4)), b58ref.b58(bp + b'\xff' * (plen + 4))
            ctx.mismatch('C09:table:%s:payload%d:encodes-to-len%d..%d:prefix-%s' % (rid(row), plen, f[0], f[1], 'ok' if f[2] and f[3] else 'differs'),
                         'row %r (%s): binary prefix %s + %d payload bytes + 4 checksum bytes encodes to %d..%d characters starting %s / %s; documented: %d characters starting %s. '
                         'No payload of this kind can be encoded to the documented form, and the encodings are not decodable.' % (
                             hp.decode(), doc, bp.hex(), plen, f[0], f[1], lo[:len(hp) + 2], hi[:len(hp) + 2], elen, hp.decode()),
                         {'kind': 'table', 'row': list(map(lambda x: x.hex() if isinstance(x, bytes) else x, row))})
    for name, pairs in (('same-text', overlaps), ('same-request', encdups)):
        for i, j in sorted(pairs):
            ctx.mismatch('C09:table:ambiguous-%s:%s~%s' % (name, rid(tbl[i - 1]), rid(tbl[j - 1])), 'rows %s and %s can match the %s' % (
                rid(tbl[i - 1]), rid(tbl[j - 1]), 'same text' if name == 'same-text' else 'same (prefix, payload length)'), {'kind': 'table'})
    for i in sorted(badchars):
        ctx.mismatch('C09:table:prefix-not-base58:%s' % rid(tbl[i - 1]), 'human prefix has a character outside the alphabet', {'kind': 'table'})
    by_id = {v[2]: v for v in outs if v[1] == 'case'}
    if sorted(by_id) != list(range(1, len(cases) + 1)):
        raise MachineryError('TLC exported %d of %d cases' % (len(by_id), len(cases)))
    for n, (_tla, meta) in enumerate(cases, 1):
        _, _, _, erow, str_, res = by_id[n]
        row = tbl[meta['row']]
        hp, elen, bp, plen, _ = row
        ctx.replayed += 1
        if meta['kind'] == 'enc':
            want = text_of(str_)
            if erow != meta['row'] + 1 and tbl[erow - 1][:4] != row[:4]:
                raise MachineryError('model encoded with row %d, expected %d' % (erow, meta['row'] + 1))
            if want != b58ref.b58check(bp, meta['payload']):
                raise MachineryError('model text %s differs from the independent encoder for %s' % (want, rid(row)))
            case = {'kind': 'enc', 'hp': hp.decode(), 'elen': elen, 'payload': meta['payload'].hex(), 'text': want, 'row_ok': row_ok[meta['row']]}
            ok = compare_enc(ctx, hp, elen, meta['payload'], want, row_ok[meta['row']], case)
            ctx.again(compare_enc, ctx, hp, elen, meta['payload'], want, row_ok[meta['row']], case)
            if ok and meta['cls'] == 'random':
                ctx.sample({'encode': rid(row), 'payload': meta['payload'].hex(), 'text': want}, limit=3)
        else:
            if text_of(str_) != meta['text']:
                raise MachineryError('case %d text mangled' % n)
            v = verdict_of(tbl, res)
            if v is None:
                ctx.skip('human prefix and text length of a kind, checksum right, bytes not of the kind (%s)' % res[0])
                continue
            case = {'kind': 'dec', 'cls': meta['cls'], 'text': meta['text'], 'verdict': [v[0]] + ([v[1], v[2].hex()] if v[0] == 'accept' else [])}
            ok = compare_dec(ctx, meta['text'], v, meta['cls'], case)
            ctx.again(compare_dec, ctx, meta['text'], v, meta['cls'], case)
            if ok and meta['cls'] in ('spliced-prefix', 'bad-checksum'):
                ctx.sample({'decode': meta['text'], 'corruption': meta['cls'], 'model': v[0]}, limit=6)
    ctx.second_pass()
    concurrent_decoders(ctx, tbl)


def concurrent_decoders(ctx, tbl):
    """Decoding is a function of the text: several threads decoding texts of different kinds (prefix lengths 2..5) at the same time get what one thread gets."""
    import threading
    from pytezos.crypto.encoding import base58_decode
    rows = [r for i, r in enumerate(tbl) if r[1] and r[3] > 0]
    rows = sorted(rows, key=lambda r: (len(r[2]), r[0]))
    picks = [rows[0], rows[len(rows) // 3], rows[2 * len(rows) // 3], rows[-1]]
    work = []
    for k, (hp, elen, bp, plen, _doc) in enumerate(picks):
        p = bytes((37 * j + k) % 256 for j in range(plen))
        work.append((b58ref.b58check(bp, p).encode(), p))
    bad = []

    def run(k):
        text, want = work[k]
        for _ in range(3000):
            try:
                got = bytes(base58_decode(text))
            except Exception as e:   # noqa
                got = 'raised %r' % (e,)
            if got != want:
                bad.append((text.decode(), want.hex(), got.hex() if isinstance(got, bytes) else got))
                return
    ts = [threading.Thread(target=run, args=(k % len(work),)) for k in range(8)]
    import sys
    old = sys.getswitchinterval()
    sys.setswitchinterval(1e-5)
    try:
        for t in ts:
            t.start()
        for t in ts:
            t.join()
    finally:
        sys.setswitchinterval(old)
    ctx.count(('threads', len(ts)), nontrivial=True)
    ctx.replayed += 8 * 3000
    if bad:
        text, want, got = bad[0]
        ctx.mismatch('C09:concurrent:decode-differs', 'with 8 threads decoding texts of 4 kinds at the same time, base58_decode(%r) gave %s, the payload is %s (%d thread(s) saw a difference)' % (text, got, want, len(bad)),
                     {'kind': 'threads'})


def replay(ctx, rep):
    c = rep['case']
    if c.get('kind') == 'enc':
        ok = compare_enc(ctx, c['hp'].encode(), c['elen'], bytes.fromhex(c['payload']), c['text'], c.get('row_ok', True), c)
    elif c.get('kind') == 'dec':
        v = c['verdict']
        v = ('accept', v[1], bytes.fromhex(v[2])) if v[0] == 'accept' else ('reject',)
        ok = compare_dec(ctx, c['text'], v, c['cls'], c)
    elif c.get('kind') == 'threads':
        concurrent_decoders(ctx, table())
        ok = not ctx.mismatches
    else:
        # table finding: re-derive it from the running code
        run(ctx)
        ok = not any(m.signature == rep['signature'] for m in ctx.mismatches)
        ctx.mismatches = [m for m in ctx.mismatches if m.signature == rep['signature']]
    for m in ctx.mismatches:
        print('REPRODUCED', m.signature, m.detail)
    return 0 if ok else 1


META = {
    'category': 'model_checking',
    'text': ('Base58.tla models base58check encoding and decoding digit by digit over limb-encoded big integers (BigInt.tla) with the kind table read from the '
             'running code. TLC checks that the stepwise machine equals the declarative conversion, that base 58 with the leading-zero rule is invertible, that the '
             'end points of every row (and therefore every payload) have the documented length and human prefix, that no two rows can match one text, and that the '
             '(length, human prefix) decoder accepts exactly the encodings. Concrete payloads and corrupted texts are run through the same model; its texts and '
             'verdicts (checksum interpreted by hashlib) are compared with base58_encode, base58_decode and the is_* validators.'),
    'design_ref': 'DESIGN.md section 5 C09',
    'note': ('Trusted: table extraction, hashlib interpretation of the checksum, corruption generator. Per row: payloads zeros / ones / seeded random (1 quick, 12 thorough), '
             '20 corruption classes of 1 (3) valid texts per row; the digit-by-digit definitions are compared on the lower end points (quick) / on every input (thorough). Binary prefixes are taken from the code and only checked against the documented human prefix.'),
    'technique': 'TLA+ spec + TLC exhaustive model checking over the table; model-evaluated cases replayed into base58_encode / base58_decode / is_*',
}
