"""C15 - big_map operations and lazy diffs agree with a layered dictionary model.  Spec: BigMapLayer.tla."""
import hashlib, json

from .. import b58
from ..tlaparse import to_json, to_tla

MC = """---- MODULE BigMapLayerMC ----
EXTENDS BigMapLayer
F(a, b, c) == [k \\in Keys |-> CASE k = "a" -> a [] k = "b" -> b [] OTHER -> c]
InitsV == %s
====
"""
CFG = """SPECIFICATION Spec
CONSTANTS Keys = {%s}
 MaxVal = 2
 MaxOps = %d
 Inits <- InitsV
INVARIANT Layered
INVARIANT ObsOK
INVARIANT ApplyDiff
INVARIANT FreshHasNothingOnChain
INVARIANT Emit
"""
BM_ID = 5


def key_hash(k):
    """script expression hash of the packed string key, computed independently of pytezos"""
    kb = k.encode()
    packed = b'\x05\x01' + len(kb).to_bytes(4, 'big') + kb
    return b58.check_encode(b58.P['expr'], hashlib.blake2b(packed, digest_size=32).digest())


# model value 1 is the empty string (a falsy Python value that is nevertheless a binding), 2 is "w"
VAL = {1: '', 2: 'w'}
UNVAL = {'': 1, 'w': 2}
OPS = {
    'get': lambda k, v: 'DUP ; PUSH string "%s" ; GET ; DIG 2 ; SWAP ; CONS ; SWAP' % k,
    'mem': lambda k, v: 'DUP ; PUSH string "%s" ; MEM ; DIG 3 ; SWAP ; CONS ; DUG 2' % k,
    'upd': lambda k, v: 'PUSH (option string) %s ; PUSH string "%s" ; UPDATE' % ('(Some "%s")' % VAL[v] if v else 'None', k),
    'gau': lambda k, v: 'PUSH (option string) %s ; PUSH string "%s" ; GET_AND_UPDATE ; DIG 2 ; SWAP ; CONS ; SWAP' % ('(Some "%s")' % VAL[v] if v else 'None', k),
}


def script(hist):
    body = ' ; '.join(OPS[op[0]](op[1], op[2] if len(op) > 2 else None) for op in hist)
    return ('parameter unit ; storage (pair (big_map string string) (pair (list (option string)) (list bool))) ; '
            'code { CDR ; UNPAIR 3 ; %s PAIR 3 ; NIL operation ; PAIR }' % (body + ' ; ' if body else ''))


def run_impl(mode, chain, literal, hist):
    from pytezos.michelson.parse import michelson_to_micheline
    from pytezos.michelson.repl import Interpreter
    from pytezos.rpc.shell import ShellQuery
    from ..bigmapnode import BigMapNode
    node = BigMapNode({BM_ID: {key_hash(k): {'string': VAL[v]} for k, v in chain.items() if v}})
    if mode == 'existing':
        bm = {'int': str(BM_ID)}
    else:
        bm = [{'prim': 'Elt', 'args': [{'string': k}, {'string': VAL[v]}]} for k, v in sorted(literal.items()) if v > 0]
    storage = {'prim': 'Pair', 'args': [bm, {'prim': 'Pair', 'args': [[], []]}]}
    ops, st, lazy_diff, stdout, err = Interpreter.run_code(parameter={'prim': 'Unit'}, storage=storage, script=michelson_to_micheline(script(hist)),
                                                          shell=ShellQuery(node=node))
    return st, lazy_diff, err, node


def flat_args(st):
    a = st['args'] if isinstance(st, dict) else st
    out = []
    while len(a) == 2 and isinstance(a[1], dict) and a[1].get('prim') == 'Pair':
        out.append(a[0])
        a = a[1]['args']
    return out + list(a)


def compare(ctx, mode, chain, hist, obs, flat, literal):
    case = {'mode': mode, 'chain': chain, 'literal': literal, 'hist': to_json(hist), 'obs': to_json(obs), 'flat': flat}
    st, lazy_diff, err, node = run_impl(mode, chain, literal, hist)
    desc = 'mode=%s chain=%s literal=%s ops=%s' % (mode, chain, literal, json.dumps(to_json(hist)))
    if err is not None:
        ctx.mismatch('C15:run:raises', '%s: run_code failed: %s' % (desc, str(err)[:300]), case)
        return False
    bm, gets, mems = flat_args(st)
    got_gets = [None if g['prim'] == 'None' else UNVAL[g['args'][0]['string']] for g in reversed(gets)]
    got_mems = [m['prim'] == 'True' for m in reversed(mems)]
    want_gets = [o[1] if o[1] else None for o in obs if o[0] == 'get']
    want_mems = [o[1] for o in obs if o[0] == 'mem']
    ok = True
    if got_gets != want_gets or got_mems != want_mems:
        last = hist[-1][0]
        ctx.mismatch('C15:observation:%s' % ('get' if got_gets != want_gets else 'mem'), '%s: GET results %s (model %s), MEM results %s (model %s)' % (desc, got_gets, want_gets, got_mems, want_mems), case)
        ok = False
    # the diff, applied to the chain contents, must give the final dictionary
    diffs = [d for d in lazy_diff if d['kind'] == 'big_map']
    if len(diffs) != 1:
        ctx.mismatch('C15:diff:count', '%s: %d big_map diffs emitted' % (desc, len(diffs)), case)
        return False
    d = diffs[0]
    action = d['diff']['action']
    result = dict(chain) if mode == 'existing' else {k: 0 for k in chain}
    want_action = 'update' if mode == 'existing' else 'alloc'
    if action != want_action or (mode == 'existing' and d['id'] != str(BM_ID)) or bm != {'int': d['id']}:
        ctx.mismatch('C15:diff:action-or-id', '%s: diff action %s id %s, storage %s (expected %s)' % (desc, action, d['id'], bm, want_action), case)
        ok = False
    seen = set()
    for u in d['diff'].get('updates', []):
        k = u['key'].get('string')
        if u.get('key_hash') != key_hash(k):
            ctx.mismatch('C15:diff:key_hash', '%s: key %r has key_hash %s, expected %s' % (desc, k, u.get('key_hash'), key_hash(k)), case)
            ok = False
        if k in seen:
            ctx.mismatch('C15:diff:duplicate-entry', '%s: key %r occurs twice in the diff %s' % (desc, k, json.dumps(d['diff']['updates'])), case)
            ok = False
        seen.add(k)
        result[k] = UNVAL[u['value']['string']] if 'value' in u else 0
    if {k: v for k, v in result.items()} != flat:
        ctx.mismatch('C15:diff:apply', '%s: diff %s applied to chain gives %s, final dictionary is %s' % (desc, json.dumps(d['diff'].get('updates')), result, flat), case)
        ok = False
    return ok


def run_config(ctx, keys, depth, ninit):
    inits = [('existing', (1, 0, 2), (0, 0, 0)), ('existing', (0, 0, 0), (0, 0, 0)), ('existing', (1, 1, 1), (0, 0, 0)), ('existing', (0, 2, 0), (0, 0, 0)),
             ('fresh', (0, 0, 0), (0, 0, 0)), ('fresh', (0, 0, 0), (1, 0, 0)), ('fresh', (0, 0, 0), (1, 0, 2))]
    if not ctx.quick:
        inits = inits[:2] + inits[4:6] + [('existing', (2, 1, 0), (0, 0, 0))]
    else:
        inits = [inits[0], inits[3], inits[6]]
    if ninit:
        inits = [inits[0], inits[1]][:ninit]
    init_tla = '{' + ', '.join('<<"%s", F(%d, %d, %d), F(%d, %d, %d)>>' % ((m,) + c + l) for m, c, l in inits) + '}'
    gen = {'BigMapLayerMC': MC % init_tla}
    r = ctx.tlc('BigMapLayerMC', CFG % (', '.join('"%s"' % k for k in keys), depth), gen=gen, timeout=1500, coverage=True, name='BigMapLayerMC_%d_%d' % (len(keys), depth))
    ctx.require_no_violation(r, 'BigMapLayer')
    ctx.require_coverage(r, ['Get', 'Mem', 'Upd', 'GetUpd'])
    outs = sorted((v for v in r.printed if v[0] == 'OUT'), key=repr)
    for v in outs:
        _, mode, chain, lit, hist, obs, flat = v
        ok = compare(ctx, mode, dict(chain), hist, obs, dict(flat), dict(lit))
        ctx.replayed += 1
        ctx.count((mode, tuple(sorted(chain.items())), tuple(sorted(lit.items())), hist), nontrivial=any(o[0] in ('upd', 'gau') for o in hist))
        if ok and len(hist) == depth and ctx.replayed % 211 == 1:
            ctx.sample({'mode': mode, 'chain': chain, 'literal': lit, 'ops': hist, 'observations': obs, 'final': flat}, limit=5)

def run(ctx):
    ctx.rule = ('keys {a,b} (thorough {a,b,c}), values 1..2; modes: existing on-chain big_map (4 content splits) and fresh literal (3 literals); every history of GET / MEM / UPDATE '
                '(set or remove) / GET_AND_UPDATE up to 3 (4) operations. Leg A: the layered view (local bindings / removals over chain contents) equals a flat dictionary, '
                'every observation equals the dictionary\'s, and the diff the layer stands for applied to the chain gives the dictionary. Leg B: each history is compiled into a '
                'contract run by Interpreter.run_code against a simulated node serving the on-chain entries (real ShellQuery path); GET/MEM results, the emitted lazy diff '
                'applied to the chain contents, its action/id and each key_hash (recomputed with hashlib) are compared; non-trivial = history has an update')
    ctx.assumptions = ['string keys, string values (the empty string included)', 'the exact shape of the diff is not prescribed: only its effect, action, id and key hashes', 'key_hash recomputed independently (own PACK of a string + blake2b + base58)']
    configs = [(['a', 'b'], 3, None)] if ctx.quick else [(['a', 'b', 'c'], 3, None), (['a', 'b'], 4, 2)]
    for keys, depth, ninit in configs:
        run_config(ctx, keys, depth, ninit)
    ctx.exhaustive = True


def replay(ctx, rep):
    c = rep['case']
    tup = lambda x: tuple(tup(y) for y in x) if isinstance(x, list) else x
    ok = compare(ctx, c['mode'], c['chain'], tup(c['hist']), tup(c['obs']), c['flat'], c.get('literal') or {})
    for m in ctx.mismatches:
        print('REPRODUCED', m.signature, m.detail[:800])
    return 0 if ok else 1


META = {
    'category': 'model_checking',
    'text': ('BigMapLayer.tla keeps a big_map the way the code does (local bindings and removals over on-chain contents) next to a flat dictionary and lets TLC check, over every '
             'history of GET / MEM / UPDATE / GET_AND_UPDATE up to the bound and every split of keys between chain and local literal, that all observations and the effect of the '
             'final diff equal the dictionary. Every history is then compiled into a contract and executed by Interpreter.run_code against a simulated node serving the on-chain '
             'entries through the real RPC query layer; observations, the emitted lazy diff applied to the chain contents, its action/id and every key_hash are compared.'),
    'design_ref': 'DESIGN.md section 5 C15, A.3',
    'note': 'Trusted: BigMapNode (RpcNode subclass serving context/big_maps/<id>/<hash>), independent key hash computation, script generation. Bounds: 2 (3) string keys, values 1..2, 3 (4) operations, 7 (5) initial splits.',
    'technique': 'TLA+ layered-dictionary model, TLC exhaustive over histories; replay as contracts through Interpreter.run_code against a simulated node',
}
