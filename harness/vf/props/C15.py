"""C15 - big_map operations and lazy diffs agree with a layered dictionary model.  Spec: BigMapLayer.tla."""
import hashlib, json

from .. import b58
from ..tlaparse import to_json, to_tla

MC = """---- MODULE BigMapLayerMC ----
EXTENDS BigMapLayer
F(a, b, c) == [k \\in Keys |-> CASE k = "a" -> a [] k = "b" -> b [] OTHER -> c]
InitsV == %s
====
"""
CFG = """SPECIFICATION Spec
CONSTANTS Keys = {%s}
 MaxVal = 2
 MaxOps = %d
 Inits <- InitsV
INVARIANT Layered
INVARIANT ObsOK
INVARIANT ApplyDiff
INVARIANT FreshHasNothingOnChain
INVARIANT Emit
"""
BM_ID = 5


def bm_id(mode, fam):
    """the on-chain big_map: id 5, and id 0 (the first big_map of a chain is a big_map like any other) for the in-place families other than string"""
    # (not when the run also creates a second big_map: the interpreter numbers new big_maps from 0, which on a real chain would be an id above all existing ones)
    return 0 if (mode == 'existing' and fam != 'string' and NEST[0] != 'sibling') else BM_ID


def zarith(n):
    """Micheline integer encoding, written independently of pytezos"""
    neg, n = n < 0, abs(n)
    first = (n & 0x3f) | (0x40 if neg else 0)
    n >>= 6
    out = []
    if n:
        first |= 0x80
    out.append(first)
    while n:
        b = n & 0x7f
        n >>= 7
        out.append(b | (0x80 if n else 0))
    return bytes(out)


def enc(node):
    """binary Micheline of a key in the form big_map key hashes are taken of: pairs stay nested binary pairs (the legacy optimized form)"""
    t = node[0]
    if t == 's':
        return b'\x01' + len(node[1].encode()).to_bytes(4, 'big') + node[1].encode()
    if t == 'n':
        return b'\x00' + zarith(node[1])
    if t == 'b':
        return b'\x0a' + len(node[1]).to_bytes(4, 'big') + node[1]
    if t == 'p':      # right comb of the leaves
        leaves = node[1]
        return enc(leaves[0]) if len(leaves) == 1 else b'\x07\x07' + enc(leaves[0]) + enc(('p', leaves[1:]))
    if t == 'bool':
        return b'\x03\x0a' if node[1] else b'\x03\x03'
    if t == 'none':
        return b'\x03\x06'
    if t == 'some':
        return b'\x05\x09' + enc(node[1])
    if t == 'left':
        return b'\x05\x05' + enc(node[1])
    if t == 'right':
        return b'\x05\x08' + enc(node[1])
    if t == 'raw':      # address / key_hash: packed as the bytes of the optimized form
        return b'\x0a' + len(node[2]).to_bytes(4, 'big') + node[2]
    raise ValueError(node)


def lit(node):
    t = node[0]
    if t == 'raw':
        return '"%s"' % node[1]
    return {'s': lambda: '"%s"' % node[1], 'n': lambda: str(node[1]), 'b': lambda: '0x' + node[1].hex(), 'p': lambda: '(Pair %s)' % ' '.join(lit(x) for x in node[1]),
            'bool': lambda: 'True' if node[1] else 'False', 'none': lambda: 'None', 'some': lambda: '(Some %s)' % lit(node[1]),
            'left': lambda: '(Left %s)' % lit(node[1]), 'right': lambda: '(Right %s)' % lit(node[1])}[t]()


def mich(node):
    t = node[0]
    if t in ('s', 'raw'):
        return {'string': node[1]}
    if t == 'n':
        return {'int': str(node[1])}
    if t == 'b':
        return {'bytes': node[1].hex()}
    if t == 'p':
        leaves = node[1]
        return mich(leaves[0]) if len(leaves) == 1 else {'prim': 'Pair', 'args': [mich(leaves[0]), mich(('p', leaves[1:]))]}
    if t == 'bool':
        return {'prim': 'True' if node[1] else 'False'}
    if t == 'none':
        return {'prim': 'None'}
    return {'prim': {'some': 'Some', 'left': 'Left', 'right': 'Right'}[t], 'args': [mich(node[1])]}


def norm(e):
    """a Micheline key as printed in a diff, in a form independent of how combs are written (flat, nested or as a sequence)"""
    if isinstance(e, list):
        e = {'prim': 'Pair', 'args': e}
    if e.get('prim') == 'Pair':
        args = list(e['args'])
        out = [norm(a) for a in args[:-1]]
        last = norm(args[-1])
        return ('Pair',) + tuple(out) + (last[1:] if last[0] == 'Pair' else (last,))
    if 'prim' in e:
        return (e['prim'],) + tuple(norm(a) for a in e.get('args', []))
    return tuple(sorted(e.items()))


N = lambda n: ('n', n)
# key families: Michelson key type, the concrete key standing for each abstract key of the model
FAMILIES = {
    'string': ('string', {'a': ('s', ''), 'b': ('s', 'a'), 'c': ('s', 'b')}),
    'nat': ('nat', {'a': N(0), 'b': N(1), 'c': N(70000)}),
    'int': ('int', {'a': N(-70000), 'b': N(-64), 'c': N(63)}),      # negative keys whose magnitude needs more than the head byte
    'bytes': ('bytes', {'a': ('b', b''), 'b': ('b', b'\x00'), 'c': ('b', b'\x00\x00')}),
    'pair': ('pair nat string', {'a': ('p', [N(0), ('s', '')]), 'b': ('p', [N(0), ('s', 'x')]), 'c': ('p', [N(1), ('s', '')])}),
    'comb4': ('pair nat nat nat nat', {'a': ('p', [N(0), N(0), N(0), N(0)]), 'b': ('p', [N(1), N(2), N(3), N(4)]), 'c': ('p', [N(1), N(2), N(3), N(5)])}),
    'comb3n': ('pair (pair nat nat) bool (option nat)', {'a': ('p', [('p', [N(1), N(2)]), ('bool', False), ('none',)]), 'b': ('p', [('p', [N(1), N(2)]), ('bool', False), ('some', N(0))]),
                                                         'c': ('p', [('p', [N(2), N(1)]), ('bool', True), ('none',)])}),
    # the same three tz1 texts as keys of type address and of type key_hash: equal texts, different packed forms (22 / 21 bytes), hence different key hashes
    'address': ('address', {k: ('raw', b58.address_from_bytes(b'\x00\x00' + bytes([n]) * 20), b'\x00\x00' + bytes([n]) * 20) for k, n in (('a', 1), ('b', 2), ('c', 3))}),
    'key_hash': ('key_hash', {k: ('raw', b58.address_from_bytes(b'\x00\x00' + bytes([n]) * 20), b'\x00' + bytes([n]) * 20) for k, n in (('a', 1), ('b', 2), ('c', 3))}),
    'or': ('or nat (or bool nat)', {'a': ('left', N(0)), 'b': ('right', ('left', ('bool', False))), 'c': ('right', ('right', N(0)))}),
}


def key_hash(k, fam='string'):
    """script expression hash of the packed key, computed independently of pytezos"""
    packed = b'\x05' + enc(FAMILIES[fam][1][k])
    return b58.check_encode(b58.P['expr'], hashlib.blake2b(packed, digest_size=32).digest())


# model value 1 is the empty string (a falsy Python value that is nevertheless a binding), 2 is "w"
VAL = {1: '', 2: 'w'}
UNVAL = {'': 1, 'w': 2}
VALTYPE = ['string']      # value type of the big_map under test: string ("" and "w") or list nat ({} and { 7 }: the empty list is an empty Micheline sequence)


def vtype():
    return 'string' if VALTYPE[0] == 'string' else 'list nat'


def vjson(v):
    return {'string': VAL[v]} if VALTYPE[0] == 'string' else ([] if v == 1 else [{'int': '7'}])


def vlit(v):
    return '"%s"' % VAL[v] if VALTYPE[0] == 'string' else ('{}' if v == 1 else '{ 7 }')


def unv(j):
    if VALTYPE[0] == 'string':
        return UNVAL[j['string']]
    return 1 if j == [] else 2


def ops_text(fam, op):
    kt, keys = FAMILIES[fam]
    push = 'PUSH (%s) %s' % (kt, lit(keys[op[1]]))
    v = op[2] if len(op) > 2 else None
    newv = 'PUSH (option (%s)) %s' % (vtype(), '(Some %s)' % vlit(v) if v else 'None')
    return {'get': 'DUP ; %s ; GET ; DIG 2 ; SWAP ; CONS ; SWAP' % push,
            'mem': 'DUP ; %s ; MEM ; DIG 3 ; SWAP ; CONS ; DUG 2' % push,
            'upd': '%s ; %s ; UPDATE' % (newv, push),
            'gau': '%s ; %s ; GET_AND_UPDATE ; DIG 2 ; SWAP ; CONS ; SWAP' % (newv, push)}[op[0]]


NEST = ['plain']     # where the big_map under test sits in the storage: 'plain' (first component), 'mapval' (inside the value of an ordinary map: pair -> map -> pair ->
                     # big_map), 'sibling' (followed by a second big_map that the execution creates afresh: two new ids in one run)


def script(hist, fam='string', mode='existing', marker=False):
    kt = FAMILIES[fam][0]
    body = 'RENAME' if marker else ' ; '.join(ops_text(fam, op) for op in hist)
    bmt = 'big_map (%s) (%s)' % (kt, vtype())
    slot, pro, epi, n, tail = bmt, '', '', 3, '(list bool)'
    if NEST[0] == 'mapval':
        slot = 'map nat (pair (%s) nat)' % bmt
        pro = 'PUSH nat 0 ; GET ; IF_NONE { PUSH string "no" ; FAILWITH } {} ; CAR ; '
        epi = 'PUSH nat 7 ; SWAP ; PAIR ; SOME ; EMPTY_MAP nat (pair (%s) nat) ; SWAP ; PUSH nat 0 ; UPDATE ; ' % bmt
    elif NEST[0] == 'sibling':
        n, tail = 4, '(pair (list bool) (big_map nat nat))'
        pro = 'DIG 3 ; DROP ; '
        epi = 'EMPTY_BIG_MAP nat nat ; PUSH (option nat) (Some 1) ; PUSH nat 1 ; UPDATE ; DUG 3 ; '
    store = 'pair (%s) (pair (list (option (%s))) %s)' % (slot, vtype(), tail)
    body = body + ' ; ' if body else ''
    if mode == 'copy':    # the big_map of the parameter replaces the (empty, fresh) one of the storage
        return ('parameter (big_map (%s) (%s)) ; storage (%s) ; code { UNPAIR ; SWAP ; CDR ; SWAP ; PAIR ; UNPAIR %d ; %s%s%sPAIR %d ; NIL operation ; PAIR }'
                % (kt, vtype(), store, n, pro, body, epi, n))
    return 'parameter unit ; storage (%s) ; code { CDR ; UNPAIR %d ; %s%s%sPAIR %d ; NIL operation ; PAIR }' % (store, n, pro, body, epi, n)


_PARSED = {}


def _parse(text):
    """the pytezos text parser, memoised per snippet (the whole script is the concatenation of the snippets' Micheline)"""
    if text not in _PARSED:
        from pytezos.michelson.parse import michelson_to_micheline
        _PARSED[text] = michelson_to_micheline(text)
    return _PARSED[text]


def script_micheline(hist, fam, mode):
    import copy
    skeleton = copy.deepcopy(_parse(script((), fam, mode, marker=True)))
    code = next(s for s in skeleton if s['prim'] == 'code')['args'][0]
    body = [i for op in hist for i in copy.deepcopy(_parse('{ %s }' % ops_text(fam, op)))]
    at = next(i for i, ins in enumerate(code) if ins == {'prim': 'RENAME'})
    code[at:at + 1] = body
    return skeleton


def run_impl(mode, chain, literal, hist, fam='string'):
    from pytezos.michelson.parse import michelson_to_micheline
    from pytezos.michelson.repl import Interpreter
    from pytezos.rpc.shell import ShellQuery
    from ..bigmapnode import BigMapNode
    keys = FAMILIES[fam][1]
    node = BigMapNode({bm_id(mode, fam): {key_hash(k, fam): vjson(v) for k, v in chain.items() if v}})
    parameter = {'prim': 'Unit'}
    if mode == 'existing':
        bm = {'int': str(bm_id(mode, fam))}
    elif mode == 'copy':
        bm, parameter = [], {'int': str(BM_ID)}
    else:
        elts = sorted(((k, v) for k, v in literal.items() if v > 0), key=lambda kv: enc_sort_key(fam, kv[0]))
        bm = [{'prim': 'Elt', 'args': [mich(keys[k]), vjson(v)]} for k, v in elts]
    if NEST[0] == 'mapval':
        bm = [{'prim': 'Elt', 'args': [{'int': '0'}, {'prim': 'Pair', 'args': [bm, {'int': '7'}]}]}]
    storage = {'prim': 'Pair', 'args': [bm, {'prim': 'Pair', 'args': [[], []] if NEST[0] != 'sibling' else [[], {'prim': 'Pair', 'args': [[], []]}]}]}
    ops, st, lazy_diff, stdout, err = Interpreter.run_code(parameter=parameter, storage=storage, script=script_micheline(hist, fam, mode), shell=ShellQuery(node=node))
    return st, lazy_diff, err, node


_EC = []


def _EmptyChain():
    if not _EC:
        from pytezos.context.impl import ExecutionContext

        class EmptyChain(ExecutionContext):
            def get_big_map_value(self, ptr, key_hash):  # nothing stored on chain
                return None
        _EC.append(EmptyChain)
    return _EC[0]()


def enc_sort_key(fam, k):
    """the concrete keys of every family are chosen so that a < b < c in Michelson order; literals are written in that order"""
    return k


def flat_args(st):
    a = st['args'] if isinstance(st, dict) else st
    out = []
    while len(a) == 2 and isinstance(a[1], dict) and a[1].get('prim') == 'Pair':
        out.append(a[0])
        a = a[1]['args']
    return out + list(a)


def compare(ctx, mode, chain, hist, obs, flat, literal, fam='string', expect=None):
    expect = expect or {'existing': ('update', False, True), 'fresh': ('alloc', False, False), 'copy': ('copy', True, False)}[mode]
    want_action, needs_source, keeps_id = expect
    case = {'mode': mode, 'chain': chain, 'literal': literal, 'hist': to_json(hist), 'obs': to_json(obs), 'flat': flat, 'fam': fam, 'expect': list(expect), 'valtype': VALTYPE[0]}
    st, lazy_diff, err, node = run_impl(mode, chain, literal, hist, fam)
    tag = '' if fam == 'string' else ':key-' + fam
    desc = 'mode=%s keys=%s chain=%s literal=%s ops=%s' % (mode, fam, chain, literal, json.dumps(to_json(hist)))
    if err is not None:
        ctx.mismatch('C15:run:raises' + tag, '%s: run_code failed: %s' % (desc, str(err)[:300]), case)
        return False
    tag = ('' if fam == 'string' else ':key-' + fam) + ('' if NEST[0] == 'plain' else ':' + NEST[0])
    case['nest'] = NEST[0]
    desc += ' storage-shape=' + NEST[0]
    sib = None
    try:
        if NEST[0] == 'sibling':
            bm, gets, mems, sib = flat_args(st)
        else:
            bm, gets, mems = flat_args(st)
        if NEST[0] == 'mapval':
            bm = bm[0]['args'][1]['args'][0]
    except Exception as e:   # noqa
        ctx.mismatch('C15:run:storage-shape' + tag, '%s: resulting storage %s does not have the shape of the storage type (%r)' % (desc, json.dumps(st)[:300], e), case)
        return False
    got_gets = [None if g['prim'] == 'None' else unv(g['args'][0]) for g in reversed(gets)]
    got_mems = [m['prim'] == 'True' for m in reversed(mems)]
    want_gets = [o[1] if o[1] else None for o in obs if o[0] == 'get']
    want_mems = [o[1] for o in obs if o[0] == 'mem']
    ok = True
    if got_gets != want_gets or got_mems != want_mems:
        ctx.mismatch('C15:observation:%s%s' % ('get' if got_gets != want_gets else 'mem', tag), '%s: GET results %s (model %s), MEM results %s (model %s)' % (desc, got_gets, want_gets, got_mems, want_mems), case)
        ok = False
    # the diff, applied to the chain contents, must give the final dictionary
    diffs = [d for d in lazy_diff if d['kind'] == 'big_map']
    ids = [d['id'] for d in diffs]
    if len(set(ids)) != len(ids):
        ctx.mismatch('C15:diff:two-entries-for-one-id' + tag, '%s: the lazy diff has more than one entry for a big_map id: %s' % (desc, json.dumps(lazy_diff)[:400]), case)
        ok = False
    if sib is not None:
        # the second big_map, created by this execution: an id of its own, allocated, holding its one binding
        sd = [d for d in diffs if sib == {'int': d['id']}]
        if sib == bm or len(sd) != 1 or sd[0]['diff']['action'] != 'alloc' or [u.get('key') for u in sd[0]['diff'].get('updates', [])] != [{'int': '1'}]:
            ctx.mismatch('C15:diff:second-big_map' + tag, '%s: the big_map created next to the one under test is stored as %s (the one under test: %s) with diff %s; expected its own id, allocated, one binding' % (
                desc, sib, bm, json.dumps(sd)[:300]), case)
            ok = False
        diffs = [d for d in diffs if bm == {'int': d['id']}]
    elif mode == 'copy':      # the dropped empty big_map of the storage may or may not be mentioned: the diff of the stored one is what counts
        diffs = [d for d in diffs if bm == {'int': d['id']}]
    if len(diffs) != 1:
        ctx.mismatch('C15:diff:count' + tag, '%s: %d big_map diffs emitted for the stored big_map %s: %s' % (desc, len(diffs), bm, json.dumps(lazy_diff)[:300]), case)
        return False
    d = diffs[0]
    action = d['diff']['action']
    result = {k: 0 for k in chain} if mode == 'fresh' else dict(chain)
    if action != want_action or (d['id'] == str(bm_id(mode, fam))) != keeps_id or bm != {'int': d['id']}:
        ctx.mismatch('C15:diff:action-or-id' + tag, '%s: diff action %s id %s, storage %s (model: %s, %s)' % (desc, action, d['id'], bm, want_action, 'same id' if keeps_id else 'new id'), case)
        ok = False
    if needs_source and str(d['diff'].get('source')) != str(BM_ID):
        ctx.mismatch('C15:diff:copy-source' + tag, '%s: copy diff names source %r, the copied big_map is %d (without it the diff cannot be applied)' % (desc, d['diff'].get('source'), BM_ID), case)
        ok = False
    keys = FAMILIES[fam][1]
    by_norm = {norm(mich(node)): k for k, node in keys.items()}
    seen = set()
    for u in d['diff'].get('updates', []):
        k = by_norm.get(norm(u['key']))
        if k is None:
            ctx.mismatch('C15:diff:unknown-key' + tag, '%s: diff entry for key %s which no operation touched' % (desc, json.dumps(u['key'])), case)
            ok = False
            continue
        if u.get('key_hash') != key_hash(k, fam):
            ctx.mismatch('C15:diff:key_hash' + tag, '%s: key %s has key_hash %s, expected %s' % (desc, lit(keys[k]), u.get('key_hash'), key_hash(k, fam)), case)
            ok = False
        if k in seen:
            ctx.mismatch('C15:diff:duplicate-entry' + tag, '%s: key %s occurs twice in the diff %s' % (desc, lit(keys[k]), json.dumps(d['diff']['updates'])), case)
            ok = False
        seen.add(k)
        result[k] = unv(u['value']) if 'value' in u else 0
    # the library's own application of a diff (merge_lazy_diff on the stored big_map) reads the emitted diff the same way: bindings are bindings
    # (also of an empty value), entries without a value are removals
    try:
        from pytezos.michelson.types.base import MichelsonType
        kt = FAMILIES[fam][0]
        from pytezos.michelson.parse import michelson_to_micheline
        BT = MichelsonType.match(michelson_to_micheline('big_map (%s) (%s)' % (kt, vtype())))
        merged = BT.from_micheline_value({'int': d['id']}).merge_lazy_diff(lazy_diff)
        bound = {by_norm.get(norm(k_.to_micheline_value())): unv(v_.to_micheline_value()) for k_, v_ in merged.items}
        gone = {by_norm.get(norm(k_.to_micheline_value())) for k_ in merged.removed_keys}
        want_bound = {by_norm.get(norm(u['key'])): unv(u['value']) for u in d['diff'].get('updates', []) if 'value' in u}
        want_gone = {by_norm.get(norm(u['key'])) for u in d['diff'].get('updates', []) if 'value' not in u}
        if bound != want_bound or gone != want_gone:
            ctx.mismatch('C15:merge_lazy_diff:reads-the-diff-differently' + tag + ('' if VALTYPE[0] == 'string' else ':value-' + VALTYPE[0]),
                         '%s: merge_lazy_diff of the emitted diff %s gives bindings %s and removals %s; the diff says bindings %s, removals %s' % (
                             desc, json.dumps(d['diff'].get('updates')), bound, sorted(map(str, gone)), want_bound, sorted(map(str, want_gone))), case)
            ok = False
        # the diff lists its updates in whatever order the node reports them; merged that way (here: reversed) and updated once more, the big_map is still
        # the dictionary (bindings of the diff + the new one) and its rendering is a literal pytezos itself accepts (keys in Michelson order)
        ups = d['diff'].get('updates', [])
        if len([u for u in ups if 'value' in u]) >= 2:
            rdiff = [dict(d, diff=dict(d['diff'], updates=list(reversed(ups))))]
            m2 = BT.from_micheline_value({'int': d['id']}).merge_lazy_diff(rdiff)
            free = sorted(k for k in keys if k not in want_bound)
            newk = free[len(free) // 2] if free else sorted(want_bound)[0]
            m2.context = _EmptyChain()
            some_val = next(v_ for _, v_ in merged.items)
            _, m3 = m2.update(BT.args[0].from_micheline_value(mich(keys[newk])), some_val)
            lit3 = m3.to_micheline_value(lazy_diff=True)
            try:
                back = BT.from_micheline_value(lit3)
                got3 = {by_norm.get(norm(k_.to_micheline_value())): unv(v_.to_micheline_value()) for k_, v_ in back.items}
            except Exception as e:   # noqa
                got3 = 'rejected by from_micheline_value: %r' % (e,)
            want3 = dict(want_bound)
            want3[newk] = unv(some_val.to_micheline_value())
            ctx.count(('merge-update', fam, tuple(sorted(want_bound)), newk), nontrivial=True)
            if got3 != want3:
                ctx.mismatch('C15:merge_lazy_diff:then-update' + tag, '%s: the diff merged with its updates listed in reverse order and then updated at key %s renders as %s, which is %s; expected the bindings %s' % (
                    desc, lit(keys[newk]), json.dumps(lit3)[:300], got3, want3), case)
                ok = False
    except Exception as e:   # noqa
        ctx.mismatch('C15:merge_lazy_diff:raises' + tag, '%s: merge_lazy_diff of the emitted diff raised %r' % (desc, e), case)
        ok = False
    if {k: v for k, v in result.items()} != flat:
        ctx.mismatch('C15:diff:apply' + tag, '%s: diff %s applied to chain gives %s, final dictionary is %s' % (desc, json.dumps(d['diff'].get('updates')), result, flat), case)
        ok = False
    return ok


ALL_INITS = [('existing', (1, 0, 2), (0, 0, 0)), ('existing', (0, 0, 0), (0, 0, 0)), ('existing', (1, 1, 1), (0, 0, 0)), ('existing', (0, 2, 0), (0, 0, 0)),
             ('fresh', (0, 0, 0), (0, 0, 0)), ('fresh', (0, 0, 0), (1, 0, 0)), ('fresh', (0, 0, 0), (1, 0, 2)),
             ('copy', (0, 2, 1), (0, 0, 0)), ('copy', (1, 0, 2), (0, 0, 0)), ('existing', (2, 1, 0), (0, 0, 0))]


def run_config(ctx, keys, depth, inits, fams):
    """fams: {family: maximal history length replayed with that key family}"""
    init_tla = '{' + ', '.join('<<"%s", F(%d, %d, %d), F(%d, %d, %d)>>' % ((m,) + c + l) for m, c, l in inits) + '}'
    gen = {'BigMapLayerMC': MC % init_tla}
    r = ctx.tlc('BigMapLayerMC', CFG % (', '.join('"%s"' % k for k in keys), depth), gen=gen, timeout=1500, coverage=True, name='BigMapLayerMC_%d_%d_%s_%s' % (len(keys), depth, VALTYPE[0], NEST[0]))
    ctx.require_no_violation(r, 'BigMapLayer')
    ctx.require_coverage(r, ['Get', 'Mem', 'Upd', 'GetUpd'])
    outs = sorted((v for v in r.printed if v[0] == 'OUT'), key=repr)
    for v in outs:
        _, mode, chain, lit_, hist, obs, flat, expect = v
        for fam, maxlen in fams.items():
            if len(hist) > maxlen:
                continue
            ok = compare(ctx, mode, dict(chain), hist, obs, dict(flat), dict(lit_), fam, tuple(expect))
            ctx.replayed += 1
            ctx.count((fam, mode, tuple(sorted(chain.items())), tuple(sorted(lit_.items())), hist), nontrivial=any(o[0] in ('upd', 'gau') for o in hist))
            ctx.extra.setdefault('replayed_by_key_family', {}).setdefault(fam, 0)
            ctx.extra['replayed_by_key_family'][fam] += 1
            if ok and len(hist) == maxlen and ctx.replayed % 211 == 1:
                ctx.sample({'keys': fam, 'mode': mode, 'chain': chain, 'literal': lit_, 'ops': hist, 'observations': obs, 'final': flat, 'script': script(hist, fam, mode)}, limit=6)


def run(ctx):
    ctx.rule = ('abstract keys {a,b} (thorough {a,b,c}), values 1..2 (the empty string and "w"); modes: existing on-chain big_map, fresh literal, and a big_map received by id in the '
                'parameter and stored (copy); every history of GET / MEM / UPDATE (set or remove) / GET_AND_UPDATE up to 3 (4) operations. Leg A: the layered view (local bindings / '
                'removals over chain contents) equals a flat dictionary, every observation equals the dictionary\'s, and the diff the layer stands for applied to the chain gives the '
                'dictionary. Leg B: each history is compiled into a contract run by Interpreter.run_code against a simulated node serving the on-chain entries (real ShellQuery path), '
                'once per key family (string, nat, int, bytes, pair, 4-leaf comb, nested comb with bool/option, or) with the depth given in replayed_by_key_family; GET/MEM results, the '
                'emitted lazy diff applied to the chain contents, its action / id / copy source and each key_hash (recomputed with hashlib from an own legacy-form PACK) are compared; '
                'non-trivial = history has an update')
    ctx.assumptions = ['the big_map under test is the first component of the storage; in two further configurations it sits inside the value of an ordinary map, respectively is followed by a second big_map created in the same run', 'string values (the empty string included) and, in one configuration, list values (the empty list included); keys of 8 comparable type families', 'the exact shape of the diff is not prescribed: only its effect, action, id, copy source and key hashes',
                       'key_hash recomputed independently (own binary Micheline of the key with nested pairs + blake2b + base58)']
    I = ALL_INITS
    if ctx.quick:
        run_config(ctx, ['a', 'b'], 3, [I[0], I[7]], {'string': 3})
        run_config(ctx, ['a', 'b'], 2, [I[0], I[7], I[6]], dict({f: 2 for f in FAMILIES if f != 'string'}, string=2))
        VALTYPE[0] = 'list'
        run_config(ctx, ['a', 'b'], 2, [I[0], I[7], I[6]], {'string': 2, 'nat': 2})
        VALTYPE[0] = 'string'
        NEST[0] = 'mapval'
        run_config(ctx, ['a', 'b'], 2, [I[0], I[6]], {'string': 2, 'nat': 2})
        NEST[0] = 'sibling'
        run_config(ctx, ['a', 'b'], 2, [I[7], I[0], I[6]], {'string': 2})
        NEST[0] = 'plain'
    else:
        run_config(ctx, ['a', 'b', 'c'], 3, [I[0], I[1], I[4], I[5], I[9], I[7]], {'string': 3, 'comb4': 3, 'nat': 2, 'int': 2, 'bytes': 2, 'pair': 2, 'comb3n': 2, 'or': 2})
        run_config(ctx, ['a', 'b'], 4, [I[0], I[1], I[8]], {'string': 4})
        VALTYPE[0] = 'list'
        run_config(ctx, ['a', 'b'], 3, [I[0], I[7], I[6], I[5]], {'string': 3, 'nat': 2, 'comb4': 2})
        VALTYPE[0] = 'string'
        NEST[0] = 'mapval'
        run_config(ctx, ['a', 'b'], 3, [I[0], I[1], I[6], I[5]], {'string': 3, 'nat': 2, 'pair': 2})
        NEST[0] = 'sibling'
        run_config(ctx, ['a', 'b'], 3, [I[7], I[8], I[0], I[6]], {'string': 3, 'nat': 2})
        NEST[0] = 'plain'
    ctx.exhaustive = True


def replay(ctx, rep):
    c = rep['case']
    VALTYPE[0] = c.get('valtype', 'string')
    tup = lambda x: tuple(tup(y) for y in x) if isinstance(x, list) else x
    ok = compare(ctx, c['mode'], c['chain'], tup(c['hist']), tup(c['obs']), c['flat'], c.get('literal') or {}, c.get('fam', 'string'), tuple(c['expect']) if c.get('expect') else None)
    for m in ctx.mismatches:
        print('REPRODUCED', m.signature, m.detail[:800])
    return 0 if ok else 1


META = {
    'category': 'model_checking',
    'text': ('BigMapLayer.tla keeps a big_map the way the code does (local bindings and removals over on-chain contents) next to a flat dictionary and lets TLC check, over every '
             'history of GET / MEM / UPDATE / GET_AND_UPDATE up to the bound and every split of keys between chain and local literal, that all observations and the effect of the '
             'final diff equal the dictionary. Every history is then compiled into a contract and executed by Interpreter.run_code against a simulated node serving the on-chain '
             'entries through the real RPC query layer; observations, the emitted lazy diff applied to the chain contents, its action/id and every key_hash are compared.'),
    'design_ref': 'DESIGN.md section 5 C15, A.3',
    'note': 'Three storage shapes: the big_map first in the storage, inside the value of an ordinary map, followed by a second big_map created in the same run. Trusted: BigMapNode (RpcNode subclass serving context/big_maps/<id>/<hash>), independent key hash computation, script generation. Bounds: 2 (3) abstract keys concretised in 7 key type families, values 1..2, 3 (4) operations, existing / fresh / copied big_maps.',
    'technique': 'TLA+ layered-dictionary model, TLC exhaustive over histories; replay as contracts through Interpreter.run_code against a simulated node',
}
