"""X05 (not a listed property: growth of the specification) - the contract-run lifecycle follows ContractRun.tla.

TLC enumerates contracts x programs x entrypoints x arguments x storages (every behaviour of spec/ContractRun.tla is one
call: instantiate, begin, one Step per top-level instruction, end) and checks the declarative invariants on the model
(Leg A).  Every terminal state is replayed through the public pytezos API (Leg B) on three routes:
  P  ContractInterface.from_michelson(src).<entrypoint>(python object).interpret(storage=python object)
  C  ContractCall(context, {'entrypoint': .., 'value': Micheline}).interpret(storage=..)     (no client-side normalisation)
  S  MichelsonProgram.load(..).instantiate(..) / begin / execute / end                        (the lifecycle step by step)
and the result (storage, operations in list order, lazy diff, decoded parameters) or the failure (stage, FAILWITH value)
is compared with the model's."""
import json, re

from .. import terms, vmreplay
from ..fastdump import parse_value
from ..tlaparse import to_json, to_tla

SELF = 'KT1BEqzn5Wx8uJrZNvuS9DVHmLvG9td3fDLi'
KH = 'tz1KqTpEZ7Yob7QbPE4Hy4Wo8fHG8LhKxZSx'
TERMINAL = ('done', 'failed', 'stuck', 'badend', 'rejected')
INVARIANTS = ['EntrypointIsWrapping', 'OnlyNamedDeviation', 'StepwiseIsWhole', 'TypeSafe', 'NoncesAreEmissionRanks', 'ResultOK', 'DoneIff',
              'DoneMeansWellTyped', 'UncheckedMeansIllTyped']

MC = """---- MODULE ContractRun_MC ----
EXTENDS ContractRun
FamsV == {fams}
MaxLenOfV(f) == {maxlen}
MaxStackOfV(f) == {maxstack}
ASSUME \\A f \\in FamsV : PrintT(<<"OUT", f, PtreeOf(f), StypeOf(f)>>)
====
"""
CFG = """SPECIFICATION Spec
CONSTANTS Fams <- FamsV
 MaxLenOf <- MaxLenOfV
 MaxStackOf <- MaxStackOfV
 MaxEmit = 2
 StuckLen = {stucklen}
 BadLen = {badlen}
 Lenient = TRUE
{invs}
"""
# family -> (MaxLen, MaxStack)
QUICK = {'rootann': (3, 3), 'view': (4, 3), 'main': (5, 3), 'ops': (6, 3), 'dflt': (4, 3), 'nest': (4, 3), 'plain': (5, 3), 'bigmap': (4, 3)}
THOROUGH = {'rootann': (4, 3), 'view': (6, 3), 'main': (6, 3), 'ops': (7, 4), 'dflt': (5, 3), 'nest': (5, 3), 'plain': (7, 3), 'bigmap': (6, 3)}


_state = re.compile(r'^State \d+:.*$', re.M)
_var = re.compile(r'^/\\ (\w+) = ', re.M)


def terminal_states(path):
    """terminal states of a TLC -dump file (the other states are skipped without being parsed)"""
    txt = open(path).read()
    marks = [m for m in _state.finditer(txt)]
    for k, m in enumerate(marks):
        b, e = m.end(), marks[k + 1].start() if k + 1 < len(marks) else len(txt)
        pm = re.compile(r'^/\\ phase = "(\w+)"', re.M).search(txt, b, e)
        if not pm or pm.group(1) not in TERMINAL:
            continue
        ms = list(_var.finditer(txt, b, e))
        yield {v.group(1): parse_value(txt, v.end(), ms[i + 1].start() if i + 1 < len(ms) else e) for i, v in enumerate(ms)}


def case_of(d, k):
    return 'CASE ' + ' [] '.join('f = "%s" -> %d' % (n, v[k]) for n, v in sorted(d.items()))


# ---------------------------------------------------------------- model terms -> Michelson source / Python objects
def tree_type_json(tree):
    if tree[0] == 'leaf':
        j = dict(terms.type_json(tree[2]))
    else:
        j = {'prim': 'or', 'args': [tree_type_json(tree[2]), tree_type_json(tree[3])]}
    if tree[1]:
        j['annots'] = ['%' + tree[1]]
    return j


def code_json(i):
    op = i[0]
    if op == 'EMIT':
        return {'prim': 'EMIT', 'annots': ['%ev'], 'args': [{'prim': 'int'}]}
    if op == 'DELEG':
        return [{'prim': 'NONE', 'args': [{'prim': 'key_hash'}]}, {'prim': 'SET_DELEGATE'}]
    if op == 'XFER':
        return [{'prim': 'PUSH', 'args': [{'prim': 'key_hash'}, {'string': KH}]}, {'prim': 'IMPLICIT_ACCOUNT'},
                {'prim': 'PUSH', 'args': [{'prim': 'mutez'}, {'int': str(i[1])}]}, {'prim': 'UNIT'}, {'prim': 'TRANSFER_TOKENS'}]
    if op == 'IF_LEFT':
        return {'prim': 'IF_LEFT', 'args': [[code_json(x) for x in i[1]], [code_json(x) for x in i[2]]]}
    if op == 'SEQ':
        return [code_json(x) for x in i[1]]
    return terms.instr_json(i)


def michelson(x):
    """Micheline JSON -> Michelson text (independent of pytezos' formatter)"""
    if isinstance(x, list):
        return '{ ' + ' ; '.join(michelson(y) for y in x) + ' }'
    if 'int' in x:
        return x['int']
    if 'string' in x:
        return json.dumps(x['string'])
    if 'bytes' in x:
        return '0x' + x['bytes']
    parts = [x['prim']] + list(x.get('annots', []))
    for a in x.get('args', []):
        s = michelson(a)
        if isinstance(a, dict) and 'prim' in a and (a.get('args') or a.get('annots')):
            s = '(' + s + ')'
        parts.append(s)
    return ' '.join(parts)


def source_of(fam, tree, stype, prog):
    if fam == 'view':
        return 'parameter (or (int %%a) (string %%b)) ;\nstorage int ;\ncode { CDR ; NIL operation ; PAIR } ;\nview "v" string int %s' % michelson([code_json(i) for i in prog])
    return 'parameter %s ;\nstorage %s ;\ncode %s' % (
        '(' + michelson(tree_type_json(tree)) + ')', '(' + michelson(terms.type_json(stype)) + ')', michelson([code_json(i) for i in prog]))


def py_plain(t, v):
    k = t[0]
    if k in ('int', 'nat'):
        return v[1]
    if k == 'string':
        return bytes(v[1]).decode()
    if k == 'pair':
        return (py_plain(t[1], v[1]), py_plain(t[2], v[2]))
    if k == 'big_map':
        return {py_plain(t[1], e[0]): py_plain(t[2], e[1]) for e in v[1]}
    raise terms.Unsup('py_plain ' + k)


def py_param(tree, v):
    """documented Python form of a parameter: the value of a named union is {name of the leaf: value}"""
    if tree[0] == 'leaf':
        return py_plain(tree[2], v)
    sub = tree[2] if v[0] == 'l' else tree[3]
    return {sub[1]: py_plain(sub[2], v[1])} if sub[0] == 'leaf' else py_param(sub, v[1])


def py_any(v):
    return v[1] if v[0] == 'i' else bytes(v[1]).decode() if v[0] == 's' else None


def raw_json(v):
    """Micheline of an argument whose type is not known (ill-typed arguments)"""
    return {'int': str(v[1])} if v[0] == 'i' else {'string': bytes(v[1]).decode()} if v[0] == 's' else {'prim': 'Unit'}


def resolve(tree, name):
    """sub-tree addressed by an entrypoint name (None: no such entrypoint) - only used to *encode* the argument"""
    def walk(t):
        if t[1] == name:
            return t
        if t[0] == 'node':
            return walk(t[2]) or walk(t[3])
        return None
    return walk(tree) or (tree if name == 'default' else None)


def op_json(o):
    kind, data = o[1], o[2]
    if kind == 'event':
        return {'kind': 'event', 'source': SELF, 'event_type': {'prim': 'int'}, 'payload': {'int': str(data[1])}, 'tag': 'ev'}
    if kind == 'delegation':
        return {'kind': 'delegation', 'source': SELF, 'delegate': None}
    return {'kind': 'transaction', 'source': SELF, 'destination': KH, 'amount': str(data[1]),
            'parameters': {'entrypoint': 'default', 'value': {'prim': 'Unit'}}}


# ---------------------------------------------------------------- expectations and observations
def expected(tree, stype, st):
    ph = st['phase']
    if ph == 'done':
        ops, sto, diff = st['result']
        if st['fam'] == 'view':
            return {'status': 'ok', 'ops': [], 'nonces': [], 'storage': py_plain(('int',), sto), 'diff': [], 'parameters': None}
        return {'status': 'ok', 'ops': [op_json(o) for o in ops], 'nonces': [o[3] for o in ops], 'storage': py_plain(stype, sto),
                'storage_term': sto, 'diff': [dict(py_plain(stype, ('map', d[2]))) for d in diff],
                'parameters': {'default': py_plain(tree[2], st['param'])} if tree[0] == 'leaf' else py_param(tree, st['param'])}
    if ph == 'failed':
        return {'status': 'failwith', 'value': vmreplay.fail_repr(st['failv'])}
    return {'status': 'error', 'stage': {'stuck': 'code', 'badend': 'END', 'rejected': 'parameter'}[ph]}


def classify_error(e):
    from pytezos.michelson.micheline import MichelsonRuntimeError
    if not isinstance(e, MichelsonRuntimeError):
        # any other exception is still "the call raised and returned nothing": no stage to compare
        return {'status': 'error', 'stage': None, 'text': type(e).__name__}
    args = [str(a) for a in e.args]
    if 'FAILWITH' in args:
        k = args.index('FAILWITH')
        return {'status': 'failwith', 'value': args[k + 1] if k + 1 < len(args) else ''}
    head = args[0] if args else ''
    return {'status': 'error', 'stage': {'parameter': 'parameter', 'storage': 'parameter', 'BEGIN': 'BEGIN', 'END': 'END', 'RET': 'END'}.get(head, 'code'),
            'text': ' / '.join(args)[:200]}


def apply_updates(diff_item):
    d = {}
    for u in diff_item['diff'].get('updates', []):
        k = int(u['key']['int'])
        if 'value' in u:
            d[k] = int(u['value']['int'])
        else:
            d.pop(k, None)
    return d


def observe_result(stype, storage_py, operations, lazy_diff, parameters):
    got = {'status': 'ok', 'parameters': parameters, 'nonces': [o.get('nonce') for o in operations],
           'ops': [{k: v for k, v in o.items() if k != 'nonce'} for o in operations]}
    if stype[0] == 'big_map':
        # ContractCallResult shows the keys removed in this run as None (the diff view): they are not bindings
        got['storage'] = {k: v for k, v in storage_py.items() if v is not None} if isinstance(storage_py, dict) else storage_py
        try:
            ok = all(d.get('kind') == 'big_map' and d['diff'].get('action') == 'alloc' and d['diff'].get('key_type') == {'prim': 'nat'}
                     and d['diff'].get('value_type') == {'prim': 'int'} and int(d['id']) >= 0 for d in lazy_diff)
            got['diff'] = [apply_updates(d) for d in lazy_diff] if ok else ['malformed', lazy_diff]
        except (KeyError, TypeError, ValueError, AttributeError):
            got['diff'] = ['malformed', lazy_diff]
    else:
        got['storage'] = storage_py
        got['diff'] = lazy_diff
    return got


class Contract:
    def __init__(self, fam, tree, stype, prog):
        from pytezos import ContractInterface
        from pytezos.michelson.parse import michelson_to_micheline
        self.fam, self.tree, self.stype, self.prog = fam, tree, stype, prog
        self.routes = ('P', 'S') if fam == 'view' else ('P', 'C', 'S')
        self.src = source_of(fam, tree, stype, prog)
        self.ci = ContractInterface.from_michelson(self.src)
        self.expr = michelson_to_micheline(self.src)

    def arg_forms(self, st):
        """(Micheline, Python object) of the argument"""
        sub = (self.tree if st['epname'] == 'v' else None) if self.fam == 'view' else resolve(self.tree, st['epname'])
        if sub is not None and fits(strip(sub), st['argv']):
            t = strip(sub)
            return terms.value_json(t, st['argv']), (py_plain(t, st['argv']) if sub[0] == 'leaf' else py_param(sub, st['argv']))
        return raw_json(st['argv']), py_any(st['argv'])

    def route_P(self, st):
        _, arg = self.arg_forms(st)
        try:
            call = getattr(self.ci, st['epname'])(arg)
            if self.fam == 'view':
                ret = call.onchain_view(storage=py_plain(self.stype, st['stov']))
                return {'status': 'ok', 'ops': [], 'nonces': [], 'storage': ret, 'diff': [], 'parameters': None}
            r = call.interpret(storage=py_plain(self.stype, st['stov']), self_address=SELF)
        except Exception as e:
            return classify_error(e)
        return observe_result(self.stype, r.storage, r.operations, r.lazy_diff, r.parameters)

    def route_C(self, st):
        from pytezos.contract.call import ContractCall
        arg, _ = self.arg_forms(st)
        try:
            r = ContractCall(context=self.ci.context, parameters={'entrypoint': st['epname'], 'value': arg}).interpret(
                storage=py_plain(self.stype, st['stov']), self_address=SELF)
        except Exception as e:
            return classify_error(e)
        return observe_result(self.stype, r.storage, r.operations, r.lazy_diff, r.parameters)

    def route_S(self, st, want_begin):
        from pytezos.context.impl import ExecutionContext
        from pytezos.michelson.program import MichelsonProgram
        from pytezos.michelson.stack import MichelsonStack
        arg, _ = self.arg_forms(st)
        sto = terms.value_json(self.stype, st['stov'])
        ctx = ExecutionContext(script={'code': self.expr, 'storage': sto}, address=SELF)
        stack, out = MichelsonStack(), []
        try:
            program = MichelsonProgram.load(ctx, with_code=True)
            if self.fam == 'view':
                inst = program.instantiate_view(name=st['epname'], parameter=arg, storage=sto)
            else:
                inst = program.instantiate(entrypoint=st['epname'], parameter=arg, storage=sto)
            inst.begin(stack, out, ctx)
            begin = None
            if self.stype[0] != 'big_map':
                begin = vmreplay.project_stack(stack)
            elif len(stack) != 1:
                begin = 'items: %d' % len(stack)
            if self.fam == 'view':
                inst.execute_view(stack, out, ctx)
                ret = inst.ret(stack, out).to_python_object()
            else:
                inst.execute(stack, out, ctx)
                operations, storage, lazy_diff, _ = inst.end(stack, out)
        except Exception as e:
            return classify_error(e)
        if begin is not None and begin != want_begin:
            return {'status': 'begin-stack', 'got': to_json(begin)}
        if len(stack):
            return {'status': 'stack-left', 'got': len(stack)}
        if self.fam == 'view':
            return {'status': 'ok', 'ops': [], 'nonces': [], 'storage': ret, 'diff': [], 'parameters': None}
        if self.stype[0] == 'big_map':
            # the returned storage is the identifier of the big_map the lazy diff allocates
            if not (isinstance(storage, dict) and 'int' in storage and [d.get('id') for d in lazy_diff] == [storage['int']]):
                return {'status': 'big_map-id', 'got': [storage, [d.get('id') for d in lazy_diff]]}
            spy = None
        else:
            try:
                spy = py_plain(self.stype, terms.pval(self.stype, storage))
            except (KeyError, TypeError, ValueError, IndexError, AttributeError):
                return {'status': 'storage-not-of-storage-type', 'got': storage}
        got = observe_result(self.stype, spy, operations, lazy_diff, None)
        if spy is None:
            got['storage'] = got['diff'][0] if got['diff'] else None
        return got


def fits(t, v):
    """the argument has the shape of the type (only decides how the harness writes it down)"""
    if t[0] in ('int', 'nat'):
        return v[0] == 'i'
    if t[0] == 'string':
        return v[0] == 's'
    if t[0] == 'or':
        return v[0] in ('l', 'r') and fits(t[1] if v[0] == 'l' else t[2], v[1])
    return False


def strip(tree):
    return tree[2] if tree[0] == 'leaf' else ('or', strip(tree[2]), strip(tree[3]))


def compare(route, want, got):
    """None, or (class, text) of the first disagreement"""
    if got['status'] != want['status']:
        return 'status', 'model %s, pytezos %s' % (json.dumps(want, default=str)[:300], json.dumps(got, default=str)[:300])
    if want['status'] == 'error':
        return None if got['stage'] in (None, want['stage']) else ('stage', 'failure expected at %s, pytezos failed at %s (%s)' % (want['stage'], got['stage'], got.get('text')))
    if want['status'] == 'failwith':
        return None if got['value'] == want['value'] else ('failwith-value', 'FAILWITH value: model %s, pytezos %s' % (want['value'], got['value']))
    for k in ('storage', 'ops', 'diff') + (('parameters',) if route != 'S' else ()):
        if got[k] != want[k]:
            return k, '%s: model %s, pytezos %s' % (k, json.dumps(want[k], default=str)[:400], json.dumps(got[k], default=str)[:400])
    # nonces: the interpreter's operations carry none (deviation, reported as INFO); where they are present they must be right
    if any(n is not None for n in got['nonces']) and got['nonces'] != want['nonces']:
        return 'nonces', 'nonces: model %s, pytezos %s' % (want['nonces'], got['nonces'])
    return None


def tuplify(x):
    return tuple(tuplify(y) for y in x) if isinstance(x, list) else x


def check_state(ctx, contract, st, stats):
    tree, stype = contract.tree, contract.stype
    want = expected(tree, stype, st)
    begin = ((('pair', strip(tree), stype), ('p', st['param'], st['stov'])),) if st['phase'] != 'rejected' else None
    for route in contract.routes:
        got = getattr(contract, 'route_' + route)(st, begin) if route == 'S' else getattr(contract, 'route_' + route)(st)
        ctx.replayed += 1
        bad = compare(route, want, got)
        if st['deviant']:
            # the model follows the code here (ContractRun!DefaultOfAnnotatedRoot); the protocol would run the call
            if got['status'] == 'error' and got['stage'] in ('parameter', None):
                stats['default_refused'] += 1
            else:
                ctx.skip('entrypoint `default` of a parameter with an annotated root is accepted (the defect modelled as coded is gone)')
            continue
        if bad:
            ctx.mismatch('X05:%s:%s:%s' % (route, st['phase'], bad[0]),
                         'contract:\n%s\nentrypoint %s argument %s storage %s (route %s)\n%s' % (
                             contract.src, st['epname'], to_json(st['argv']), to_json(st['stov']), route, bad[1]),
                         {'tree': to_json(tree), 'stype': to_json(stype), 'state': to_json(st)})
        elif want['status'] == 'ok' and got['nonces'] and all(n is None for n in got['nonces']):
            stats['no_nonce'] += 1
    if st['illty'] and st['phase'] == 'done':
        stats['unchecked_done'] += 1
    ctx.count((st['fam'], st['prog'], st['epname'], st['argv'], st['stov']), nontrivial=st['phase'] in ('done', 'failed'))
    if st['phase'] == 'done' and len(st['result'][0]) == 2 and not st['illty']:
        ctx.sample({'contract': contract.src, 'entrypoint': st['epname'], 'argument': py_any(st['argv']) or to_json(st['argv']),
                    'storage': to_json(st['stov']), 'operations': [o[1:] for o in st['result'][0]], 'new_storage': to_json(st['result'][1])}, limit=3)


def run(ctx):
    fams = QUICK if ctx.quick else THOROUGH
    ctx.rule = ('families %s (MaxLen, MaxStack): parameter or(int %%a, string %%b) [main, ops, bigmap], or(int %%default, string %%b) [dflt], '
                'or(or %%c (string %%b) (int %%d), or(int %%a, string %%e)) [nest], or %%top (int %%a) (string %%b) [rootann], int [plain]; storage int / pair int string [plain] / big_map nat int [bigmap]; '
                'view "v" string int over storage int [view: instantiate_view / execute_view / ret]; '
                'every program over the family alphabet up to MaxLen top-level instructions x every entrypoint name (and an unknown one) '
                'x every argument (and an ill-typed one) x every storage' % json.dumps(fams))
    ctx.assumptions = ['the reserved entrypoint name `root` is not called', 'FAILWITH only on pushable values',
                       'big_map storage: keys shown as None (removed in this run) in ContractCallResult.storage are not bindings',
                       'ill-typed instructions are tried only at the start of a program (StuckLen), improper ends only for short programs (BadLen)',
                       'internal operation nonces are compared only where pytezos reports them (it does not: INFO line)',
                       'CREATE_CONTRACT is not in the alphabet']
    mod = 'ContractRun_MC'
    cfg = CFG.format(stucklen=1, badlen=2 if ctx.quick else 3, invs='\n'.join('INVARIANT ' + i for i in INVARIANTS))
    r = ctx.tlc(mod, cfg, name=mod, gen={mod: MC.format(fams=to_tla(set(fams)), maxlen=case_of(fams, 0), maxstack=case_of(fams, 1))},
                dump=True, coverage=False, timeout=1500)
    ctx.require_no_violation(r, 'ContractRun')
    contracts = {p[1]: (p[2], p[3]) for p in r.printed if p[0] == 'OUT'}
    groups, phases = {}, {}
    for st in terminal_states(r.dump):
        groups.setdefault((st['fam'], st['prog']), []).append(st)
        phases[st['phase']] = phases.get(st['phase'], 0) + 1
    if not phases.get('done') or not phases.get('failed') or not phases.get('stuck') or not phases.get('badend') or not phases.get('rejected'):
        raise RuntimeError('vacuity: terminal phases reached: %s' % phases)
    stats = {'no_nonce': 0, 'unchecked_done': 0, 'default_refused': 0}
    for (fam, prog), sts in sorted(groups.items(), key=lambda kv: repr(kv[0])):
        tree, stype = contracts[fam]
        contract = Contract(fam, tree, stype, prog)
        for st in sts:
            check_state(ctx, contract, st, stats)
    ctx.extra['terminal_states'] = phases
    ctx.extra['programs'] = len(groups)
    ctx.exhaustive = True
    ctx.notes.append('deviation (as coded, StepUnchecked): %d successful runs of contracts the protocol rejects as ill-typed (IF_LEFT branches of '
                     'different types / ill-typed untaken branch): the builtin interpreter never type-checks the script' % stats['unchecked_done'])
    ctx.notes.append('deviation: %d successful route results list internal operations without the `nonce` field the run_code RPC reports' % stats['no_nonce'])
    print('INFO X05: %d programs, terminal states %s' % (len(groups), json.dumps(phases, sort_keys=True)))
    print('INFO X05: deviation as coded (ContractRun!StepUnchecked): %d runs of statically ill-typed contracts succeeded - the interpreter '
          'checks instructions against the run-time stack only, never the script' % stats['unchecked_done'])
    ctx.notes.append('defect (as coded, DefaultOfAnnotatedRoot): %d calls of entrypoint `default` refused because the root of the parameter type is annotated' % stats['default_refused'])
    print('INFO X05: defect as coded (ContractRun!DefaultOfAnnotatedRoot): %d calls of entrypoint `default` were refused ("unexpected entrypoint") because the '
          'root of the parameter type is annotated (parameter (or %%top ..)); the protocol runs them on the whole parameter' % stats['default_refused'])
    print('INFO X05: deviation: internal operations carry no `nonce` (%d results with operations); the model numbers them by emission rank' % stats['no_nonce'])


def replay(ctx, rep):
    case = rep['case']
    st = {k: tuplify(v) for k, v in case['state'].items()}
    contract = Contract(st['fam'], tuplify(case['tree']), tuplify(case['stype']), st['prog'])
    check_state(ctx, contract, st, {'no_nonce': 0, 'unchecked_done': 0, 'default_refused': 0})
    return ctx.finish()


META = {'category': 'model_checking', 'text': 'growth of the specification: ContractRun.tla (contract-run lifecycle: instantiate, begin, execute, end, ContractCallResult)',
        'design_ref': 'DESIGN.md 11.7', 'note': 'not a listed property', 'technique': 'TLA+ + TLC + replay'}
