"""C04 - PACK produces the Tezos bytes and UNPACK inverts it for every packable type.  Spec: MichData.tla (SpecC04) over MichelineCodec.tla."""
import json

from .. import michdata as md
from .. import terms
from ..fastdump import iter_dump
from ..tlaparse import to_json
from ..tlc import MachineryError
from . import C05
from .C17 import annotate_type

CFG = """SPECIFICATION SpecC04
CONSTANTS Depth = %d
 Wide = %s
 MutSpan = %d
INVARIANT Generated
INVARIANT CombRule
INVARIANT PackRoundTrip
INVARIANT PackShape
INVARIANT LegacyUnpacks
INVARIANT Strict
INVARIANT Injective
INVARIANT PatchOK
INVARIANT NonVacuous
"""
SKIP_TYPED = 'derived byte string is valid binary Micheline but not a value of the type (or a relaxed form): the property does not speak about it - counted only'
SKIP_VALID = 'derived byte string still unpacks in the model: counted only'
PLAIN = {'int', 'nat', 'string', 'bytes', 'bool', 'unit', 'mutez'}

_ctx = None
_instr = {}


def _context():
    global _ctx
    if _ctx is None:
        from pytezos.context.impl import ExecutionContext
        _ctx = ExecutionContext()
    return _ctx


def instr(ij):
    from pytezos.michelson.instructions.base import MichelsonInstruction
    import pytezos.michelson.instructions  # noqa: registers the instruction classes
    k = json.dumps(ij, sort_keys=True)
    if k not in _instr:
        _instr[k] = MichelsonInstruction.match(ij)
    return _instr[k]


def run_pack(x):
    """PACK instruction on a stack holding x -> ('ok', bytes) | ('raised', name, text)"""
    from pytezos.michelson.stack import MichelsonStack
    st = MichelsonStack([x])
    try:
        instr({'prim': 'PACK'}).execute(st, [], _context())
        return ('ok', bytes(st.items[0]))
    except Exception as e:   # noqa
        return ('raised', type(e).__name__, str(e)[:200])


def run_unpack(tj, data):
    """UNPACK tj on a stack holding the bytes -> ('none',) | ('some', typed value) | ('raised', name, text)"""
    from pytezos.michelson.stack import MichelsonStack
    from pytezos.michelson.types import BytesType
    st = MichelsonStack([BytesType.from_value(bytes(data))])
    try:
        instr({'prim': 'UNPACK', 'args': [tj]}).execute(st, [], _context())
    except Exception as e:   # noqa
        return ('raised', type(e).__name__, str(e)[:200])
    r = st.items[0]
    if r.prim != 'option' or len(st.items) != 1:
        return ('raised', 'NotAnOption', repr(r)[:100])
    return ('none',) if r.item is None else ('some', r.item)


def key_note(t):
    return ':unit-key' if t[0] in ('set', 'map') and md.has(t[1], 'unit') else ''


def check_case(ctx, t, v, nodes, packed, legacy, names, schemes=True):
    """pack() / PACK = model bytes (also under annotations); unpack() / UNPACK of them = the value."""
    tj = terms.type_json(t)
    want = md.norm(t, v)
    rj = md.canon(md.node_json(nodes[0], names))
    packed, legacy = bytes(packed), bytes(legacy)
    cls = md.type_class(t)
    case = {'kind': 'case', 'ty': to_json(t), 'val': to_json(v), 'nodes': to_json(nodes), 'packed': list(packed), 'legacy': list(legacy)}
    what = '%s value %s' % (json.dumps(tj), md.short(rj))
    ctx.count((t, v), nontrivial=t[0] not in PLAIN)
    try:
        T = md.mtype(tj)
        x = T.from_micheline_value(rj)
    except Exception as e:   # noqa
        ctx.mismatch('C04:build:raises:%s%s:%s' % (cls, key_note(t), type(e).__name__), 'from_micheline_value of the readable notation raised %r: %s' % (e, what), case)
        return False
    ok = True
    # ---- the same text as a plain string is a different value: whichever of the two is packed first, each gets its own bytes
    text = rj.get('string') if isinstance(rj, dict) and t != ('string',) else None
    if text is not None:
        import zlib
        string_first = zlib.crc32(text.encode()) % 2 == 0
        if string_first:
            ok = lookalike(ctx, text, what, case, 'before') and ok
    # ---- PACK
    try:
        got = ('ok', x.pack())
    except Exception as e:   # noqa
        got = ('raised', type(e).__name__, str(e)[:200])
    for site, g in (('pack', got), ('PACK', run_pack(x))):
        if g[0] != 'ok':
            ctx.mismatch('C04:%s:raises:%s:%s' % (site, cls, g[1]), '%s raised %s %s on %s; Tezos packs it as %s' % (site, g[1], g[2], what, packed.hex()), case)
            ok = False
        elif g[1] != packed:
            ctx.mismatch('C04:%s:bytes:%s' % (site, cls), '%s of %s = %s, Tezos: %s' % (site, what, g[1].hex(), packed.hex()), case)
            ok = False
    if text is not None:
        ok = lookalike(ctx, text, what, case, 'after') and ok
        g = run_pack(md.mtype(tj).from_micheline_value(rj))
        if g[0] != 'ok' or g[1] != packed:
            ctx.mismatch('C04:PACK:after-lookalike-string:%s' % cls, 'PACK of %s after PACK of the string with the same text = %s, Tezos: %s' % (what, g[1].hex() if g[0] == 'ok' else g, packed.hex()), case)
            ok = False
    # ---- PACK does not depend on annotations
    if schemes:
        for scheme in md.SCHEMES:
            atj = annotate_type(tj, scheme)
            if atj == tj:
                continue
            ctx.count((t, v, scheme), nontrivial=True)
            try:
                g = ('ok', md.mtype(atj).from_micheline_value(rj).pack())
            except Exception as e:   # noqa
                g = ('raised', type(e).__name__, str(e)[:200])
            if g[0] != 'ok':
                ctx.mismatch('C04:pack:annotated:%s:raises:%s:%s' % (scheme, cls, g[1]), 'pack() under annotations %s raised %s %s: type %s value %s' % (scheme, g[1], g[2], json.dumps(atj), md.short(rj)), case)
                ok = False
            elif g[1] != packed:
                # one class for the known shape of the error (the comb is written as nested binary pairs), one per scheme and type class for anything else
                sig = 'C04:pack:annotated:nested-pairs-instead-of-sequence' if g[1] == legacy else 'C04:pack:annotated:%s:bytes:%s' % (scheme, cls)
                ctx.mismatch(sig, 'pack() of %s at the annotated type %s = %s; annotations do not change packed data, Tezos: %s' % (md.short(rj), json.dumps(atj), g[1].hex(), packed.hex()), case)
                ok = False
    # ---- UNPACK
    try:
        u = ('some', T.unpack(packed))
    except Exception as e:   # noqa
        u = ('raised', type(e).__name__, str(e)[:200])
    for site, g in (('unpack', u), ('UNPACK', run_unpack(tj, packed))):
        if g[0] != 'some':
            ctx.mismatch('C04:%s:valid:%s:%s%s' % (site, 'none' if g[0] == 'none' else 'raises:' + g[1], cls, key_note(t)),
                         '%s of %s at %s %s; it is PACK of %s' % (site, packed.hex(), json.dumps(tj), 'returned None' if g[0] == 'none' else 'raised %s %s' % g[1:], md.short(rj)), case)
            ok = False
            continue
        try:
            py = md.project(t, g[1])
            same = g[1] == x
        except Exception as e:   # noqa
            py, same = ('unprojectable', repr(e)), False
        if py != want or not same:
            ctx.mismatch('C04:%s:value:%s' % (site, cls), '%s of %s at %s gives %r (== original: %s), expected %r' % (site, packed.hex(), json.dumps(tj), py, same, want), case)
            ok = False
    return ok


def lookalike(ctx, text, what, case, when):
    """PACK of the plain string with the text of a typed value (address, key, ...) = 05 01 <len> <text>, independent of what was packed earlier in the process"""
    from pytezos.michelson.types import StringType
    want = b'\x05\x01' + len(text.encode()).to_bytes(4, 'big') + text.encode()
    ctx.count(('lookalike', text, when), nontrivial=True)
    g = run_pack(StringType.from_value(text))
    if g[0] != 'ok' or g[1] != want:
        ctx.mismatch('C04:PACK:lookalike-string:%s' % when, 'PACK of the string "%s" (%s PACK of %s) = %s, Tezos: %s' % (text, when, what, g[1].hex() if g[0] == 'ok' else g, want.hex()), case)
        return False
    return True


def check_mutant(ctx, t, base, mut):
    """UNPACK pushes None on every derived byte string that is not binary Micheline (model stage prefix / decode)."""
    cls, detail, patch, res = mut
    base = tuple(base)
    mb = base[:patch[0] - 1] + tuple(patch[2]) + (base[len(base) - patch[1]:] if patch[1] else ())
    if res[0]:
        ctx.skip(SKIP_VALID)
        return True
    stage, reason = res[1][1], res[1][2]
    if stage == 'type':
        ctx.skip(SKIP_TYPED)
        return True
    if stage == 'decode' and reason == 'unknown-prim' and res[1][3] <= C05.MARGIN:
        ctx.skip(C05.SKIP_MARGIN)
        return True
    tj = terms.type_json(t)
    ctx.count((cls, t, bytes(mb)), nontrivial=True)
    g = run_unpack(tj, mb)
    if g[0] == 'none':
        return True
    case = {'kind': 'mutant', 'ty': to_json(t), 'class': cls, 'detail': detail, 'base': list(base), 'patch': to_json(patch), 'model': to_json(res)}
    if g[0] == 'raised':
        ctx.mismatch('C04:UNPACK:%s:raises:%s' % (reason, g[1]), 'UNPACK %s on %s raised %s %s instead of pushing None (%s %s of %s: %s)' % (
            json.dumps(tj), bytes(mb).hex(), g[1], g[2], cls, detail, bytes(base).hex(), reason), case)
    else:
        try:
            shown = md.short(g[1].to_micheline_value(mode='optimized'))
        except Exception as e:   # noqa
            shown = repr(e)
        ctx.mismatch('C04:UNPACK:accepts-malformed:%s' % reason, 'UNPACK %s on %s pushed Some %s; Tezos pushes None: not binary Micheline (%s at %s; %s %s of %s)' % (
            json.dumps(tj), bytes(mb).hex(), shown, reason, res[1][3], cls, detail, bytes(base).hex()), case)
    return False


def run(ctx):
    md.selfcheck()
    names = C05.prim_names()
    q = ctx.quick
    ctx.rule = ('universe: 14 leaf types (int nat string bytes bool unit mutez timestamp address key_hash key signature chain_id, lambda unit unit), every one-constructor type over them '
                '(option list set or pair map, right combs of 3..6, left-nested and mixed pairs) and %s, values from boundary pools; for each value the packed bytes and their derived byte '
                'strings: truncation at every offset (first 33 / last 32 beyond 64 bytes), one-byte extensions, +-1 on every length field, non-minimal spelling of each integer, unknown node tags, '
                'unknown primitive tags, wrong / missing 0x05, replacements of the first %d bytes. Leg A (TLC): Unpack(Pack) = value, Pack = 05 + binary form of the declarative comb notation, '
                'packing is injective, every derived string of the strict classes is rejected before typing. Leg B: pack() and PACK give the model bytes, also at the type annotated by each of '
                '5 annotation schemes; unpack() and UNPACK give back the value; UNPACK pushes None for every derived string the model rejects as not binary Micheline. '
                'non-trivial = a derived byte string, an annotated type, or a value of a type other than int/nat/string/bytes/bool/unit/mutez'
                % ('12 two-constructor types' if q else 'about 150 two-constructor types', 4 if q else 12))
    ctx.assumptions = ['derived byte strings that are valid binary Micheline (ill-typed for the type, relaxed forms, or other values) are only counted',
                       'primitive tags 159..%d are not used as "unknown" (a newer protocol may define them)' % C05.MARGIN,
                       'lambdas are limited to the bodies {} and {DROP; UNIT}; contract, ticket, BLS, sapling types are outside the universe',
                       'Base58Check notation of the constructed values comes from harness/vf/b58.py (independent of pytezos)']
    r = ctx.tlc('MichData', CFG % (2 if q else 3, 'FALSE' if q else 'TRUE', 4 if q else 12), name='MichData_C04', dump=True, timeout=3000, coverage=False, heap='12g')
    ctx.require_no_violation(r, 'MichData')
    pcs, seen_types, classes, demanded = {}, set(), set(), 0
    for st in iter_dump(r.dump):
        pcs[st['pc']] = pcs.get(st['pc'], 0) + 1
        if st['pc'] != 'done':
            continue
        t, v = st['ty'], st['val']
        if st['unp'] != (True, v, False):
            raise MachineryError('dump: model Unpack(Pack) is not the value for %r' % (t,))
        ok = check_case(ctx, t, v, st['nodes'], st['packed'], st['legacy'], names)
        ctx.again(check_case, ctx, t, v, st['nodes'], st['packed'], st['legacy'], names)
        ctx.replayed += 1
        seen_types.add(md.type_class(t))
        for m in st['muts']:
            classes.add(m[0])
            demanded += (not m[3][0]) and m[3][1][1] != 'type'
            ok = check_mutant(ctx, t, st['packed'], m) and ok
        if ok and md.comb_len(t) >= 4 and ctx.replayed % 5 == 0:
            ctx.sample({'type': terms.type_json(t), 'value': md.node_json(st['nodes'][0], names), 'packed': bytes(st['packed']).hex(), 'derived_inputs': len(st['muts'])}, limit=6)
    want = {'trunc', 'extend', 'len+1', 'len-1', 'nonmin', 'toptag', 'nodetag', 'primtag', 'byte', 'prefix', 'noprefix'}
    need = {'comb3', 'comb4', 'comb5', 'comb6', 'pair', 'option', 'or', 'list', 'set', 'map', 'timestamp', 'address', 'key_hash', 'key', 'signature', 'chain_id', 'lambda'}
    if classes != want or not demanded or not need <= seen_types or len({pcs.get(k) for k in ('render', 'rendered', 'packed', 'unpacked', 'done')}) != 1 or not pcs.get('done'):
        raise MachineryError('vacuity: classes %s, rejected %d, type classes %s, states per phase %s' % (sorted(classes), demanded, sorted(seen_types), pcs))
    ctx.second_pass()
    ctx.exhaustive = True


def replay(ctx, rep):
    c = rep['case']
    names = C05.prim_names()
    if c.get('leg') == 'A':
        run(ctx)
        ok = not ctx.mismatches
    elif c['kind'] == 'case':
        ok = check_case(ctx, md.tup(c['ty']), md.tup(c['val']), md.tup(c['nodes']), tuple(c['packed']), tuple(c['legacy']), names)
    else:
        ok = check_mutant(ctx, md.tup(c['ty']), tuple(c['base']), (c['class'], c['detail'], md.tup(c['patch']), md.tup(c['model'])))
    for m in ctx.mismatches:
        print('REPRODUCED', m.signature, m.detail)
    return 0 if ok else 1


META = {
    'category': 'model_checking',
    'text': ('MichData.tla defines Pack(t, v) = 05 followed by the binary Micheline (MichelineCodec.tla) of the optimized notation of v - with the comb rule written both stepwise as in the '
             'reference and declaratively - and Unpack = strict decoding followed by typed reading. TLC checks on every <type, value> of a bounded universe that Unpack inverts Pack, that packing '
             'is injective and that every truncated, extended, non-minimal, wrongly tagged or wrongly prefixed variant of the packed bytes is rejected by the decoder. Every case is replayed '
             'through pytezos: pack()/PACK must give the model bytes (also when the type carries annotations), unpack()/UNPACK must give back the value, and UNPACK must push None on every '
             'variant the model rejects as not being binary Micheline.'),
    'design_ref': 'DESIGN.md section 5 C04, A.10',
    'note': ('Trusted: node -> Micheline JSON concretisation, Base58Check via b58.py, projection of pytezos values through terms.pval, limb <-> Python integers, the annotation schemes of C17. '
             'Bounds: one-constructor types over 14 leaves plus 12 (quick) / ~150 (thorough) two-constructor types, combs up to 6, about 75 derived byte strings per value. '
             'Not compared: derived strings that are still valid binary Micheline; primitive tags 159..175.'),
    'technique': 'TLA+ spec + TLC exhaustive model checking; spec-behaviour replay into MichelsonType.pack/unpack and the PACK / UNPACK instructions',
}
