"""C12 - Python-object conversion of contract data round-trips.  Spec: MichPy.tla."""
import concurrent.futures, hashlib, re

from .. import tlc as _tlc
from ..tlaparse import to_json

CFG = """SPECIFICATION Spec
CONSTANTS MaxDepth = %(depth)d
 MaxAnn = %(ann)d
 LeafBases = {%(bases)s}
 BinPrims = {%(bin)s}
 UnPrims = {%(un)s}
 MapPrims = {%(maps)s}
 FieldPool = {%(fields)s}
 TypePool = {%(types)s}
 Universe <- GenUniverse
INVARIANT LayoutAgrees
INVARIANT KeysUnique
INVARIANT ValuesOK
INVARIANT ObjectHasDocumentedShape
INVARIANT RoundTrip
INVARIANT OnlyNestedOptionCollapses
INVARIANT Emit
"""


def fam(name, depth, ann, bases, bin=(), un=(), maps=(), fields=(), types=(), ep=0):
    q = lambda xs: ', '.join('"%s"' % x for x in xs)
    return {'name': name, 'ep': ep,
            'cfg': CFG % dict(depth=depth, ann=ann, bases=q(bases), bin=q(bin), un=q(un), maps=q(maps), fields=q(fields), types=q(types))}


DEEP = """---- MODULE MichPyDeep ----
EXTENDS MichPy
\\* hand-picked types one level deeper than the generated families reach: composite keys that contain a union, a named record or an option of a union
N == <<"nat", "", "">>
Nf(f) == <<"nat", f, "">>
Pr(f, t, l, r) == <<"pair", f, t, l, r>>
Or(l, r) == <<"or", "", "", l, r>>
K1 == Pr("", "", Or(N, N), N)
K2 == Pr("", "", Pr("a", "", Nf("x"), Nf("y")), N)
K3 == Pr("", "", Pr("", "t", Nf("x"), N), N)
K4 == Pr("", "", <<"option", "", "", Or(N, N)>>, N)
K5 == Pr("", "", Or(Nf("l"), Nf("r")), N)
K6 == Pr("", "", N, Pr("b", "", Nf("x"), Nf("y")))
K7 == Or(Pr("", "", N, N), N)
DeepU == {<<"set", "", "", K1>>, <<"map", "", "", K2, N>>, <<"set", "", "", K3>>, <<"map", "", "", K4, N>>, <<"big_map", "", "", K5, N>>,
          <<"map", "", "", K6, N>>, <<"set", "", "", K7>>, Pr("", "", <<"set", "", "", K1>>, N), <<"map", "", "", K1, <<"set", "", "", K2>>>>,
          <<"set", "", "", K2>>, <<"map", "", "", K5, N>>, <<"list", "", "", <<"map", "", "", K1, N>>>>}
====
"""

# ep = every ep-th type (by a stable hash) also goes through ContractEntrypoint (0: none, 1: all)
QUICK = [
    fam('rec', 2, 3, ['int'], bin=['pair'], fields=['a', 'int_1'], types=['a']),
    fam('sum', 2, 2, ['int', 'unit'], bin=['or'], fields=['a', 'int_1'], ep=4),
    # annotations of the generated-name form, with and without the collision suffix
    fam('recu', 2, 2, ['int'], bin=['pair'], fields=['int_2', 'int_2_']),
    fam('mix', 2, 1, ['int', 'unit'], bin=['pair', 'or'], un=['option'], fields=['a'], ep=6),
    fam('coll', 2, 0, ['int', 'string'], bin=['pair', 'or'], un=['option', 'list', 'set'], maps=['map', 'big_map']),
    fam('keys', 2, 1, ['nat'], bin=['pair', 'or'], un=['set'], maps=['map'], fields=['a']),
    # %default (and another name) on inner nodes and leaves of a union: how the whole parameter is addressed depends on it
    fam('sumdef', 2, 2, ['int', 'unit'], bin=['or'], fields=['default', 'f'], ep=1),
    # the records again, every component without a field annotation carrying the empty annotation %: same layout, same names, same objects
    dict(fam('recbare', 2, 2, ['int'], bin=['pair'], fields=['a', 'int_1'], types=['a']), bare=True),
    dict(fam('deep', 0, 0, ['nat']), deep=True),
]
THOROUGH = [      # sizes (types): 9k 11k 16k 18k 4k 14k 3k 7k 2k 1k
    fam('rec4', 2, 4, ['int'], bin=['pair'], fields=['a', 'int_1', 'int_2'], types=['a']),
    fam('rec2', 2, 2, ['int', 'string'], bin=['pair'], fields=['a', 'int_1', 'string_3'], types=['a', 'b']),
    fam('rec3', 3, 2, ['int'], bin=['pair'], fields=['a', 'int_1', 'int_2'], types=['a']),
    fam('sum', 2, 3, ['int', 'unit'], bin=['or'], fields=['a', 'int_1'], types=['a'], ep=8),
    fam('sum3', 3, 2, ['int'], bin=['or'], fields=['a', 'int_1'], ep=4),
    fam('mix', 2, 2, ['int', 'unit'], bin=['pair', 'or'], un=['option'], fields=['a', 'int_1'], ep=10),
    fam('mix3', 3, 0, ['int'], bin=['pair', 'or'], un=['option'], ep=10),
    fam('coll', 2, 1, ['int', 'bytes'], bin=['pair', 'or'], un=['option', 'list', 'set'], maps=['map', 'big_map'], fields=['a']),
    fam('keys', 2, 2, ['nat'], bin=['pair', 'or'], un=['set', 'option'], maps=['map'], fields=['a', 'nat_1']),
    fam('opt3', 3, 1, ['int'], bin=['pair'], un=['option'], fields=['a']),
    fam('sumdef', 2, 3, ['int', 'unit'], bin=['or'], fields=['default', 'f', 'g'], ep=1),      # (a branch named root next to one named default is the reserved-name corner C13 sets aside)
    dict(fam('deep', 0, 0, ['nat']), deep=True),
]


# ---------------------------------------------------------------- model terms <-> Micheline / Python
def tup(x):
    return tuple(tup(y) for y in x) if isinstance(x, (list, tuple)) else x


BARE = [False]      # family switch: components of pair / or without a field annotation carry the empty one (%), which names nothing


def ann_json(t, parent=None):
    e = {'prim': t[0]}
    annots = ([':' + t[2]] if t[2] else []) + (['%' + t[1]] if t[1] else ['%'] if (BARE[0] and parent in ('pair', 'or')) else [])
    if annots:
        e['annots'] = annots
    if len(t) > 3:
        e['args'] = [ann_json(x, t[0]) for x in t[3:]]
    return e


def michelson(t):
    a = (' :' + t[2] if t[2] else '') + (' %' + t[1] if t[1] else '')
    if len(t) == 3:
        return '(%s%s)' % (t[0], a) if a else t[0]
    return '(%s%s %s)' % (t[0], a, ' '.join(michelson(x) for x in t[3:]))


def vjson(t, v):
    k = t[0]
    if k in ('int', 'nat'):
        return {'int': str(v[1])}
    if k == 'string':
        return {'string': bytes(v[1]).decode('latin-1')}
    if k == 'bytes':
        return {'bytes': bytes(v[1]).hex()}
    if k == 'bool':
        return {'prim': 'True' if v[1] else 'False'}
    if k == 'unit':
        return {'prim': 'Unit'}
    if k == 'pair':
        return {'prim': 'Pair', 'args': [vjson(t[3], v[1]), vjson(t[4], v[2])]}
    if k == 'or':
        return {'prim': 'Left', 'args': [vjson(t[3], v[1])]} if v[0] == 'l' else {'prim': 'Right', 'args': [vjson(t[4], v[1])]}
    if k == 'option':
        return {'prim': 'None'} if v[0] == 'none' else {'prim': 'Some', 'args': [vjson(t[3], v[1])]}
    if k in ('list', 'set'):
        return [vjson(t[3], x) for x in v[1]]
    if k in ('map', 'big_map'):
        if v[0] == 'bmptr':
            return {'int': str(v[1])}
        return [{'prim': 'Elt', 'args': [vjson(t[3], e[0]), vjson(t[4], e[1])]} for e in v[1]]
    raise ValueError(k)


def pval(t, j):
    """Micheline produced by pytezos -> model value"""
    k = t[0]
    if k in ('int', 'nat'):
        return ('i', int(j['int']))
    if k == 'string':
        return ('s', tuple(j['string'].encode('latin-1')))
    if k == 'bytes':
        return ('b', tuple(bytes.fromhex(j['bytes'])))
    if k == 'bool':
        return ('bool', {'True': True, 'False': False}[j['prim']])
    if k == 'unit':
        assert j['prim'] == 'Unit'
        return ('unit',)
    if k == 'pair':
        args = j if isinstance(j, list) else j['args']
        if len(args) > 2:      # right comb printed flat
            return ('p', pval(t[3], args[0]), pval(t[4], list(args[1:])))
        return ('p', pval(t[3], args[0]), pval(t[4], args[1]))
    if k == 'or':
        return ('l', pval(t[3], j['args'][0])) if j['prim'] == 'Left' else ('r', pval(t[4], j['args'][0]))
    if k == 'option':
        return ('none',) if j['prim'] == 'None' else ('some', pval(t[3], j['args'][0]))
    if k in ('list', 'set'):
        return (k, tuple(pval(t[3], x) for x in j))
    if k in ('map', 'big_map'):
        if isinstance(j, dict):
            return ('bmptr', int(j['int']))
        return ('map', tuple((pval(t[3], e['args'][0]), pval(t[4], e['args'][1])) for e in j))
    raise ValueError(k)


def pyobj(o):
    """model Python object -> the real Python object"""
    from pytezos.michelson.types.core import Unit
    k = o[0]
    if k == 'pyint':
        return o[1]
    if k == 'pystr':
        return bytes(o[1]).decode('latin-1')
    if k == 'pyname':
        return o[1]
    if k == 'pybytes':
        return bytes(o[1])
    if k == 'pybool':
        return o[1]
    if k == 'pyunit':
        return Unit
    if k == 'pynone':
        return None
    if k == 'pytuple':
        return tuple(pyobj(x) for x in o[1])
    if k == 'pylist':
        return [pyobj(x) for x in o[1]]
    if k == 'pydict':
        return {pyobj(a): pyobj(b) for a, b in o[1]}
    raise ValueError(k)


def canon(x):
    """type-strict canonical form of a Python object (True is not 1, a tuple is not a list, dict order is irrelevant)"""
    from pytezos.michelson.types.core import unit
    if x is None:
        return ('none',)
    if isinstance(x, unit):
        return ('unit',)
    if isinstance(x, bool):
        return ('bool', x)
    if isinstance(x, int):
        return ('int', x)
    if isinstance(x, str):
        return ('str', x)
    if isinstance(x, bytes):
        return ('bytes', x)
    if isinstance(x, tuple):
        return ('tuple', tuple(canon(y) for y in x))
    if isinstance(x, list):
        return ('list', tuple(canon(y) for y in x))
    if isinstance(x, dict):
        return ('dict', tuple(sorted(((canon(a), canon(b)) for a, b in x.items()), key=repr)))
    return ('other', type(x).__name__, repr(x))


def exc_class(e):
    msg = str(e.args[-1]) if e.args else ''
    msg = re.sub(r'`[^`]*`', '`..`', msg)
    msg = re.sub(r', got .*$', '', msg)
    msg = re.sub(r'^expected .*$', 'object of another type expected', msg)    # which type depends on the datum, not on the class
    msg = re.sub(r'Missing \S+ field', 'Missing .. field', msg)
    if re.fullmatch(r'[01]+', msg) or re.fullmatch(r"'?[a-z]+_\d+'?", msg):
        msg = 'KEY'
    msg = re.sub(r'[^A-Za-z_. `]+', ' ', msg).strip().replace(' ', '-')[:40]
    return '%s(%s)' % (type(e).__name__, msg)


# ---------------------------------------------------------------- type classes (for signatures), computed on the model type
def elems(t):
    """flattened elements of the record / sum rooted at t (same definition as PairElems / OrLeaves, used only to classify)"""
    out = []
    for c in t[3:5]:
        if t[0] == 'pair' and c[0] == 'pair' and not c[1] and not c[2]:
            out += elems(c)
        elif t[0] == 'or' and c[0] == 'or':
            out += elems(c)
        else:
            out.append(c)
    return out


def collision_kind(t):
    """which kind of node of a not-ConvOK type has the key clash: 'or' (possibly also a pair) or 'pair' (classification only)"""
    kinds = set()

    def walk(t):
        if len(t) == 3:
            return
        if t[0] in ('pair', 'or'):
            es = elems(t)
            names = []
            seen = set()
            for i, c in enumerate(es):
                n = c[1] or c[2]
                if n and n not in seen:
                    seen.add(n)
                    names.append(n)
                else:
                    names.append('%s_%d' % (c[0], i))
            if len(set(names)) < len(names) and (t[0] == 'or' or seen):
                kinds.add(t[0])
            for c in es:
                walk(c)
        else:
            for c in t[3:]:
                walk(c)
    walk(t)
    return 'or' if 'or' in kinds else 'pair' if kinds else 'none'     # a clash in a sum decides: it sends values to the wrong variant


class Case:
    def __init__(self, T, v, convok, nested, py, back):
        self.T, self.v, self.convok, self.nested, self.py, self.back = T, v, convok, nested, py, back

    def json(self, **kw):
        d = {'T': to_json(self.T), 'michelson': michelson(self.T), 'v': to_json(self.v), 'convok': self.convok, 'nested': self.nested,
             'py': to_json(self.py), 'back': to_json(self.back)}
        d.update(kw)
        return d


class TypeCtx:
    """pytezos objects built once per type"""

    def __init__(self, T):
        from pytezos.michelson.types.base import MichelsonType
        self.T = T
        self.expr = ann_json(T)
        self.cls = MichelsonType.match(self.expr)
        self.cls2 = MichelsonType.match(ann_json(T))      # an independent second construction (stability of the names)
        self.param = None


_CTX = {}


def exec_context():
    if 'c' not in _CTX:
        from pytezos.context.impl import ExecutionContext
        _CTX['c'] = ExecutionContext()
    return _CTX['c']


def input_class(c):
    if not c.convok:
        return 'key-clash-' + collision_kind(c.T)
    if c.nested:
        return 'option-of-option'
    return 'regular'


def roundtrip(ctx, c, site, conv_back, o, extra=''):
    """conv_back(o) -> Micheline; the value must be c.v.  Returns True when it is."""
    T, v = c.T, c.v
    ic = input_class(c)
    try:
        got = pval(T, conv_back(o))
    except Exception as e:   # noqa
        ctx.mismatch('C12:%s:roundtrip:%s:raises-%s' % (site, ic, exc_class(e)),
                     '%s, value %s: Python object %r; converting it back raised %r' % (michelson(T), vjson(T, v), o, e), c.json(site=site))
        return False
    if got == v:
        return True
    if c.convok and c.nested and got == c.back:
        obs = 'collapses-to-outer-None'       # exactly what the documented object (content or None) implies
    else:
        obs = 'wrong-value'
    ctx.mismatch('C12:%s:roundtrip:%s:%s' % (site, ic, obs),
                 '%s, value %s: Python object %r; converted back it is %s' % (michelson(T), vjson(T, v), o, vjson(T, got)), c.json(site=site))
    return False


def check_case(ctx, tc, c, with_ep):
    """one (type, value): type level, ContractData level, optionally ContractEntrypoint level"""
    from pytezos.contract.data import ContractData
    T, v = c.T, c.v
    vj = vjson(T, v)
    ic = input_class(c)
    try:
        x = tc.cls.from_micheline_value(vj)
        if pval(T, x.to_micheline_value(lazy_diff=None)) != v:
            raise ValueError('Micheline round trip differs')
    except Exception as e:   # noqa
        ctx.skip('value not accepted / not reproduced at the Micheline level (C11 domain): %s' % exc_class(e))
        return True
    # ---- value -> object
    try:
        o = x.to_python_object(lazy_diff=None)
        o2 = tc.cls2.from_micheline_value(vj).to_python_object(lazy_diff=None)
    except Exception as e:   # noqa
        ctx.mismatch('C12:type:to_python_object:%s:raises-%s' % (ic, exc_class(e)), '%s, value %s: to_python_object raised %r' % (michelson(T), vj, e), c.json(site='type'))
        return False
    ok = True
    if canon(o) != canon(o2):
        ctx.mismatch('C12:type:names-unstable', '%s, value %s: two constructions of the type give %r and %r' % (michelson(T), vj, o, o2), c.json(site='type'))
        ok = False
    if c.convok:
        want = pyobj(c.py)
        if canon(o) != canon(want):
            ctx.mismatch('C12:type:object-shape:%s:%s' % (T[0], ic), '%s, value %s: Python object %r, documented convention: %r' % (michelson(T), vj, o, want), c.json(site='type'))
            ok = False
    elif T[0] in ('pair', 'or'):
        n = len(elems(T))
        if T[0] == 'pair' and isinstance(o, dict) and len(o) != n:
            ctx.mismatch('C12:type:keys-not-unique:pair', '%s, value %s: the record has %d elements but its Python object has %d keys: %r' % (michelson(T), vj, n, len(o), o),
                         c.json(site='type'))
            ok = False
    # ---- object -> value
    ok = roundtrip(ctx, c, 'type', lambda ob: tc.cls.from_python_object(ob).to_micheline_value(lazy_diff=None), o) and ok
    if c.convok and ok:
        # spec -> code: the model's object, not the one pytezos produced
        ok = roundtrip(ctx, c, 'type-from-model-object', lambda ob: tc.cls.from_python_object(ob).to_micheline_value(lazy_diff=None), pyobj(c.py)) and ok
    if not ok:
        ctx.skip('ContractData / ContractEntrypoint level not run: the type level already failed for this case')
        return False
    # ---- ContractData.decode / encode
    try:
        cd = ContractData(exec_context(), x, title='storage')
        d = cd.decode(vj)
    except Exception as e:   # noqa
        ctx.mismatch('C12:ContractData:decode:%s:raises-%s' % (ic, exc_class(e)), '%s, value %s: ContractData.decode raised %r' % (michelson(T), vj, e), c.json(site='ContractData'))
        return False
    if canon(d) != canon(o):
        ctx.mismatch('C12:ContractData:decode:%s:differs-from-to_python_object' % ic, '%s, value %s: decode gave %r, to_python_object %r' % (michelson(T), vj, d, o), c.json(site='ContractData'))
        ok = False
    ok = roundtrip(ctx, c, 'ContractData', lambda ob: cd.encode(ob), d) and ok
    if ok:
        try:
            d2 = cd.decode(cd.encode(d))
            if canon(d2) != canon(d):
                ctx.mismatch('C12:ContractData:decode-encode:%s:differs' % ic, '%s: decode(encode(%r)) = %r' % (michelson(T), d, d2), c.json(site='ContractData'))
                ok = False
        except Exception as e:   # noqa
            ctx.mismatch('C12:ContractData:decode-encode:%s:raises-%s' % (ic, exc_class(e)), '%s: decode(encode(%r)) raised %r' % (michelson(T), d, e), c.json(site='ContractData'))
            ok = False
    if with_ep and ok and c.convok:
        ok = check_entrypoints(ctx, tc, c, o) and ok
    return ok


def has_prim(t, prim):
    return t[0] == prim or any(has_prim(x, prim) for x in t[3:])


def or_leaf(t, v):
    """the variant (type, value) a value of an `or` tree lies in"""
    while t[0] == 'or':
        t, v = (t[3], v[1]) if v[0] == 'l' else (t[4], v[1])
    return t, v


def check_entrypoints(ctx, tc, c, o):
    """the type as a contract parameter: ContractEntrypoint.decode / encode through the root entrypoint and through the variant's own"""
    from pytezos.contract.entrypoint import ContractEntrypoint
    from pytezos.michelson.sections.parameter import ParameterSection
    T, v = c.T, c.v
    if has_prim(T, 'big_map'):
        return True
    ctx.extra['entrypoint_cases'] = ctx.extra.get('entrypoint_cases', 0) + 1
    pexpr = {'prim': 'parameter', 'args': [tc.expr]}
    if tc.param is None:
        try:
            tc.param = ParameterSection.match(pexpr)
            tc.entries = tc.param.list_entrypoints()
        except Exception as e:   # noqa
            tc.param = False
            ctx.skip('not usable as a parameter type (%s)' % exc_class(e))
    if tc.param is False:
        return True
    ectx = exec_context()
    ectx.set_parameter_expr(pexpr)
    root = tc.param.root_name
    vj = vjson(T, v)
    want = o if T[0] == 'or' else {root: o}
    ok = True
    site = 'ContractEntrypoint'
    E = ContractEntrypoint(ectx, root)
    try:
        d = E.decode(vj)
        if canon(d) != canon(want):
            ctx.mismatch('C12:%s:decode:root:wrong-object' % site, 'parameter %s, entrypoint %s, value %s: decode gave %r, expected %r' % (michelson(T), root, vj, d, want), c.json(site=site))
            ok = False
    except Exception as e:   # noqa
        ctx.mismatch('C12:%s:decode:root:raises-%s' % (site, exc_class(e)), 'parameter %s, entrypoint %s, value %s: decode raised %r' % (michelson(T), root, vj, e), c.json(site=site))
        ok = False
    leaf_t, leaf_v = or_leaf(T, v) if T[0] == 'or' else (None, None)

    def denotes(params):
        return pval(T, tc.param.from_parameters(params).to_micheline_value())
    try:
        params = E.encode(o)
        if denotes(params) != v:
            ctx.mismatch('C12:%s:encode:root:wrong-value' % site, 'parameter %s: %s.encode(%r) = %s, which is not %s' % (michelson(T), root, o, params, vj), c.json(site=site))
            ok = False
    except Exception as e:   # noqa
        ctx.mismatch('C12:%s:encode:root:raises-%s' % (site, exc_class(e)), 'parameter %s: %s.encode(%r) raised %r' % (michelson(T), root, o, e), c.json(site=site))
        ok = False
    if T[0] == 'or':
        k = leaf_t[1]
        ov = o if isinstance(o, str) else o[next(iter(o))]
        if isinstance(o, str):
            from pytezos.michelson.types.core import Unit
            ov = Unit
        if k not in tc.entries or (not isinstance(o, str) and next(iter(o)) != k) or (isinstance(o, str) and o != k):
            ctx.skip('variant key is not a listed entrypoint (duplicate field annotation)')
            return ok
        Ek = ContractEntrypoint(ectx, k)
        try:
            params = Ek.encode(ov)
            if denotes(params) != v:
                ctx.mismatch('C12:%s:encode:variant:wrong-value' % site, 'parameter %s: %s.encode(%r) = %s, which is not %s' % (michelson(T), k, ov, params, vj), c.json(site=site))
                ok = False
            else:
                d = Ek.decode(params['value'], entrypoint=params['entrypoint'])
                if canon(d) != canon(o):
                    ctx.mismatch('C12:%s:decode-encode:variant:wrong-object' % site, 'parameter %s: %s.decode(encode(%r)) = %r, expected %r' % (michelson(T), k, ov, d, o), c.json(site=site))
                    ok = False
        except Exception as e:   # noqa
            ctx.mismatch('C12:%s:encode:variant:raises-%s' % (site, exc_class(e)), 'parameter %s: %s.encode(%r) / decode raised %r' % (michelson(T), k, ov, e), c.json(site=site))
            ok = False
    return ok


def stable_pick(T, n):
    if n <= 0:
        return False
    if n == 1:
        return True
    return int.from_bytes(hashlib.blake2b(repr(T).encode(), digest_size=4).digest(), 'big') % n == 0


def run_tlc_parallel(ctx, fams, timeout):
    """the families are independent configurations of one module: run them side by side"""
    def one(f):
        # action coverage (vacuity) is collected on the smallest family only: -coverage slows the big ones down a lot
        if f.get('deep'):
            return _tlc.run('MichPyDeep', f['cfg'].replace('Universe <- GenUniverse', 'Universe <- DeepU'), ctx.wd, name='MichPy_' + f['name'], workers=4, timeout=timeout,
                            coverage=False, gen={'MichPyDeep': DEEP})
        return _tlc.run('MichPy', f['cfg'], ctx.wd, name='MichPy_' + f['name'], workers=4, timeout=timeout, coverage=f['name'] == 'keys')
    with concurrent.futures.ThreadPoolExecutor(max_workers=4) as ex:
        results = list(ex.map(one, fams))
    for f, r in zip(fams, results):     # the bookkeeping of ctx.tlc, done in the main thread
        ctx.states += r.distinct
        ctx.transitions += r.generated
        d = r.as_dict()
        d['module'] = 'MichPy'
        d['name'] = 'MichPy_' + f['name']
        ctx.tlc_runs.append(d)
    return results


def run(ctx):
    ctx.rule = ('annotated types generated by MichPy.tla per family (records, sums, pair/or/option mixes, collections with composite keys and big_map literals / pointers, '
                'named composite keys) up to the depth and annotation bounds; per type up to 4 values built from the end points of the component pools; '
                'per case: Python object = the documented object, object -> value round trip (type level, from the model\'s own object, ContractData.decode/encode), '
                'names identical on a second construction, and for a sample of types used as a parameter ContractEntrypoint.decode/encode; '
                'non-trivial = a composite type')
    ctx.assumptions = ['the documented Python object is the one generate_pydoc describes: flattened unannotated pairs, flattened ors, names = field else type annotation, '
                       'first occurrence wins, fall-back <prim>_<index>; where that convention yields the same key twice the model predicts no object and only the '
                       'round trip and the number of keys are checked',
                       'key / element types containing unit or option (option _) are excluded (pytezos cannot build such sets / maps at all: not a conversion matter)',
                       'field annotations only on components of pair / or, none on the root; big_map only at the root or as a component of pair / or',
                       'ContractEntrypoint.encode on values whose variant has no field annotation ends in to_parameters, which is C13\'s domain: skipped here',
                       'values: all combinations of the first and last value of each component pool (not the full product)']
    fams = QUICK if ctx.quick else THOROUGH
    results = run_tlc_parallel(ctx, fams, 600 if ctx.quick else 3000)
    seen = set()
    ntypes = 0
    classes = set()
    for f, r in zip(fams, results):
        ctx.require_no_violation(r, 'MichPy_' + f['name'])
        if f['name'] == 'keys':
            ctx.require_coverage(r, ['LayoutStep', 'Pick', 'Encode', 'Decode'])
        outs = [v for v in r.printed if v[0] == 'OUT']
        if not outs:
            raise Exception('no cases exported by family ' + f['name'])
        bytype = {}
        for v in outs:
            bytype.setdefault(v[1], []).append(v)
        BARE[0] = bool(f.get('bare'))
        for T in sorted(bytype, key=repr):
            if (T, BARE[0]) in seen:
                continue       # the same type reached through two families
            seen.add((T, BARE[0]))
            ntypes += 1
            try:
                tc = TypeCtx(T)
            except Exception as e:   # noqa
                ctx.mismatch('C12:type:construction:raises-' + exc_class(e), '%s: MichelsonType.match raised %r' % (michelson(T), e), {'T': to_json(T), 'michelson': michelson(T), 'site': 'construct'})
                continue
            with_ep = stable_pick(T, f['ep'])
            good = True
            for _, _, v, convok, nested, py, back in bytype[T]:
                c = Case(T, v, convok and not BARE[0], nested, py, back)      # with empty annotations around, how pytezos names the components is not compared, only the round trip
                classes.add((convok, nested, py[0]))
                good = check_case(ctx, tc, c, with_ep) and good
                ctx.replayed += 1
                ctx.count((T, v), nontrivial=len(T) > 3)
            if good and len(T) > 3 and (T[1] or T[2] or any(x[1] or x[2] for x in T[3:])):
                c = bytype[T][-1]
                ctx.sample({'type': michelson(T), 'value': vjson(T, c[2]), 'object': repr(pyobj(c[5])) if c[3] else None}, limit=6)
    BARE[0] = False
    ctx.extra['types'] = ntypes
    # vacuity: every class of case the invariants and comparisons speak about was actually enumerated
    need = [(False, False, '#undefined'), (True, True, 'pynone'), (True, False, 'pydict'), (True, False, 'pytuple'), (True, False, 'pyname'),
            (True, False, 'pylist'), (True, False, 'pyint')]
    missing = [n for n in need if n not in classes]
    if missing or not ctx.extra.get('entrypoint_cases'):
        raise _tlc.MachineryError('vacuity: case classes never enumerated: %s (entrypoint cases: %s)' % (missing, ctx.extra.get('entrypoint_cases')))
    ctx.exhaustive = True


def replay(ctx, rep):
    k = rep['case']
    T = tup(k['T'])
    if k.get('site') == 'construct':
        try:
            TypeCtx(T)
            return 0
        except Exception as e:   # noqa
            print('REPRODUCED', rep.get('signature'), repr(e))
            return 1
    c = Case(T, tup(k['v']), k['convok'], k['nested'], tup(k['py']), tup(k['back']))
    ok = check_case(ctx, TypeCtx(T), c, True)
    want = rep.get('signature')
    for m in ctx.mismatches:
        print('REPRODUCED' if m.signature == want else 'ALSO', m.signature, m.detail)
    return 0 if ok else 1


META = {
    'category': 'model_checking',
    'text': ('MichPy.tla defines the documented Python object of every annotated storage / parameter type (flattening of pairs and ors, key assignment with '
             'first-occurrence-wins and <prim>_<index> fall-backs as a step-by-step loop and declaratively, enums, option, collections with tuple keys, big_map '
             'literal / pointer) with ToPy / FromPy. TLC checks over every generated type and value that the loop and the declarative keys agree, keys are unique '
             'wherever the convention defines an object, the object has the documented shape, FromPy(ToPy(v)) = v, and that option-of-option is the only place '
             'where the documented object is not injective. Every (type, value) TLC enumerates is replayed through to_python_object / from_python_object, '
             'ContractData.decode / encode and (sampled) ContractEntrypoint.decode / encode and compared with the model.'),
    'design_ref': 'DESIGN.md section 5 C12',
    'note': ('Trusted: the term / object converters in C12.py. Bounds (quick): depth 2, <= 3 annotated nodes, five families (~6.7k types, ~24k cases); thorough: depth 2-3, '
             '<= 4 annotated nodes, ten families (~85k types, ~314k cases). Values are end-point combinations, not full products. Unit and option(option) keys excluded. '
             'ContractEntrypoint on a hash-selected sample of the sum / mix families.'),
    'technique': 'TLA+ spec + TLC exhaustive model checking; spec-behaviour replay into MichelsonType / ContractData / ContractEntrypoint',
}
