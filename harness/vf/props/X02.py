"""X02 (not a listed property: growth of the specification) - ShellQuery.wait_operations follows OpWait.tla."""
import json

from .. import boundary
from ..tlaparse import iter_dump, to_json

CFG = """SPECIFICATION Spec
CONSTANTS Ops = {1, 2}
 Ttl = %d
 MinConf = %d
 BlockTimeout = 2
 MaxPolls = %d
INVARIANT ReturnsAll
INVARIANT Confirmed
INVARIANT FoundInOrder
INVARIANT GaveUpOnlyAfterTtl
INVARIANT NoDuplicates
"""


def make_node(init_ops, hist):
    from pytezos.rpc.node import RpcError, RpcNode

    class Resp:
        def __init__(self, data):
            self._d = data
            self.status_code = 200
            self.text = json.dumps(data)

        def json(self):
            return self._d

    class Node(RpcNode):
        def __init__(self):
            super().__init__('http://ops.invalid')
            self.blocks = {0: list(init_ops)}      # level -> operations
            self.level = 0
            self.script = list(hist)
            self.exhausted = False

        def request(self, method, path, **kw):
            if path.endswith('blocks/head/hash'):
                if not self.script:
                    self.exhausted = True
                    raise RpcError('script exhausted')
                new, inc = self.script.pop(0)
                if new:
                    self.level += 1
                    self.blocks[self.level] = list(inc)
                return Resp('B%d' % self.level)
            if '/blocks/B' in path:
                lvl = int(path.split('/blocks/B')[1].split('/')[0])
                if path.endswith('/header'):
                    return Resp({'level': 100 + lvl, 'timestamp': '2020-01-01T00:00:00Z', 'hash': 'B%d' % lvl})
                if path.endswith('/operation_hashes'):
                    return Resp([[], [], [], ['op%d' % o for o in self.blocks[lvl]]])
                if '/operations/3/' in path:
                    j = int(path.rsplit('/', 1)[1])
                    return Resp({'hash': 'op%d' % self.blocks[lvl][j], 'block': lvl})
            if path.endswith('mempool/pending_operations'):
                return Resp({'applied': [], 'refused': [], 'outdated': [], 'branch_refused': [], 'branch_delayed': [], 'unprocessed': []})
            raise RpcError('unexpected path ' + path)
    return Node()


def observe(init_ops, hist, ttl, minconf):
    from pytezos.rpc.node import RpcError
    from pytezos.rpc.shell import ShellQuery
    node = make_node(init_ops, hist)
    sh = ShellQuery(node=node)
    try:
        ops = sh.wait_operations(['op1', 'op2'], ttl=ttl, min_confirmations=minconf, current_block_hash='B0', time_between_blocks=0, block_timeout=2)
        return ('returned', [int(o['hash'][2:]) for o in ops], node.level)
    except TimeoutError:
        return ('timeout', None, node.level)
    except StopIteration:
        return ('gaveup', None, node.level)
    except RuntimeError as e:     # StopIteration raised inside a generator context
        return ('gaveup', None, node.level) if 'StopIteration' in repr(e.__cause__) or 'StopIteration' in str(e) else ('error', str(e), node.level)
    except RpcError:
        return ('open' if node.exhausted else 'error', None, node.level)


def run(ctx):
    boundary.install()
    ctx.rule = 'two watched operations; every node behaviour (keep head / bake a block including any subset of the not yet included operations) up to the poll bound; ttl 1..2, min_confirmations 1..2'
    ctx.assumptions = ['no reorganisations in this model (BlockWait covers them)', 'RpcNode subclass simulates the node; sleep stubbed']
    for ttl in (1, 2):
        for mc in (1, 2):
            r = ctx.tlc('OpWait', CFG % (ttl, mc, 4 if ctx.quick else 6), name='OpWait_%d_%d' % (ttl, mc), dump=True, coverage=False)
            ctx.require_no_violation(r, 'OpWait')
            for st in iter_dump(r.dump):
                # compare at quiescent points of the client: it needs the next poll, or it has finished
                if st['phase'] in ('search', 'confirm') and st['visited'] < st['level']:
                    continue
                ib = st['inBlock'] if isinstance(st['inBlock'], dict) else dict(enumerate(st['inBlock'], 1))
                init_ops = sorted(o for o, l in ib.items() if l == 0)
                hist = [(h[0], list(h[1])) for h in st['hist']]
                got = observe(init_ops, hist, ttl, mc)
                phase = st['phase']
                want = ('returned', list(st['found']), st['level']) if phase == 'returned' else ({'search': 'open', 'confirm': 'open'}.get(phase, phase), None, st['level'])
                ctx.replayed += 1
                ctx.count((ttl, mc, tuple(init_ops), to_json(hist).__repr__()), nontrivial=len(hist) > 0)
                if got != want:
                    ctx.mismatch('X02:wait_operations:%s' % phase, 'ttl=%d min_confirmations=%d start block ops %s node %s: pytezos %s, model %s' % (ttl, mc, init_ops, hist, got, want),
                                 {'hist': to_json(hist)})
                elif phase == 'returned' and len(hist) >= 2:
                    ctx.sample({'start_ops': init_ops, 'node': hist, 'returned': st['found']}, limit=3)
    ctx.exhaustive = True


def replay(ctx, rep):
    return 0


META = {'category': 'model_checking', 'text': 'growth of the specification: OpWait.tla', 'design_ref': 'DESIGN.md 11.7', 'note': 'not a listed property', 'technique': 'TLA+ + TLC + replay'}
