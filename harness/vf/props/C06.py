"""C06 - local operation forging matches the Tezos operation binary format.  Spec: OpForge.tla."""
import glob, json, os

from .. import c06_ref as R
from ..common import REPO
from ..tlaparse import to_json, to_tla
from ..tlc import MachineryError

CFG = """SPECIFICATION Spec
CONSTANTS Families = {%(families)s}
 MaxLen = %(maxlen)d
 HdrIdx = {%(hdr)s}
 AmtIdx = {%(amt)s}
 NTxHdr = %(ntx)d
 VecGroups <- VecDef
INVARIANT UniverseWellFormed
INVARIANT EncIsF
INVARIANT NoDecodeError
INVARIANT RoundTrip
INVARIANT PointerInRange
INVARIANT Export
"""
ACTIONS = ['EncBranch', 'EncContent', 'DecBranch', 'DecTag', 'DecField']
VEC_MODULE = """---- MODULE OpForgeVec ----
EXTENDS OpForge
VecDef == {%s}
====
"""
VECTOR_DIR = os.path.join(REPO, 'tests', 'unit_tests', 'test_operation', 'data')


def cfg(families, maxlen=2, hdr=(1, 3, 7), amt=(1, 2, 3, 4, 5, 6, 7), ntx=1):
    return CFG % dict(families=', '.join('"%s"' % f for f in families), maxlen=maxlen, hdr=', '.join(map(str, hdr)), amt=', '.join(map(str, amt)), ntx=ntx)


# ---------------------------------------------------------------------------- implementation side
_ctx = None


def _execution_context():
    global _ctx
    if _ctx is None:
        from pytezos.context.impl import ExecutionContext
        _ctx = ExecutionContext()
    return _ctx


def _builder_kwargs(c):
    """Model content -> (method name, kwargs) of the public content builders (ints stay ints)."""
    kind, f = c[0], c[1:]
    kw = {}
    if kind in R.MANAGER:
        kw.update(source=R.pkh(f[0]), fee=R.nat(f[1]), counter=R.nat(f[2]), gas_limit=R.nat(f[3]), storage_limit=R.nat(f[4]))
        f = f[5:]
    j = R.content_json(c)
    if kind == 'reveal':
        kw.update(public_key=j['public_key'])
        if 'proof' in j:
            kw['proof'] = j['proof']
    elif kind == 'transaction':
        kw.update(destination=j['destination'], amount=R.nat(f[0]), parameters=j.get('parameters'))
    elif kind == 'origination':
        kw.update(script=j['script'], balance=R.nat(f[0]), delegate=j.get('delegate'))
    elif kind == 'delegation':
        kw.update(delegate=j.get('delegate'))      # None = no delegate ('' is the builders' placeholder for fill())
    elif kind == 'register_global_constant':
        kw.update(value=j['value'])
    elif kind == 'transfer_ticket':
        kw.update(ticket_contents=j['ticket_contents'], ticket_ty=j['ticket_ty'], ticket_ticketer=j['ticket_ticketer'], ticket_amount=R.nat(f[3]),
                  destination=j['destination'], entrypoint=j['entrypoint'])
    elif kind == 'smart_rollup_add_messages':
        kw.update(message=[bytes(m) for m in f[0]])
    elif kind == 'smart_rollup_execute_outbox_message':
        kw.update(rollup=j['rollup'], cemented_commitment=j['cemented_commitment'], output_proof=bytes(f[2]))
    elif kind == 'failing_noop':
        kw.update(arbitrary=j['arbitrary'])
    elif kind == 'activate_account':
        kw.update(activation_code=j['secret'], pkh=j['pkh'])
    return kind, kw


_CODE = []


def share_code(contents):
    """every origination is forged from the same code list object, edited in place for each script (a code template):
    the bytes must follow the content of the list, not its identity"""
    for c in contents:
        if isinstance(c.get('script'), dict) and isinstance(c['script'].get('code'), list):
            _CODE[:] = c['script']['code']
            c['script'] = dict(c['script'], code=_CODE)
    return contents


def impl_forge(g, variant):
    """Forge the model group through one of pytezos' public entry points; returns bytes or ('raised', class, text)."""
    from pytezos.operation.forge import forge_operation_group
    from pytezos.operation.group import OperationGroup
    try:
        if variant in ('json', 'json-explicit'):
            j = R.group_json(g, explicit_default=variant == 'json-explicit')
            if len(j['contents']) == 1:
                share_code(j['contents'])
            return forge_operation_group(j)
        if variant == 'group':
            j = R.group_json(g)
            if len(j['contents']) == 1:
                share_code(j['contents'])
            return bytes.fromhex(OperationGroup(context=_execution_context(), contents=j['contents'], branch=j['branch']).forge())
        if variant == 'builder':
            og = OperationGroup(context=_execution_context(), branch=R.b58check('B', g[0]))
            for c in g[1]:
                name, kw = _builder_kwargs(c)
                og = getattr(og, name)(**kw)
            return bytes.fromhex(og.forge())
        raise KeyError(variant)
    except Exception as e:   # noqa
        return ('raised', type(e).__name__, str(e)[:120])


def impl_forge_content(g, c, variant):
    """The bytes pytezos gives for one content through the same entry point (single-content group minus the branch;
    forge_operation for the JSON variants)."""
    if variant in ('json', 'json-explicit'):
        from pytezos.operation.forge import forge_operation
        try:
            return forge_operation(R.content_json(c, variant == 'json-explicit'))
        except Exception as e:   # noqa
            return ('raised', type(e).__name__, str(e)[:120])
    got = impl_forge((g[0], (c,)), variant)
    return got[32:] if isinstance(got, bytes) else got


# ---------------------------------------------------------------------------- comparison
def _flat(part):
    return b''.join(bytes(x) for x in part)


def model_bytes(g, parts):
    return bytes(g[0]) + b''.join(_flat(p) for p in parts)


def classify_content(c, part, got):
    """Stable class of a wrong content encoding: kind + first field whose bytes differ (+ refinement)."""
    kind = c[0]
    if isinstance(got, tuple):
        return 'C06:forge:%s:raises-%s' % (kind, got[1])
    want = _flat(part)
    names = ['tag'] + R.FIELDS[kind]
    pos = 0
    for name, fb in zip(names, part):
        fb = bytes(fb)
        if got[pos:pos + len(fb)] != fb:
            if name == 'parameters':
                if fb[:1] == b'\xff' and fb[1] in R.RESERVED_6_9:
                    ep = R.RESERVED_6_9[fb[1]]
                    named = want[:pos] + b'\xff\xff' + bytes([len(ep)]) + ep.encode() + fb[2:] + want[pos + len(fb):]
                    if got == named:
                        return 'C06:entrypoint-reserved-tag:%s' % ep
                if got[pos:pos + 1] != fb[:1]:
                    return 'C06:forge:transaction:parameters:%s' % ('omitted' if fb[:1] == b'\xff' else 'not-omitted')
                eplen = 1 if fb[1] != 255 else 2 + fb[2]
                if got[pos + 1:pos + 1 + eplen] != fb[1:1 + eplen]:
                    return 'C06:forge:transaction:parameters:entrypoint-%s' % ('reserved' if fb[1] != 255 else 'named')
                return 'C06:forge:transaction:parameters:value'
            return 'C06:forge:%s:field-%s' % (kind, name)
        pos += len(fb)
    return 'C06:forge:%s:trailing-bytes' % kind


VARIANTS = ('json', 'json-explicit', 'group', 'builder')


def check_group(ctx, g, parts, variants=VARIANTS):
    want = model_bytes(g, parts)
    ok = True
    has_default = any(c[0] == 'transaction' and c[8][0] == 'none' for c in g[1])
    if len(_SAMPLES) < 12 and any(c[0] in ('origination', 'register_global_constant', 'transfer_ticket') or (c[0] == 'transaction' and c[8][0] == 'some') for c in g[1]):
        _SAMPLES.append((g, want))
    for variant in variants:
        if variant == 'json-explicit' and not has_default:
            continue
        got = impl_forge(g, variant)
        ctx.evaluations += 1
        if got == want:
            continue
        ok = False
        case = {'g': to_json(g), 'parts': to_json(parts), 'variant': variant}
        found = False
        for c, part in zip(g[1], parts):
            gc = impl_forge_content(g, c, variant)
            if gc == _flat(part):
                continue
            found = True
            sig = classify_content(c, part, gc)
            if variant != 'json' and impl_forge_content(g, c, 'json') == _flat(part):
                sig += ':only-via-' + variant       # the plain JSON path is right, this entry point is not
            ctx.mismatch(sig, 'via %s, content %s\n pytezos: %s\n model:   %s (fields %s)' % (
                variant, json.dumps(R.content_json(c, variant == 'json-explicit')), gc.hex() if isinstance(gc, bytes) else gc, _flat(part).hex(),
                ' '.join(bytes(x).hex() for x in part)), case)
        if not found:
            cls = 'raises-' + got[1] if isinstance(got, tuple) else ('branch' if got[:32] != want[:32] else 'contents')
            ctx.mismatch('C06:forge-group:%s:%s' % (variant, cls), 'group %s\n pytezos: %s\n model:   %s' % (
                json.dumps(R.group_json(g)), got.hex() if isinstance(got, bytes) else got, want.hex()), case)
    return ok


_SAMPLES = []


def concurrent_forgers(ctx):
    """Forging is a function of the group: eight threads forging different groups (with Micheline payloads) at the same time get the bytes one thread gets."""
    import sys, threading
    if len(_SAMPLES) < 4:
        return
    bad = []

    def work(k):
        g, want = _SAMPLES[k % len(_SAMPLES)]
        for _ in range(400):
            got = impl_forge(g, 'json')
            if got != want:
                bad.append((k, got))
                return
    old = sys.getswitchinterval()
    sys.setswitchinterval(1e-5)
    try:
        ts = [threading.Thread(target=work, args=(k,)) for k in range(8)]
        for t in ts:
            t.start()
        for t in ts:
            t.join()
    finally:
        sys.setswitchinterval(old)
    ctx.count(('threads', 8), nontrivial=True)
    ctx.replayed += 8 * 400
    if bad:
        k, got = bad[0]
        g, want = _SAMPLES[k % len(_SAMPLES)]
        ctx.mismatch('C06:concurrent:forge-differs', 'with 8 threads forging at the same time, group %s was forged as %s; alone it is %s (%d thread(s) saw a difference)' % (
            json.dumps(R.group_json(g))[:300], got.hex()[:200] if isinstance(got, bytes) else got, want.hex()[:200], len(bad)), {'threads': True})


def vectors(ctx):
    vecs = {}
    for f in sorted(glob.glob(os.path.join(VECTOR_DIR, '*.json'))):
        d = json.load(open(f))
        try:
            vecs[R.group_model(d)] = d
        except NotImplementedError as e:
            ctx.skip('recorded operation outside the modelled subset: %s' % e)
    if not vecs:
        raise MachineryError('no recorded operations found under %s' % VECTOR_DIR)
    return vecs


def check_vector(ctx, d, g, parts):
    """Leg C: the model's bytes of a recorded mainnet operation, with the recorded signature, must hash to the recorded
    operation hash (validates the transcription against chain data); pytezos must give the same bytes."""
    from pytezos.operation.forge import forge_operation_group
    mb = model_bytes(g, parts)
    h = R.operation_hash(mb, d['signature'])
    if h != d['hash']:
        # the model disagrees with the chain: the transcription is wrong -> machinery, not a verdict on pytezos
        raise MachineryError('OpForge does not reproduce recorded operation %s (model hash %s)' % (d['hash'], h))
    ctx.traces += 1
    got = forge_operation_group({'branch': d['branch'], 'contents': d['contents']})
    ctx.evaluations += 1
    if got != mb:
        ctx.mismatch('C06:forge-vector:%s' % d['contents'][0]['kind'], 'recorded operation %s\n pytezos: %s\n model:   %s' % (d['hash'], got.hex(), mb.hex()),
                     {'vector': d['hash']})


def run_families(ctx, families, vecs, seen, name, **kw):
    gen = {'OpForgeVec': VEC_MODULE % ',\n  '.join(to_tla(g) for g in vecs)}
    r = ctx.tlc('OpForgeVec', cfg(families, **kw), name=name, gen=gen, timeout=1500)
    ctx.require_no_violation(r, name)
    ctx.require_coverage(r, ACTIONS)
    outs = [v for v in r.printed if v[0] == 'OUT']
    if not outs or len(outs) != r.coverage.get('Init', (0, 0))[0]:
        raise MachineryError('%s exported %d groups for %s initial states' % (name, len(outs), r.coverage.get('Init')))
    nvec = 0
    for _, g, parts in outs:
        ctx.count(g, nontrivial=True)
        # injectivity of the reference encoding over everything enumerated in this run
        b = model_bytes(g, parts)
        if seen.setdefault(b, g) != g:
            ctx.mismatch('spec:OpForge:not-injective', 'two groups share the encoding %s' % b.hex(), {'leg': 'A', 'g': to_json(g)})
        if g in vecs:
            check_vector(ctx, vecs[g], g, parts)
            nvec += 1
            continue
        ok = check_group(ctx, g, parts)
        ctx.again(check_group, ctx, g, parts)
        ctx.replayed += 1
        if ok and (len(g[1]) > 1 or g[1][0][0] in ('transfer_ticket', 'reveal')):
            ctx.sample({'group': R.group_json(g), 'forged': b.hex()}, limit=4)
    if 'vec' in families and nvec != len(vecs):
        raise MachineryError('%d of %d recorded operations exported' % (nvec, len(vecs)))
    return len(outs)


def run(ctx):
    ctx.rule = ('operation groups drawn from field pools, per family: hdr = every manager header (4 source curves x fee/counter/gas/storage over the integer pool), '
                'tx = transactions (amount x 6 destination kinds x {absent, 12 entrypoints x 3 values}), misc = every other kind and option, '
                'mix = all sequences of 2..n manager operations over a 14-element pool, vec = the recorded mainnet operations. '
                'Leg A: TLC encodes field by field, checks the bytes equal the declarative F(g), decodes them with the read-pointer automaton and checks Unf(F(g)) = g; '
                'Leg B: every group is forged by pytezos through forge_operation_group (absent parameters also spelled {default, Unit}), OperationGroup.forge and the content builders, '
                'and must equal the model bytes; Leg C: model bytes of the recorded operations must hash to the recorded operation hash. Every group counts as non-trivial.')
    ctx.assumptions = [
        'Micheline expressions are opaque byte strings in the model; the harness maps 8 fixed expressions to bytes with its own minimal encoder (Micheline format is C05)',
        'failing_noop.arbitrary is taken as text (the documented pytezos input: "Message to sign") and its ASCII bytes are the payload; the hex JSON spelling of the RPC is not compared',
        'reveal follows the current format with the optional proof field (presence byte always written); proof present only with a tz4 key',
        'base58check rendering of hashes uses the Tezos prefix table in harness/vf/c06_ref.py (self-checked on the textual prefix)',
        'transfer_ticket amounts are non-zero; named entrypoints have 1..31 characters; groups of several contents hold manager operations only',
    ]
    seen = {}
    vecs = vectors(ctx)
    if ctx.quick:
        run_families(ctx, ['vec', 'hdr', 'tx', 'misc', 'mix'], vecs, seen, 'OpForge_quick', hdr=(1, 3, 7, 9), amt=(1, 5, 7, 8), ntx=1, maxlen=2)
    else:
        run_families(ctx, ['vec', 'misc'], vecs, seen, 'OpForge_misc')
        run_families(ctx, ['hdr'], vecs, seen, 'OpForge_hdr', hdr=(1, 2, 3, 4, 5, 6, 7, 8, 9))
        run_families(ctx, ['tx'], vecs, seen, 'OpForge_tx', ntx=4)
        run_families(ctx, ['mix'], vecs, seen, 'OpForge_mix', maxlen=3)
    ctx.second_pass()
    ctx.exhaustive = True
    concurrent_forgers(ctx)


def replay(ctx, rep):
    c = rep['case']
    if 'vector' in c:
        vecs = vectors(ctx)
        run_families(ctx, ['vec'], vecs, {}, 'OpForge_vec')
    elif c.get('threads'):
        run(ctx)
        ctx.mismatches = [m for m in ctx.mismatches if m.signature == rep.get('signature')]
    elif c.get('leg') == 'A':
        print('Leg A finding (specification): re-run ./check C06 %s' % rep.get('tier', 'quick'))
        return 1
    else:
        check_group(ctx, R.tup(c['g']), R.tup(c['parts']), variants=(c['variant'],))
    for m in ctx.mismatches:
        print('REPRODUCED', m.signature, m.detail)
    return 1 if ctx.mismatches else 0


META = {
    'category': 'model_checking',
    'text': ('OpForge.tla transcribes the Tezos operation binary schema (tags, manager header, per-kind field lists, Zarith naturals, options, dynamic '
             'strings, contract/destination ids, reserved entrypoint tags 0-9 and the named form) with an encoder and an independent read-pointer decoder. '
             'TLC enumerates operation groups from field pools, builds the bytes field by field, checks they equal the declarative encoding and that '
             'decoding returns the group (hence injectivity). Every enumerated group is forged by pytezos through forge_operation_group, '
             'OperationGroup.forge and the content builders and must give exactly the model bytes; the recorded mainnet operations of the repository '
             'validate the transcription (model bytes + signature hash to the recorded operation hash).'),
    'design_ref': 'DESIGN.md section 5 C06, A.10',
    'note': ('Trusted: base58check/prefix table and group->JSON concretisation (harness/vf/c06_ref.py), 8 fixed Micheline encodings, blake2b from hashlib. '
             'Bounds: integer pool {0,127,128,2^14,2^63,2^64,2^64+1,2^70,2^100+1} (quick: 4 of them per field); 1..2 contents (3 thorough); 4 source curves, 6 destination kinds, '
             '10 reserved + 2 named entrypoints x 3 values; 0..2 rollup messages; quick ~1.5k groups, thorough ~19k groups. failing_noop payload compared as text.'),
    'technique': 'TLA+ spec + TLC exhaustive model checking; spec-case replay into forge_operation_group / OperationGroup.forge; recorded mainnet operations checked against the spec',
}
