"""C08 - key import, export and address derivation are consistent.  Spec: KeyFlow.tla (flows "export", "mnemonic")."""
import random

from .. import cryptoref as cr, keyflow as kf
from ..tlc import MachineryError
from ..tlaparse import to_json

INVS = ['RoundTrip', 'EncodedForm', 'AddressStable', 'AcceptExactly', 'Deterministic', 'EmitDone']
_memo = {}


def passphrases(seed, k):
    """PassIds 1, 2 -> two different passphrases (str or bytes, ASCII or not, near or far from each other)."""
    rng = random.Random(cr.h('c08-pass', seed, k))
    base = ''.join(rng.choice('abcdefghijklmnopqrstuvwxyzABCDEFGHIJKLMNOPQRSTUVWXYZ0123456789 !#-_') for _ in range(rng.choice([1, 4, 8, 16, 40])))
    v = k % 4
    if v == 1:
        base = 'päss-ключ-' + base
    p1 = base
    p2 = base + 'x' if k % 2 else ''.join(reversed(base)) + '2'
    if v == 2:
        return {1: p1.encode(), 2: p2.encode()}
    return {1: p1, 2: p2}


def secret_tag(seed, k):
    return ('edge', -k - 1) if k < 0 else ('c08', seed, k)


def replay_export(ctx, sc, k):
    """Scenario <<"OUT","export",curve,opt,ipass,sk prefix,result,pkh prefix>> on seeded case k (k = -1, -2: smallest / largest valid secret)."""
    from pytezos.crypto.key import Key
    _, _, curve, opt, ipass, skprefix, result, pkhprefix = sc
    case = {'scenario': to_json(sc), 'k': k}
    cname = cr.NAME[curve]
    secret = cr.secret_from(curve, secret_tag(ctx.seed, k))
    pub = cr.public_key(curve, secret)
    pp = passphrases(ctx.seed, k)
    desc = 'curve=%s export=%s import-passphrase=%s secret=%s' % (cname, to_json(opt), ipass, secret.hex())
    ok = True

    def bad(sig, txt):
        nonlocal ok
        ok = False
        ctx.mismatch(sig, txt + '\n' + desc, case)

    o = kf.outcome(kf.key_from_secret, curve, secret)
    if o[0] == 'raise':
        bad('C08:from_secret_exponent:%s:raises' % cname, 'Key.from_secret_exponent raised %s: %s' % o[1:])
        return False
    key = o[1]
    # Pk(sk): the derived public key matches the independent implementation
    want_pk, want_pkh = cr.pk_b58(curve, pub), cr.pkh_b58(curve, pub)
    if key.public_key() != want_pk:
        bad('C08:public-key:%s:differs' % cname, 'public_key() = %s, reference %s' % (key.public_key(), want_pk))
        return False
    # Pkh(pk) = Base58(tzN, blake2b-160(pk)); HASH_KEY is the same function
    got = kf.outcome(key.public_key_hash)
    if got != ('ret', want_pkh):
        bad('C08:public-key-hash:%s:differs' % cname, 'public_key_hash() = %s, reference %s' % (got[1:], want_pkh))
    hk = kf.hash_key(want_pk)
    if hk != want_pkh:
        bad('C08:HASH_KEY:%s:differs' % cname, 'HASH_KEY(%s) = %s, reference %s' % (want_pk, hk, want_pkh))

    # ---- Export(o) ----
    if opt[0] == 'plain':
        o = kf.outcome(key.secret_key)
    elif opt[0] == 'plain64':
        o = kf.outcome(key.secret_key, ed25519_seed=False)
    else:
        o = kf.outcome(key.secret_key, passphrase=pp[opt[1]])
        desc += ' passphrase=%r' % (pp[opt[1]],)
    oname = opt[0]
    if o[0] == 'raise':
        bad('C08:export:%s:%s:raises' % (cname, oname), 'secret_key() raised %s: %s' % o[1:])
        return False
    exported = o[1]
    desc += ' exported=%s' % exported
    kind = 'edsk64' if opt[0] == 'plain64' else skprefix
    payload = kf.outcome(cr.sk_decode, kind, exported)
    if not isinstance(exported, str) or not exported.startswith(skprefix) or payload[0] == 'raise':
        bad('C08:export:%s:%s:encoding' % (cname, oname), 'exported key is not a Base58Check %s of %d bytes (%s)' % (skprefix, cr.SK_KINDS[kind][1], payload[1:]))
        return False
    want_payload = {'plain': secret, 'plain64': secret + pub}.get(opt[0])
    if want_payload is not None and payload[1] != want_payload:
        bad('C08:export:%s:%s:payload' % (cname, oname), 'exported payload %s, expected %s' % (payload[1].hex(), want_payload.hex()))

    # ---- Import(p) ----
    pw = pp[ipass] if ipass else None
    # a passphrase given explicitly is the passphrase used, whatever the documented fallback variable holds (set on every third case)
    import os
    env_set = pw is not None and k % 3 == 1
    if env_set:
        os.environ['PYTEZOS_PASSPHRASE'] = 'fallback-of-another-key'
        desc += ' (PYTEZOS_PASSPHRASE set to another value during the import)'
    try:
        o = kf.outcome(Key.from_encoded_key, exported, passphrase=pw) if pw is not None else kf.outcome(Key.from_encoded_key, exported)
    finally:
        if env_set:
            del os.environ['PYTEZOS_PASSPHRASE']
    if o[0] == 'raise':
        got = 'fail'
    else:
        got = 'same' if kf.key_state(o[1]) == kf.key_state(key) else 'different'
    if opt[0] == 'encrypted' and ipass == opt[1]:
        # Import is a function of (encoded key, passphrase): attempts with another passphrase before and after change nothing
        other = pp[3 - ipass]
        hist = []
        for attempt in (other, pw, other, pw):
            oo = kf.outcome(Key.from_encoded_key, exported, passphrase=attempt)
            hist.append('fail' if oo[0] == 'raise' else 'same' if kf.key_state(oo[1]) == kf.key_state(key) else 'different')
        if hist != ['fail', 'same', 'fail', 'same']:
            bad('C08:import:%s:%s:depends-on-earlier-attempts' % (cname, oname),
                'imports of the same encrypted key with passphrases (other, right, other, right) gave %s; the model: fail, same, fail, same' % hist)
    pclass = 'no-passphrase' if not ipass else 'right-passphrase' if opt[0] != 'encrypted' or ipass == opt[1] else 'wrong-passphrase'
    if got != result:
        bad('C08:import:%s:%s:%s:model-%s-got-%s' % (cname, oname, pclass, result, got),
            'Key.from_encoded_key(export, passphrase=%r): model %s, pytezos %s (%s)' % (pw, result, got, o[1:] if o[0] == 'raise' else ''))
    elif got == 'same':
        # ---- Address ---- of the imported key
        imp = o[1]
        g = (kf.outcome(imp.public_key), kf.outcome(imp.public_key_hash))
        if g != (('ret', want_pk), ('ret', want_pkh)) or not want_pkh.startswith(pkhprefix):
            bad('C08:import:%s:%s:address-differs' % (cname, oname), 'imported key has pk/pkh %s, reference %s %s' % (g, want_pk, want_pkh))
    # import of the reference encoding of the same secret (what another Tezos tool would export)
    if opt[0] != 'encrypted' and not ipass:
        o = kf.outcome(Key.from_encoded_key, cr.sk_b58(kind, want_payload))
        if o[0] == 'raise' or kf.key_state(o[1]) != kf.key_state(key):
            bad('C08:import:%s:%s:reference-encoding' % (cname, oname), 'Key.from_encoded_key(%s) -> %s' % (
                cr.sk_b58(kind, want_payload), o[1:] if o[0] == 'raise' else o[1].public_key()))
        # a public key imports to a key with the same address
        o = kf.outcome(lambda: Key.from_encoded_key(want_pk).public_key_hash())
        if o != ('ret', want_pkh):
            bad('C08:import:%s:public-key:address-differs' % cname, 'Key.from_encoded_key(%s).public_key_hash() -> %s, reference %s' % (want_pk, o[1:], want_pkh))
    if ok and k == 0 and ipass != 2:
        ctx.sample({'curve': cname, 'export': to_json(opt), 'exported': exported, 'import_passphrase': ipass, 'result': got, 'pk': want_pk, 'pkh': want_pkh}, limit=6)
    return ok


UNKNOWN = ['zzzz', 'Abandon', 'abandonn', 'tezos', 'zoo1', 'école']


def words_for(seed, n, known, ck, k, lang='english'):
    """Concretise <<"mn", n, all words known?, checksum ok?>>; flags are re-established with the reference BIP-39 check."""
    rng = random.Random(cr.h('c08-mn', seed, n, known, ck, k))
    wl = cr.wordlist(lang)
    if n in (12, 15, 18, 21, 24):
        words = cr.mnemonic_from_entropy(rng.randbytes(n * 4 // 3), lang)
        if not ck:
            for attempt in range(200):
                w2 = list(words)
                v = (k + attempt) % 3 if attempt < 3 else 0
                if v == 0:                       # one word replaced by another list word
                    w2[rng.randrange(n)] = rng.choice(wl)
                elif v == 1:                     # last word -> next list word (only checksum / low entropy bits change)
                    w2[-1] = wl[(wl.index(w2[-1]) + 1) % 2048]
                else:                            # two words transposed
                    i, j = rng.sample(range(n), 2)
                    w2[i], w2[j] = w2[j], w2[i]
                if not cr.mnemonic_valid(w2, lang):
                    words = w2
                    break
            else:
                raise MachineryError('could not build a mnemonic with a wrong checksum')
        if cr.mnemonic_valid(words, lang) != bool(ck):
            raise MachineryError('mnemonic concretisation does not have the checksum flag of the scenario')
    else:
        words = [rng.choice(wl) for _ in range(n)]
    if not known:
        import unicodedata
        nwl = {unicodedata.normalize('NFKD', w) for w in wl}
        cands = [u for u in UNKNOWN if unicodedata.normalize('NFKD', u) not in nwl]      # unknown in this language under any spelling of its letters
        u = cands[rng.randrange(len(cands))]
        assert u not in wl
        words = list(words)
        words[rng.randrange(n)] = u
    return words


def replay_mnemonic(ctx, sc, k):
    from pytezos.crypto.key import Key
    _, _, n, known, ck, inform, accepted = sc
    case = {'scenario': to_json(sc), 'k': k}
    # the language of the word list is a parameter of the API: every list shipped with the `mnemonic` package takes its turn (English on k = 0)
    langs = cr.languages()
    lang = 'english' if k == 0 else langs[(k + n + 3 * bool(known) + 5 * bool(ck)) % len(langs)]
    words = words_for(ctx.seed, n, known, ck, k, lang)
    sep = '\u3000' if lang == 'japanese' and k % 2 else ' '       # Japanese phrases are customarily written with ideographic spaces
    arg = sep.join(words) if inform == 'str' else list(words)
    kw = {} if lang == 'english' else {'language': lang}
    case['language'] = lang
    o = kf.outcome(Key.from_mnemonic, arg, **kw) if k % 2 else kf.outcome(Key.from_mnemonic, arg, passphrase='pw', email='a@b.c', validate=True, **kw)
    got = 'yes' if o[0] == 'ret' else 'no'
    ctx.extra.setdefault('mnemonic_languages', {})
    ctx.extra['mnemonic_languages'][lang] = ctx.extra['mnemonic_languages'].get(lang, 0) + 1
    if got == accepted:
        if k == 0 and inform == 'str' and (n in (12, 24) or accepted == 'yes'):
            ctx.sample({'mnemonic': ' '.join(words), 'accepted': got}, limit=6)
        return True
    cls = ('length-%d' % n) if n not in (12, 15, 18, 21, 24) else 'unknown-word' if not known else 'bad-checksum' if not ck else 'valid'
    ctx.mismatch('C08:mnemonic:%s:%s%s' % (cls, 'accepted' if got == 'yes' else 'rejected', '' if lang == 'english' else ':' + lang),
                 'Key.from_mnemonic(%r, language=%s): model accepted=%s, pytezos %s %s' % (arg, lang, accepted, got, o[1:] if o[0] == 'raise' else ''), case)
    return False


def replay_derive(ctx, sc, k):
    """<<"OUT","derive", n, input form, curve, <<e1,p1,e2,p2>>, same?>>: two derivations from one valid mnemonic."""
    from pytezos.crypto.key import Key
    _, _, n, inform, curve, din, same = sc
    case = {'scenario': to_json(sc), 'k': k}
    cname = cr.NAME[curve]
    rng = random.Random(cr.h('c08-dv', ctx.seed, n, k))
    words = cr.mnemonic_from_entropy(rng.randbytes(n * 4 // 3))
    tok = ''.join(rng.choice('abcdefghijklmnopqrstuvwxyz0123456789@.') for _ in range(rng.randint(1, 12)))
    e1, p1, e2, p2 = [tok * len(x) for x in din]
    arg = ' '.join(words) if inform == 'str' else list(words)
    desc = 'mnemonic=%r curve=%s (email, passphrase) = (%r, %r) and (%r, %r)' % (' '.join(words), cname, e1, p1, e2, p2)

    def derive(e, p, fresh):
        mk = (tuple(words), inform, curve, e, p)
        if fresh or mk not in _memo:
            o = kf.outcome(Key.from_mnemonic, arg, passphrase=p, email=e, curve=cr.PY_CURVE[curve])
            if fresh:
                return o
            _memo[mk] = o
        return _memo[mk]
    equal_inputs = (e1, p1) == (e2, p2)
    o1 = derive(e1, p1, False)
    o2 = derive(e2, p2, equal_inputs)       # the second derivation from the same inputs is always a fresh call
    for o in (o1, o2):
        if o[0] == 'raise':
            ctx.mismatch('C08:derive:%s:valid-mnemonic-raises-%s' % (cname, o[1]),
                         'the model derives a key of every curve from an accepted mnemonic; Key.from_mnemonic raised %s: %s\n%s' % (o[1], o[2], desc), case)
            return False, False
    k1, k2 = o1[1], o2[1]
    # the derived key is a key of its curve: its public key is the reference public key of its secret
    for kk in (k1, k2):
        sec = bytes(kk.secret_exponent)[:32]
        if bytes(kk.public_point) != cr.public_key(curve, sec):
            ctx.mismatch('C08:derive:%s:public-key-differs' % cname, 'derived key: public point %s, reference %s\n%s' % (
                bytes(kk.public_point).hex(), cr.public_key(curve, sec).hex(), desc), case)
            return False, True
    # the seed is BIP-39: PBKDF2-HMAC-SHA512(mnemonic, "mnemonic" + email + passphrase, 2048), its first 32 bytes are the secret
    # (e-mail first: a fundraiser wallet is (mnemonic, e-mail, password)); computed with hashlib for an e-mail and a passphrase that differ
    if curve != 'bl':
        import hashlib, unicodedata
        em, pw = tok + '@x.org', 'pw-' + tok[::-1]
        o3 = kf.outcome(Key.from_mnemonic, arg, passphrase=pw, email=em, curve=cr.PY_CURVE[curve])
        seed = hashlib.pbkdf2_hmac('sha512', unicodedata.normalize('NFKD', ' '.join(words)).encode(), ('mnemonic' + em + pw).encode(), 2048)
        ctx.count(('derive-bip39', curve, n, k), nontrivial=True)
        if o3[0] == 'raise' or bytes(o3[1].secret_exponent)[:32] != seed[:32]:
            ctx.mismatch('C08:derive:%s:not-the-bip39-seed' % cname, 'Key.from_mnemonic(.., passphrase=%r, email=%r): secret %s, BIP-39 (e-mail before passphrase) gives %s\n%s' % (
                pw, em, o3[1:] if o3[0] == 'raise' else bytes(o3[1].secret_exponent)[:32].hex(), seed[:32].hex(), desc), case)
            return False, True
    eq = kf.key_state(k1) == kf.key_state(k2)
    if equal_inputs:
        if not eq:
            ctx.mismatch('C08:derive:%s:not-deterministic' % cname, 'two derivations from the same inputs differ\n' + desc, case)
            return False, True
        if curve == 'ed':
            data = {'mnemonic': list(words), 'password': p1, 'email': e1, 'activation_code': 'deadbeef', 'pkh': cr.pkh_b58('ed', bytes(k1.public_point))}
            o = kf.outcome(Key.from_faucet, data)
            if o[0] == 'raise' or kf.key_state(o[1]) != kf.key_state(k1):
                ctx.mismatch('C08:derive:from_faucet-differs', 'Key.from_faucet(%r) -> %s\n%s' % (data, o[1:] if o[0] == 'raise' else o[1].public_key(), desc), case)
                return False, True
    elif e1 + p1 != e2 + p2:
        if same:
            raise MachineryError('model/harness disagree on the concatenation')
        if eq:
            ctx.mismatch('C08:derive:%s:distinct-inputs-same-key' % cname, 'different email+passphrase gave the same key\n' + desc, case)
            return False, True
    else:
        ctx.skip('derive: same email+passphrase concatenation split differently (model: same key; outside the property statement, not compared)')
    return True, True


def n_cases(ctx, flow, curve=None):
    if flow == 'export':
        ks = [-1, -2] + list(range(3 if ctx.quick else 200))
        return ks if curve != 'bl' else ks[:4 if ctx.quick else 42]
    if flow == 'mnemonic':
        return range(4 if ctx.quick else 200)
    return range(1 if ctx.quick else (6 if curve == 'bl' else 20))


def prompt_path(ctx):
    """The third source of the passphrase (after the argument and the environment variable) is the prompt.  Where there is no terminal the prompt reads a line
    from standard input; the passphrase is that line without its newline - leading and trailing blanks belong to it."""
    import os, subprocess, sys
    from pytezos.crypto.key import Key
    child = ('import sys\nfrom pytezos.crypto.key import Key\nk = Key.from_encoded_key(sys.argv[1])\nprint("PKH", k.public_key_hash())\n')
    for k, pw in enumerate((' leading blank', 'trailing blank ', 'plain', '\tboth  ')):
        secret = cr.secret_from('ed', ('c08-prompt', ctx.seed, k))
        key = kf.key_from_secret('ed', secret)
        esk = key.secret_key(passphrase=pw)
        env = {a: b for a, b in os.environ.items() if a != 'PYTEZOS_PASSPHRASE'}
        r = subprocess.run([sys.executable, '-c', child, esk], input=pw + '\n', capture_output=True, text=True, env=env, timeout=120)
        ctx.count(('prompt', k), nontrivial=True)
        ctx.replayed += 1
        want = 'PKH ' + cr.pkh_b58('ed', cr.public_key('ed', secret))
        if want not in r.stdout:
            ctx.mismatch('C08:import:prompt:%s' % ('blank-at-the-ends' if pw != pw.strip() else 'plain'), 'an Ed25519 key exported with the passphrase %r and imported without a passphrase argument in a process whose standard input (no terminal) carries that passphrase: %s' % (
                pw, (r.stderr.strip().splitlines() or [r.stdout.strip() or 'no output'])[-1][:200]), {'scenario': ['prompt', k], 'k': k})


def run(ctx):
    ctx.rule = ('Leg A: KeyFlow flows "export" (curve x export option x import passphrase) and "mnemonic" (8 lengths x known words x checksum x input form, '
                'then curve x two (email, passphrase) pairs); Leg B: every completed scenario x K seeded cases (export: smallest and largest valid secret + 3 / 200 '
                'seeded, BLS 2 / 40; mnemonic 4 / 200; derivations 1 / 20, BLS 6): public key and key hash against the independent implementation, export, import, HASH_KEY, '
                'from_mnemonic acceptance and two derivations; every evaluated case is non-trivial (real keys, encodings and mnemonics are produced and compared)')
    ctx.assumptions = ['symbolic cryptography in the spec; interpreted in replay by `cryptography` (Ed25519 seed -> public key, EC derive_private_key), hashlib Blake2b-160 / sha256 (BIP-39 checksum), own Base58Check with the Tezos prefix bytes',
                       'BLS public keys are recomputed with py_ecc curve arithmetic and an own G1 serialiser (little-endian scalar): not independent of pytezos\' library',
                       'the encrypted form is only round-tripped (no second secretbox implementation in the sandbox); the encrypted import always receives a passphrase (without one pytezos prompts on the terminal)',
                       'only the word lists (all languages shipped) are taken from the `mnemonic` package, as data files; unknown words are picked from a fixed list; validate=True (the default) only; Key.generate is not exercised (it draws OS randomness)',
                       'two derivations with different (email, passphrase) but equal concatenation are not compared',
                       'identical derivation calls with distinct inputs are evaluated once and shared between scenarios; the second of two equal-input derivations is always a fresh call']
    r = ctx.tlc('KeyFlow', kf.cfg(['export', 'mnemonic'], INVS), workers=1, timeout=300)
    ctx.require_no_violation(r, 'KeyFlow(export, mnemonic)')
    ctx.require_coverage(r, ['Gen', 'Export', 'Import', 'Address', 'PickMnemonic', 'CheckLen', 'CheckWords', 'CheckSum', 'Derive'])
    outs = [v for v in r.printed if v[0] == 'OUT']
    by = {}
    for v in outs:
        by.setdefault(v[1], []).append(v)
    if (len(by.get('export', [])), len(by.get('mnemonic', [])), len(by.get('derive', []))) != (31, 64, 1440):
        raise MachineryError('unexpected scenario table: %s' % {k: len(v) for k, v in by.items()})
    for sc in by['export']:
        for k in n_cases(ctx, 'export', sc[2]):
            replay_export(ctx, sc, k)
            ctx.replayed += 1
            ctx.count((sc, k))
    for sc in by['mnemonic']:
        for k in n_cases(ctx, 'mnemonic'):
            replay_mnemonic(ctx, sc, k)
            ctx.replayed += 1
            ctx.count((sc, k))
    for sc in by['derive']:
        for k in n_cases(ctx, 'derive', sc[4]):
            _, reached = replay_derive(ctx, sc, k)
            ctx.replayed += 1
            ctx.count((sc, k), nontrivial=reached)
    ctx.exhaustive = True
    prompt_path(ctx)


def replay(ctx, rep):
    c = rep['case']
    if 'scenario' not in c:
        return 0

    def tup(x):
        return tuple(tup(y) for y in x) if isinstance(x, list) else x
    sc = tup(c['scenario'])
    if sc[0] == 'prompt':
        prompt_path(ctx)
        ok = not ctx.mismatches
    elif sc[1] == 'export':
        ok = replay_export(ctx, sc, c['k'])
    elif sc[1] == 'mnemonic':
        ok = replay_mnemonic(ctx, sc, c['k'])
    else:
        ok, _ = replay_derive(ctx, sc, c['k'])
    for m in ctx.mismatches:
        print('REPRODUCED', m.signature, m.detail)
    return 0 if ok else 1


META = {
    'category': 'model_checking',
    'text': ('KeyFlow.tla models secret keys, their encoded forms <<prefix, encrypted?, body>>, the export / import automaton (an encrypted body opens only with the same '
             'passphrase), the key hash as a constructor over the public key, and mnemonic acceptance as length check, word lookup and an uninterpreted checksum bit. '
             'TLC checks Import(Export(k, o), same passphrase) = k, failure for a wrong passphrase, that acceptance is exactly the conjunction, and that derivation is a function '
             'of (mnemonic, email ++ passphrase), and prints the complete scenario table; every scenario is replayed on seeded real secrets, passphrases and mnemonics with '
             'public keys, key hashes and BIP-39 checksums recomputed independently.'),
    'design_ref': 'DESIGN.md section 5 C08, section 3.4, section 9',
    'note': ('The specification\'s contribution is thin: it is the scenario table (31 export/import rows, 64 mnemonic rows, 1440 derivation rows) and the accept / reject logic; every '
             'cryptographic equality (public key, Blake2b-160 key hash, Base58 form, BIP-39 checksum) is established during replay by a second implementation (harness/vf/cryptoref.py), '
             'not by TLC. Trusted: cryptoref.py, b58.py, `cryptography`/OpenSSL, the Tezos prefix bytes transcribed in cryptoref.SK_KINDS. BLS public keys use py_ecc arithmetic (not independent); '
             'encrypted exports are only round-tripped.'),
    'technique': 'TLA+ spec (symbolic cryptography) + TLC exhaustive model checking; spec-scenario replay into Key.from_secret_exponent / secret_key / from_encoded_key / public_key_hash / from_mnemonic / HASH_KEY with independent recomputation',
}
