"""C01 - the interpreter computes the reference results for well-typed programs.  Specs: MichSem.tla, VM.tla, MichSemTrace.tla."""
import collections, json, os, random

from .. import terms, vmfam, vmreplay, vmtrace
from ..tlaparse import iter_dump, to_json

QUICK_FAMILIES = ['stack', 'dipstack', 'adt', 'optlist', 'control', 'text', 'logic', 'arith', 'env', 'hash', 'collget', 'bigmap', 'bigset', 'dipops', 'parts']
REPO_TESTS = ['tests/unit_tests/test_michelson/test_repl/test_opcodes.py', 'tests/unit_tests/test_michelson/test_repl/test_macros.py',
              'tests/unit_tests/test_michelson/test_repl/test_lambda.py', 'tests/unit_tests/test_michelson/test_repl/test_execution.py']


def contains(x, name):
    if isinstance(x, tuple):
        return (len(x) > 0 and x[0] == name) or any(contains(y, name) for y in x)
    return False


ASPECTS = {'C01': {'status', 'value', 'failwith-value'}, 'C02': {'type'}, 'C14': {'status', 'value', 'failwith-value'},
           'C03': {'status', 'value', 'failwith-value'}}


def replay_state(ctx, prop, famname, st, check=None, annotate=None, instr_annotate=None):
    """Replay one model state (a whole well-typed program and its run) in pytezos. Returns mismatch class or None."""
    init, env, prog = st['init'], st['env'], st['hist']
    env = env if isinstance(env, dict) else {}
    got = vmreplay.run_impl(init, env, prog, annotate=annotate, instr_annotate=instr_annotate)
    res = vmreplay.classify(st['status'], st['stack'], st['failv'], got)
    if res is None:
        return None
    cls, text = res
    if cls == 'type' and 'type' not in ASPECTS.get(prop, {'type'}):
        # C01 is about values: compare them with the types projected away
        m = vmreplay.concretise(st['stack'])
        if tuple(s[1] for s in m) == tuple(s[1] for s in got[1]):
            return 'other-property'
        cls, text = 'value', 'values differ (types too): model %s, pytezos %s' % (to_json(m), to_json(got[1]))
    if cls not in ASPECTS.get(prop, {cls}):
        return 'other-property'        # belongs to another property's check; still shadows the extensions
    last = prog[-1][0]
    sig = '%s:replay:%s:%s' % (prop, last, cls)
    pre = st.get('_pre')
    if last == 'MAP' and cls == 'type' and pre and pre[0][1][0] in ('list', 'map') and len(pre[0][1][1]) == 0:
        sig += ':empty-collection'
    elif last == 'DIP' and cls == 'type' and pre and len(prog[-1][2]) == 1 and prog[-1][2][0][0] == 'MAP' and len(pre) > prog[-1][1] \
            and pre[prog[-1][1]][1][0] in ('list', 'map') and len(pre[prog[-1][1]][1][1]) == 0:
        sig = '%s:replay:MAP:type:empty-collection' % prop       # the same MAP over an empty collection, executed below the top of the stack
    ctx.mismatch(sig, 'family %s program %s on %s: %s' % (famname, json.dumps(to_json(prog)), json.dumps(to_json(init)), text),
                 {'family': famname, 'init': to_json(init), 'env': to_json(env), 'hist': to_json(prog), 'status': st['status'],
                  'stack': to_json(st['stack']), 'failv': to_json(st['failv'])})
    return cls


def state_key(st):
    env = st.get('env')
    return (st['fam'], st['init'], tuple(sorted(env.items())) if isinstance(env, dict) else (), st['hist'])


def run_families(ctx, prop, name, fams, extra_inv='', filt=None, replay_fn=None):
    r = vmreplay.run_tlc(ctx, name, fams, extra=extra_inv)
    ctx.require_no_violation(r, 'VM families ' + name)
    n = 0
    seen_ops = collections.Counter()
    states = [st for st in iter_dump(r.dump)]
    states.sort(key=lambda st: len(st['hist']))
    stacks, bad = {}, set()
    for st in states:
        key = state_key(st)
        stacks[key] = st['stack']
        if not st['hist']:
            continue
        parent = key[:3] + (st['hist'][:-1],)
        seen_ops[st['hist'][-1][0]] += 1      # vacuity is a matter of what the model enabled, whether or not the replay of an extension is shadowed
        if parent in bad:          # only the first divergence of a program is reported; its extensions are shadowed
            bad.add(key)
            ctx.skip('extension of a program that already diverged')
            continue
        if filt and not filt(st):
            continue
        st['_pre'] = stacks.get(parent)
        fname = st['fam']
        cls = (replay_fn or replay_state)(ctx, prop, fname, st)
        if cls is not None:
            bad.add(key)
        if cls == 'other-property':
            cls = None
        ctx.replayed += 1
        n += 1
        ctx.count(key, nontrivial=any(i[0] != 'PUSH' for i in st['hist']))
        if cls is None and len(st['hist']) == fams[fname]['depth'] and n % 997 == 1:
            ctx.sample({'family': fname, 'init': st['init'], 'program': st['hist'], 'status': st['status'], 'stack': st['stack']}, limit=8)
    ctx.extra.setdefault('instructions_executed_last', {}).update(seen_ops)
    missing = [i[0] for fm in fams.values() for i in fm['alphabet'] if seen_ops[i[0]] == 0]
    if missing:
        raise Exception('vacuity: alphabet instructions never enabled: %s' % sorted(set(missing)))
    return r


def run_simulation(ctx, prop, name, fams, num, depth):
    """Leg B beyond the exhaustive bound: long random behaviours of the same state machine (TLC -simulate), replayed state by state."""
    from ..tlaparse import parse_simfile
    r = vmreplay.run_tlc(ctx, name, fams, dump=False, simulate=max(1, num // 16), depth=depth)
    n = 0
    for f in r.simfiles:
        try:
            beh = parse_simfile(f)
        except Exception:
            ctx.skip('unparsable simulation file')
            continue
        for _, st in beh:
            if not st.get('hist'):
                continue
            cls = replay_state(ctx, prop, st['fam'], st)
            ctx.replayed += 1
            ctx.count(state_key(st), nontrivial=True)
            if cls is not None:
                break
        n += 1
    ctx.extra['simulated_behaviours'] = ctx.extra.get('simulated_behaviours', 0) + n
    return n


def leg_c(ctx, prop, tests, want=None, name='hook'):
    path, rc, tail = vmtrace.record_pytest(ctx.wd, tests, name=name)
    if not os.path.exists(path):
        raise Exception('hook produced no trace: ' + tail)
    raw = [json.loads(l) for l in open(path)]
    ev, skipped = vmtrace.project(raw, want=want)
    for k, v in skipped.items():
        ctx.skip('trace: ' + k, v)
    rej = vmtrace.validate(ctx, ev, name='MichSemTrace_' + name)
    byid = {e['id']: e for e in ev}
    for (eid, clause, got) in rej:
        e = byid[eid]
        op = e['instr'][0]
        if clause == 'result' and got[0] == 'ok':
            m = to_json(vmtrace.concretise_hashes(got[1]))
            same_values = [s[1] for s in m] == [s[1] for s in e['after']]
            clause = 'type' if same_values else 'value'
        if (clause in ('type', 'static-type')) != (prop == 'C02'):
            continue
        if clause in ('illtyped', 'before-illtyped') and 'LAMBDA_REC' in json.dumps(e):
            sig = '%s:trace:LAMBDA_REC:body-typed-for-swapped-order' % prop
        else:
            sig = '%s:trace:%s:%s' % (prop, op, clause)
        ctx.mismatch(sig, 'recorded event is not a step of the reference semantics (%s): %s\nmodel: %s' % (clause, json.dumps(e)[:1500], str(to_json(got))[:800]),
                     {'event': e, 'clause': clause})
    ctx.traces += len(ev) - len(rej)
    for e in ev[:2]:
        ctx.sample({'recorded_event': e}, limit=10)
    ctx.extra['trace_events_recorded'] = len(raw)
    ctx.extra['trace_events_checked'] = len(ev)
    return ev


def run(ctx):
    ctx.rule = ('Leg A/B: every well-typed straight-line program up to the family depth over the family alphabet (compound instructions carry bodies), '
                'from every initial stack and environment of the family; each reachable state = one program + its run, replayed through the pytezos '
                'instruction classes and the whole stack (types and values) / failure compared; non-trivial = program has a non-PUSH instruction. '
                'Leg C: every instruction event recorded by the hook while the repository opcode/macro/lambda/scenario tests run is validated by TLC '
                'against MichSem (stack before -> stack after, typing)')
    ctx.assumptions = ['projection/concretisation in harness/vf/terms.py; digests are symbolic in the model and interpreted with hashlib',
                       'integers beyond 2^30, PACK/UNPACK, BLS, big_map pointers, operations, contracts, sapling are outside this check (see C04, C15, C16, C21)',
                       'FAILWITH payloads are compared through the text pytezos prints for the value']
    fams = {}
    for name in QUICK_FAMILIES:
        fams[name] = dict(vmfam.FAMILIES[name])
        if not ctx.quick and name not in ('bigmap', 'bigset', 'dipops'):      # the large-member families keep their depth (alphabets of 40-90 compound steps)
            fams[name]['depth'] += 1
    run_families(ctx, 'C01', 'core', fams)
    ctx.exhaustive = True
    # long random programs over the union alphabet (beyond the exhaustive depth)
    F = vmfam.FAMILIES
    union = {'union': dict(depth=9 if ctx.quick else 12, maxstack=5, fuel=4,
                           inits=F['stack']['inits'] + F['adt']['inits'] + F['optlist']['inits'] + F['logic']['inits'] + F['text']['inits'],
                           alphabet=list(dict.fromkeys(F['stack']['alphabet'] + F['adt']['alphabet'] + F['optlist']['alphabet'] + F['logic']['alphabet'] + F['text']['alphabet']
                                                       + F['dipstack']['alphabet'][:20])))}
    run_simulation(ctx, 'C01', 'sim', union, 160 if ctx.quick else 8000, union['union']['depth'] + 1)
    leg_c(ctx, 'C01', REPO_TESTS)


def replay(ctx, rep):
    c = rep['case']
    from ..tlaparse import parse_value
    def tup(x):
        return tuple(tup(y) for y in x) if isinstance(x, list) else x
    if 'hist' in c:
        st = {'init': tup(c['init']), 'env': {k: tup(v) for k, v in (c['env'] or {}).items()}, 'hist': tup(c['hist']), 'status': c['status'],
              'stack': tup(c['stack']), 'failv': tup(c['failv'])}
        cls = replay_state(ctx, rep['property'], c.get('family', '?'), st)
    else:
        rej = vmtrace.validate(ctx, [c['event']])
        cls = rej[0][1] if rej else None
        if rej:
            ctx.mismatch('trace', str(rej[0]), None)
    for m in ctx.mismatches:
        print('REPRODUCED', m.signature, m.detail[:1000])
    return 1 if cls else 0


META = {
    'category': 'model_checking',
    'text': ('MichSem.tla is a reference semantics of the Michelson core (static typing Ty + big-step Run over typed slots, ~95 instruction forms); VM.tla turns it '
             'into a state machine whose behaviours are exactly the well-typed programs of an instruction family. TLC enumerates every program up to the '
             'depth bound for 15 families (stack, stack under DIP, adt, option/list, control/lambda, text, logic, arithmetic, environment, hashing, map lookups, maps and sets of 9-20 entries, value instructions under DIP n, parts of values captured by closures), checking type preservation '
             'of the reference itself; every reachable state is replayed in pytezos and the full stack or failure compared; and every instruction event the '
             'interpreter executes during the repository\'s own opcode/macro/lambda/scenario tests (recorded by the PYTEZOS_VERIF_TRACE hook) is validated by TLC '
             'against the same semantics.'),
    'design_ref': 'DESIGN.md section 5 C01, A.1, Appendix C',
    'note': ('Trusted: my transcription of the Michelson reference (validated against ~3.5k Octez-backed instruction events of the repository tests), terms.py. '
             'Bounds: depth 2-3 (quick) / 3-4 (thorough), pools of 2-4 initial stacks per family, bodies fixed per compound instruction.'),
    'technique': 'TLA+ reference semantics + TLC exhaustive enumeration of well-typed programs; replay into pytezos; TLC trace validation of hook-recorded executions',
}
