"""C11 - typed values round-trip through readable, optimized and legacy-optimized Micheline.  Spec: MichData.tla (SpecC11)."""
import json

from .. import michdata as md
from .. import terms
from ..fastdump import iter_dump
from ..tlaparse import to_json
from ..tlc import MachineryError
from . import C05
from .C17 import annotate_type

CFG = """SPECIFICATION SpecC11
CONSTANTS Depth = %d
 Wide = %s
 MutSpan = 0
INVARIANT Generated
INVARIANT RoundTrip
INVARIANT CombRule
INVARIANT AltForms
INVARIANT TsRule
INVARIANT CmpAgrees
"""
PLAIN = {'int', 'nat', 'string', 'bytes', 'bool', 'unit', 'mutez'}


RAISE_ZONES = {'year0', 'before-year0', 'year>=10000'}      # no datetime exists there; 'year1-999' has one but no four-digit notation


def cause(t, v, mode, raised=False):
    """input class of a disagreement: in readable mode the zones of the timestamps outside the four-digit years (for an exception: outside the
    years 1..9999) that the value contains, otherwise the type class"""
    z = md.ts_zones(t, v) - {'text'} if mode == 'readable' else set()
    if raised and z & RAISE_ZONES:
        z &= RAISE_ZONES
    return 'timestamp-' + '+'.join(sorted(z)) if z else md.type_class(t)


def key_note(t):
    return ':unit-key' if t[0] in ('set', 'map') and md.has(t[1], 'unit') else ''


def check_case(ctx, t, v, nodes, names):
    """to_micheline_value(mode) = model node; from_micheline_value of it = the value (projection and Python equality)."""
    tj = terms.type_json(t)
    want = md.norm(t, v)
    mj = [md.canon(md.node_json(n, names)) for n in nodes]          # readable, optimized, legacy_optimized, readable as Ptime prints it
    case = {'ty': to_json(t), 'val': to_json(v), 'nodes': to_json(nodes)}
    what = '%s value %s' % (json.dumps(tj), md.short(mj[0]))
    try:
        T = md.mtype(tj)
        x = T.from_micheline_value(mj[0])
        px = md.project(t, x)
    except Exception as e:   # noqa
        ctx.mismatch('C11:from:reference-readable:raises:%s%s:%s' % (md.type_class(t), key_note(t), type(e).__name__),
                     'from_micheline_value of the readable notation raised %r: %s' % (e, what), case)
        return False
    ok = True
    if px != want:
        ctx.mismatch('C11:from:reference-readable:value:' + md.type_class(t), 'value built from the readable notation reads back as %r, model %r: %s' % (px, want, what), case)
        ok = False
    for k, mode in enumerate(md.MODES):
        ctx.count((t, v, mode), nontrivial=t[0] not in PLAIN)
        c = cause(t, v, mode)
        try:
            raw = x.to_micheline_value(mode=mode)
        except Exception as e:   # noqa
            ctx.mismatch('C11:to:%s:raises:%s' % (mode, cause(t, v, mode, True)), 'to_micheline_value(mode=%r) raised %r: %s' % (mode, e, what), case)
            ok = False
            continue
        got = md.canon(raw)
        if got != mj[k] and not (mode == 'readable' and got == mj[3]):
            ctx.mismatch('C11:to:%s:node:%s' % (mode, c), 'to_micheline_value(mode=%r) = %s, Tezos renders %s (type %s)' % (mode, md.short(got), md.short(mj[k]), json.dumps(tj)), case)
            ok = False
        try:
            y = T.from_micheline_value(raw)
            py = md.project(t, y)
        except Exception as e:   # noqa
            ctx.mismatch('C11:roundtrip:%s:parse-raises:%s' % (mode, c),
                         'from_micheline_value(to_micheline_value(mode=%r)) raised %r on %s (type %s)' % (mode, e, md.short(got), json.dumps(tj)), case)
            ok = False
            continue
        if py != want or not (y == x):
            ctx.mismatch('C11:roundtrip:%s:value:%s' % (mode, c),
                         'round trip through mode %r gives %r (== original: %s), expected %r (type %s)' % (mode, py, y == x, want, json.dumps(tj)), case)
            ok = False
    # the same round trip at the type carrying annotations (the rendering itself is compared at the plain type only)
    for scheme in (md.SCHEMES if ok and md.has(t, 'pair') else []):
        atj = annotate_type(tj, scheme)
        for mode in md.MODES:
            ctx.count((t, v, mode, scheme), nontrivial=True)
            try:
                A = md.mtype(atj)
                py = md.project(t, A.from_micheline_value(A.from_micheline_value(mj[0]).to_micheline_value(mode=mode)))
            except Exception as e:   # noqa
                py = ('raised', repr(e))
            if py != want:
                ctx.mismatch('C11:roundtrip:annotated:%s:%s:%s' % (scheme, mode, cause(t, v, mode)),
                             'round trip through mode %r at the annotated type %s gives %r, expected %r' % (mode, json.dumps(atj), py, want), case)
                ok = False
    return ok


def run(ctx):
    # conversions must not depend on the time zone of the process: the whole check runs in a zone that is not UTC
    import os, time
    os.environ['TZ'] = 'JST-9'
    time.tzset()
    md.selfcheck()
    names = C05.prim_names()
    q = ctx.quick
    ctx.rule = ('universe: the 14 leaf types (int nat string bytes bool unit mutez timestamp address key_hash key signature chain_id, lambda unit unit), every one-constructor type over them '
                '(option, list, set, or, pair, map; right combs of 3..6 components, left-nested and mixed pairs) and %s; values from boundary pools (integers to +-2^100, '
                '19 timestamps: 0, +-1, 2020, the last/first second of the years 999/1000 and 9999/10000, years 1, 0, -1, 500, a leap day, +-2^63, +-2^100; key hashes starting 00 / ending 00; '
                'sets and maps sorted by the model order). Leg A (TLC): FromM(ToM(mode)) = value for the three modes, the stepwise comb folding of the reference equals the declarative comb rule, '
                'every comb notation parses, timestamp text exactly inside years 1000..9999, the model order agrees with MichSem. Leg B: for every <type, value> the pytezos value is built from the '
                'readable notation; to_micheline_value(mode) must equal the model node and from_micheline_value of it must give back the value (read through its optimized rendering by an '
                'independent reader, and by Python equality); the round trip is repeated at the type annotated by each of 5 annotation schemes. non-trivial = type other than int/nat/string/bytes/bool/unit/mutez'
                % ('12 two-constructor types' if q else 'about 150 two-constructor types'))
    ctx.assumptions = ['readable timestamps of the years 0000..0999: the int node (property statement) and the zero-padded RFC 3339 text (what the reference prints) are both accepted',
                       '64-byte signatures are written in the generic `sig` notation, 96-byte ones as BLsig (the notation Tezos prints for a signature read from bytes)',
                       'lambdas are limited to the bodies {} and {DROP; UNIT} of type lambda unit unit; contract, ticket, big_map, operation, BLS and sapling types are outside the universe',
                       'addresses with an explicit %default entrypoint are outside the universe',
                       'Base58Check and RFC 3339 notations are produced by harness/vf/b58.py and michdata.rfc3339 (independent of pytezos; the calendar routine is cross-checked against datetime at start)']
    r = ctx.tlc('MichData', CFG % (2 if q else 3, 'FALSE' if q else 'TRUE'), name='MichData_C11', dump=True, timeout=2400, coverage=False, heap='8g')
    ctx.require_no_violation(r, 'MichData')
    pcs, seen_types, zones = {}, set(), set()
    for st in iter_dump(r.dump):
        pcs[st['pc']] = pcs.get(st['pc'], 0) + 1
        if st['pc'] != 'done':
            continue
        t, v, nodes = st['ty'], st['val'], st['nodes']
        if st['backs'] != tuple((True, v) for _ in range(4)):
            raise MachineryError('dump: the model round trip is not the value for %r' % (t,))
        ok = check_case(ctx, t, v, nodes, names)
        ctx.again(check_case, ctx, t, v, nodes, names)
        ctx.replayed += 1
        seen_types.add(md.type_class(t))
        zones |= md.ts_zones(t, v)
        if ok and (t[0] == 'pair' or t[0] == 'timestamp') and ctx.replayed % 7 == 0:
            ctx.sample({'type': terms.type_json(t), 'readable': md.node_json(nodes[0], names), 'optimized': md.node_json(nodes[1], names),
                        'legacy_optimized': md.node_json(nodes[2], names)}, limit=6)
    need = {'comb3', 'comb4', 'comb5', 'comb6', 'pair', 'option', 'or', 'list', 'set', 'map', 'timestamp', 'address', 'key_hash', 'key', 'signature', 'chain_id', 'lambda'}
    if not pcs.get('done') or len({pcs.get(k) for k in ('render', 'rendered', 'done')}) != 1 or not need <= seen_types or zones != {'text', 'year0', 'year1-999', 'before-year0', 'year>=10000'}:
        raise MachineryError('vacuity: states per phase %s, type classes %s, timestamp zones %s' % (pcs, sorted(seen_types), sorted(zones)))
    ctx.second_pass()
    ctx.exhaustive = True


def replay(ctx, rep):
    import os, time
    os.environ['TZ'] = 'JST-9'
    time.tzset()
    c = rep['case']
    if c.get('leg') == 'A':
        run(ctx)
        ok = not ctx.mismatches
    else:
        ok = check_case(ctx, md.tup(c['ty']), md.tup(c['val']), md.tup(c['nodes']), C05.prim_names())
    for m in ctx.mismatches:
        print('REPRODUCED', m.signature, m.detail)
    return 0 if ok else 1


META = {
    'category': 'model_checking',
    'text': ('MichData.tla transcribes how the Tezos protocol writes a typed Michelson value as Micheline in readable, optimized and legacy-optimized mode (including the comb rule of '
             'unparse_pair, written both stepwise as in the reference and declaratively, and the timestamp rule) and how it reads every accepted notation back (parse_data). TLC checks on every '
             '<type, value> of a bounded universe that reading inverts writing in all modes, that the two formulations of the comb rule agree and that all comb notations parse. Every case is '
             'replayed through pytezos: to_micheline_value(mode) must produce the model node, and from_micheline_value of it must give back an equal value.'),
    'design_ref': 'DESIGN.md section 5 C11, A.10',
    'note': ('Trusted: node -> Micheline JSON concretisation (primitive names from the spec table; Base58Check via b58.py; RFC 3339 via an own civil-from-days routine), projection of pytezos values '
             'through terms.pval, limb <-> Python integers. Bounds: types with one constructor over 14 leaves plus 12 (quick) / ~150 (thorough) two-constructor types; combs up to 6; '
             'leaf pools of 2..19 values, narrowed inside compound values. Not compared: years 0..999 accept two renderings; lambdas beyond two trivial bodies; types outside the pool.'),
    'technique': 'TLA+ spec + TLC exhaustive model checking; spec-behaviour replay into MichelsonType.to_micheline_value / from_micheline_value',
}
