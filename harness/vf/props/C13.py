"""C13 - entrypoint resolution and parameter decoding are mutual inverses.  Spec: MichEntry.tla."""
import json

from .. import terms
from ..tlaparse import to_json, to_tla

MC = """---- MODULE MichEntryMC ----
EXTENDS MichEntry
BasesV == %s
====
"""
CFG = """SPECIFICATION Spec
CONSTANTS MaxDepth = %d
 Names = {%s}
 Bases <- BasesV
 Rots = {%s}
INVARIANT NamesUnique
INVARIANT SplitJoin
INVARIANT SplitDeepest
INVARIANT JoinSplit
INVARIANT SplitTyped
INVARIANT Emit
"""
BASES = ('int', 'unit', 'string')


# ---------------------------------------------------------------- model terms -> pytezos
def tup(x):
    return tuple(tup(y) for y in x) if isinstance(x, (list, tuple)) else x


TYPE_ANNOTS = [False]    # family switch: give every node without field annotation a type annotation (these are not entrypoints)


def ann_json(t, path=''):
    """annotated model type -> Micheline type expression with %annots"""
    if t[0] == 'or':
        e = {'prim': 'or', 'args': [ann_json(t[2], path + 'l'), ann_json(t[3], path + 'r')]}
    else:
        e = terms.type_json(LEAF_T[t[2]]) if t[2] in LEAF_T else {'prim': t[2]}
    if t[1]:
        e['annots'] = ['%' + t[1]]
    elif TYPE_ANNOTS[0] == 'bare':
        if path:
            e['annots'] = ['%']       # the empty field annotation: same as none (it names no entrypoint)
    elif TYPE_ANNOTS[0]:
        e['annots'] = [':' + ('b' if path.endswith('l') else 'default' if path else 'a')]
    return e


LEAF_T = {'bigmap': ('big_map', ('int',), ('string',))}


def plain(t):
    """annotated model type -> annotation-free MichSem type"""
    return ('or', plain(t[2]), plain(t[3])) if t[0] == 'or' else LEAF_T.get(t[2], (t[2],))


def annotated(t):
    return bool(t[1]) or (t[0] == 'or' and (annotated(t[2]) or annotated(t[3])))


def michelson(t):
    a = ' %' + t[1] if t[1] else ''
    if t[0] == 'or':
        return '(or%s %s %s)' % (a, michelson(t[2]), michelson(t[3]))
    if t[2] == 'bigmap':
        return '(big_map%s int string)' % a
    return '(%s%s)' % (t[2], a) if a else t[2]


def section(T):
    from pytezos.michelson.sections.parameter import ParameterSection
    return ParameterSection.match({'prim': 'parameter', 'args': [ann_json(T)]})


def exc_class(e):
    """stable class of a raised exception: type + the innermost message with data removed"""
    import re
    msg = str(e.args[-1]) if e.args else ''
    msg = re.sub(r'`[^`]*`', '`..`', msg)
    msg = re.sub(r', got .*$', '', msg)     # the offending datum is not part of the class
    msg = re.sub(r'\(\d+ args\)', '', msg)
    if re.fullmatch(r'[01]+', msg):
        msg = 'PATH'      # KeyError on a binary path of the union
    msg = re.sub(r'[^A-Za-z_. `]+', ' ', msg).strip().replace(' ', '-')[:48]
    return '%s(%s)' % (type(e).__name__, msg)


class TypeCase:
    """Everything the model says about one parameter type, and the pytezos section built from it."""

    def __init__(self, T, tab, joins):
        self.T, self.tab = T, tab
        self.branches = tab[:-1]
        self.root = tab[-1]
        self.names = [e[0] for e in tab]
        self.etype = {e[0]: e[2] for e in tab}
        # model Join: (entrypoint, argument) -> full value, as enumerated by TLC
        self.join = {(j[0], j[1]): j[2] for j in joins}
        self.root_asserted = self.root[0] == 'default' and T[1] in ('', 'default')
        self.cls = None
        self.py_root = None       # the name pytezos lists for the whole parameter
        self.collision = False    # pytezos lists no separate entry for the whole parameter

    def case(self, **kw):
        d = {'type_annots': TYPE_ANNOTS[0], 'T': to_json(self.T), 'michelson': michelson(self.T), 'tab': to_json(self.tab),
             'joins': to_json([[k[0], k[1], v] for k, v in self.join.items()])}
        d.update(kw)
        return d

    def coll_suffix(self):
        if not self.collision:
            return ''
        return ':root-not-default-collision' if self.root_asserted else ':root-name-collision'

    def model_name(self, py_name):
        if py_name == self.py_root and py_name not in [b[0] for b in self.branches]:
            return self.root[0]
        return py_name

    def py_name(self, model_name):
        if model_name == self.root[0] and not self.root_asserted:
            return self.py_root
        return model_name


def check_listing(ctx, tc):
    """list_entrypoints() against the model's table.  Returns False if the type cannot be used further."""
    T = tc.T
    try:
        tc.cls = section(T)
        listed = tc.cls.list_entrypoints()
        listed = {k: terms.ptype(terms.strip_annots(v.as_micheline_expr())) for k, v in listed.items()}
    except Exception as e:   # noqa
        ctx.mismatch('C13:list_entrypoints:raises-' + exc_class(e), 'parameter %s: building the section / listing raised %r' % (michelson(T), e),
                     tc.case(kind='list'))
        return False
    whole = plain(T)
    bnames = [b[0] for b in tc.branches]
    extra = [k for k in listed if k not in bnames]
    ok = True
    for name, path, bt in tc.branches:
        if name not in listed:
            ctx.mismatch('C13:list_entrypoints:missing-branch', 'parameter %s: annotated branch %%%s (path %s) is not listed; listed %s' % (
                michelson(T), name, ''.join(path), sorted(listed)), tc.case(kind='list'))
            ok = False
        elif listed[name] != plain(bt):
            if not extra and listed[name] == whole:
                # Tezos has no name for the root here (default is a branch): the invented one collides.  If Tezos does fix the
                # root's name (default) the clash is a different, more serious class.
                if not tc.root_asserted and name == 'root':
                    # a branch annotated %root while %default is taken too: whether Tezos admits a branch of that (reserved) name is
                    # not certain enough to alarm -> outside the compared domain
                    ctx.skip('branch named %root together with a %default branch (reserved-name corner)')
                    tc.collision = True
                    return False
                ctx.mismatch('C13:list_entrypoints:root-not-default:collides-with-branch' if tc.root_asserted else 'C13:list_entrypoints:root-name-collides-with-branch',
                             'parameter %s: the name pytezos gives to the whole parameter (%r) is also the annotation of a branch; the branch of type %s '
                             'is listed with the type of the whole parameter' % (michelson(T), name, plain(bt)), tc.case(kind='list'))
                tc.collision = True
            else:
                ctx.mismatch('C13:list_entrypoints:branch-type', 'parameter %s: entrypoint %%%s listed with type %s, Tezos: %s' % (
                    michelson(T), name, listed[name], plain(bt)), tc.case(kind='list'))
            ok = False
    if len(extra) == 1:
        tc.py_root = extra[0]
        if listed[extra[0]] != whole:
            ctx.mismatch('C13:list_entrypoints:root-type', 'parameter %s: root entry %r listed with type %s' % (michelson(T), extra[0], listed[extra[0]]),
                         tc.case(kind='list'))
            ok = False
        if tc.root_asserted and extra[0] != 'default':
            ctx.mismatch('C13:list_entrypoints:root-not-default', 'parameter %s: no branch is named default and the root is unannotated, so `default` is the '
                         'whole parameter; pytezos lists it as %r' % (michelson(T), extra[0]), tc.case(kind='list'))
            ok = False
    elif len(extra) > 1:
        ctx.mismatch('C13:list_entrypoints:extra-entrypoints', 'parameter %s: listed %s, Tezos: branches %s plus the root' % (michelson(T), sorted(listed), bnames),
                     tc.case(kind='list'))
        ok = False
    elif not tc.collision:
        ctx.mismatch('C13:list_entrypoints:root-missing', 'parameter %s: the whole parameter is not listed; listed %s' % (michelson(T), sorted(listed)),
                     tc.case(kind='list'))
        ok = False
    return ok


def value_class(tc, best):
    """input class of a full value, from the model's Split: where does its deepest entrypoint sit"""
    if best[0] == tc.root[0]:
        return 'value-in-no-annotated-branch'
    leaf = terms_follow(tc, best)
    return 'annotated-leaf' if leaf else 'unannotated-leaf-under-annotated-node'


def terms_follow(tc, best):
    t = tc.etype[best[0]]
    return t[0] == 'leaf'


def decompose(ctx, tc, obj, full, best, kind, case):
    """to_parameters() of a section value whose model value is `full`; the pair must denote `full`."""
    T = tc.T
    vc = value_class(tc, best)
    coll = tc.coll_suffix()
    try:
        params = obj.to_parameters()
        e_py, a_json = params['entrypoint'], params['value']
    except Exception as e:   # noqa
        ctx.mismatch('C13:to_parameters:%s:raises-%s' % (vc, exc_class(e)),
                     'parameter %s, value %s: to_parameters raised %r (Tezos: entrypoint %%%s with argument %s)' % (michelson(T), full, e, best[0], best[1]), case)
        return None
    e = tc.model_name(e_py)
    if e not in tc.etype:
        ctx.mismatch('C13:to_parameters:%s:unknown-entrypoint' % vc, 'parameter %s, value %s: to_parameters chose %r which is not an entrypoint' % (michelson(T), full, e_py), case)
        return None
    try:
        a = terms.pval(plain(tc.etype[e]), a_json)
    except Exception as ex:   # noqa
        a = ('#unparsed', repr(ex)[:60])
    den = tc.join.get((e, a))
    if den != full:
        ctx.mismatch('C13:to_parameters:%s:wrong-pair%s' % (vc, coll), 'parameter %s, value %s: to_parameters gave (%r, %s) which denotes %s' % (michelson(T), full, e_py, a_json, den), case)
        return None
    return params


def check_split(ctx, tc, v, best):
    """full value -> pair -> full value"""
    T = tc.T
    pt = plain(T)
    case = tc.case(kind='split', v=to_json(v), best=to_json(best))
    try:
        obj = tc.cls.from_micheline_value(terms.value_json(pt, v))
    except Exception as e:   # noqa
        ctx.mismatch('C13:from_micheline_value:raises-' + exc_class(e), 'parameter %s: value %s rejected: %r' % (michelson(T), v, e), case)
        return False
    params = decompose(ctx, tc, obj, v, best, 'split', case)
    if params is None:
        return False
    # a copy of the value (copy.deepcopy, as the REPL snapshots do; duplicate(), as DUP does) is the same value: it splits into a pair denoting the same thing
    import copy as _copy
    for how, mk in (('deepcopy', lambda: _copy.deepcopy(obj)), ('duplicate', lambda: type(obj)(obj.item.duplicate()) if hasattr(obj, 'item') else _copy.copy(obj))):
        try:
            p2 = mk().to_parameters()
            same = (tc.model_name(p2['entrypoint']), p2['value']) == (tc.model_name(params['entrypoint']), params['value'])
            why = 'gives %s, the original %s' % (p2, params)
        except Exception as e:   # noqa
            same, why = False, 'raised %r' % (e,)
        if not same:
            ctx.mismatch('C13:to_parameters:copy-of-the-value:%s' % how, 'parameter %s, value %s: to_parameters of a %s of the value %s' % (michelson(T), v, how, why), case)
            return False
    vc = value_class(tc, best)
    coll = tc.coll_suffix()
    import copy
    before = copy.deepcopy(params)
    try:
        back = terms.pval(pt, tc.cls.from_parameters(params).to_micheline_value())
    except Exception as e:   # noqa
        ctx.mismatch('C13:value-roundtrip:%s:from_parameters-raises-%s%s' % (vc, exc_class(e), coll),
                     'parameter %s, value %s: to_parameters gave %s, from_parameters of that raised %r' % (michelson(T), v, params, e), case)
        return False
    if back != v:
        ctx.mismatch('C13:value-roundtrip:%s:wrong-value%s' % (vc, coll), 'parameter %s, value %s: to_parameters gave %s, from_parameters of that gave %s' % (
            michelson(T), v, params, back), case)
        return False
    # the other rendering modes: the full value and the pair come out in that mode throughout (below union nodes too), and the pair still builds the value
    for mode in ('optimized', 'legacy_optimized'):
        try:
            full_m = obj.to_micheline_value(mode=mode)
            pm = obj.to_parameters(mode=mode)
            e_m = tc.model_name(pm['entrypoint'])
            want_full = terms.value_json(pt, v, mode)
            ok_m = full_m == want_full and e_m in tc.etype
            if ok_m:
                a_m = [a for (e2, a), f in tc.join.items() if e2 == e_m and f == v]
                ok_m = any(pm['value'] == terms.value_json(plain(tc.etype[e_m]), a, mode) for a in a_m)
            if ok_m:
                ok_m = tc.cls.from_parameters(pm).to_micheline_value(mode=mode) == want_full
            detail = 'full value %s, pair %s' % (json.dumps(full_m), json.dumps(pm))
        except Exception as e:   # noqa
            ok_m, detail = False, 'raised %r' % e
        if not ok_m:
            ctx.mismatch('C13:mode:%s:%s' % (mode, vc), 'parameter %s, value %s in mode %s: %s; expected the full value %s and a pair denoting it in the same mode' % (
                michelson(T), v, mode, detail, json.dumps(terms.value_json(pt, v, mode))), case)
            return False
    try:
        again = terms.pval(pt, tc.cls.from_parameters(params).to_micheline_value())
    except Exception as e:   # noqa
        again = 'raises %r' % e
    if again != v:
        ctx.mismatch('C13:value-roundtrip:second-from_parameters-differs', 'parameter %s, value %s: a second from_parameters of the same pair object (first %s, now %s) gave %s' % (michelson(T), v, before, params, again), case)
        return False
    return True


def check_join(ctx, tc, e, a, full, best):
    """(entrypoint, argument) -> full value -> pair denoting the same full value"""
    T = tc.T
    case = tc.case(kind='join', e=e, a=to_json(a), full=to_json(full), best=to_json(best))
    e_py = tc.py_name(e)
    if e_py is None or (tc.collision and e_py in (tc.root[0], getattr(tc.cls, 'root_name', None))):
        ctx.skip('join: the whole parameter has no separate listed name (reported as root-name-collides-with-branch)')
        return True
    coll = tc.coll_suffix()
    kind = 'root' if e == tc.root[0] else 'branch'
    try:
        obj = tc.cls.from_parameters({'entrypoint': e_py, 'value': terms.value_json(plain(tc.etype[e]), a)})
        got = terms.pval(plain(T), obj.to_micheline_value())
        # the pair is a mapping with two keys: the order in which the caller happened to write them means nothing
        other = terms.pval(plain(T), tc.cls.from_parameters({'value': terms.value_json(plain(tc.etype[e]), a), 'entrypoint': e_py}).to_micheline_value())
        if other != got:
            raise ValueError('value-first dict gives %s, entrypoint-first %s' % (other, got))
    except Exception as ex:   # noqa
        ctx.mismatch('C13:from_parameters:%s:raises-%s%s' % (kind, exc_class(ex), coll), 'parameter %s: from_parameters(%r, %s) raised %r; Tezos: %s' % (
            michelson(T), e_py, a, ex, full), case)
        return False
    if got != full:
        ctx.mismatch('C13:from_parameters:%s:wrong-value%s' % (kind, coll), 'parameter %s: from_parameters(%r, %s) gave %s; Tezos: %s' % (michelson(T), e_py, a, got, full), case)
        return False
    params = decompose(ctx, tc, obj, full, best, 'join', case)
    if params is None:
        return False
    # a pair that addresses an annotated *leaf* comes back literally (no deeper name exists that could be preferred); for inner nodes only the
    # denoted value is compared, since (admin, Left 5) and (set, 5) denote the same thing
    if tc.etype[e][0] == 'leaf' and kind == 'branch' and not tc.collision:
        want = {'entrypoint': e_py, 'value': terms.value_json(plain(tc.etype[e]), a)}
        got_pair = {'entrypoint': params.get('entrypoint'), 'value': params.get('value')}
        if got_pair != want:
            ctx.mismatch('C13:pair-roundtrip:leaf-entrypoint%s' % coll, 'parameter %s: the pair (%s, %s) builds %s, which converts back to the pair %s' % (
                michelson(T), e_py, a, full, got_pair), case)
            return False
    return True


def run_family(ctx, name, depth, names, rots, timeout, type_annots=False, bases=BASES):
    TYPE_ANNOTS[0] = type_annots
    gen = {'MichEntryMC': MC % to_tla(bases)}
    cfg = CFG % (depth, ', '.join('"%s"' % n for n in names), ', '.join(map(str, rots)))
    cov = depth <= 1      # action coverage (vacuity) on the small family only: -coverage is slow on the big ones
    r = ctx.tlc('MichEntryMC', cfg, name=name, gen=gen, timeout=timeout, coverage=cov)
    ctx.require_no_violation(r, name)
    if cov:
        ctx.require_coverage(r, ['PickValue', 'PickPair', 'Wrap', 'Descend'])
    types = {}
    nrec = 0
    for v in r.printed:
        if v[0] != 'OUT':
            continue
        nrec += 1
        d = types.setdefault(v[2], {'list': None, 'split': [], 'join': []})
        if v[1] == 'list':
            d['list'] = v[3]
        elif v[1] == 'split':
            d['split'].append((v[3][0], v[5]))                 # (full value, model pair)
        else:
            d['join'].append((v[3][0], v[3][1], v[4], v[5]))   # (entrypoint, argument, full value, model pair of the full value)
    if not types or any(d['list'] is None or not d['split'] or not d['join'] for d in types.values()):
        raise Exception('incomplete export from TLC (%d records)' % nrec)
    for T in sorted(types, key=repr):
        d = types[T]
        tc = TypeCase(T, d['list'], [(e, a, f) for e, a, f, _ in d['join']])
        nt = annotated(T) and T[0] == 'or'
        ok = check_listing(ctx, tc)
        ctx.replayed += 1
        ctx.count(('list', T), nontrivial=nt)
        if tc.cls is None:
            continue
        if tc.collision and not tc.root_asserted:
            continue          # reserved-name corner: whole type outside the compared domain (counted as skipped)
        good = ok
        for v, best in d['split']:
            good = check_split(ctx, tc, v, best) and good
            ctx.replayed += 1
            ctx.count(('split', T, v), nontrivial=nt)
        for e, a, full, best in d['join']:
            good = check_join(ctx, tc, e, a, full, best) and good
            ctx.replayed += 1
            ctx.count(('join', T, e, a), nontrivial=nt)
        if good and nt and len(tc.tab) >= 4:
            ctx.sample({'parameter': michelson(T), 'entrypoints': {e[0]: ''.join(e[1]) for e in tc.tab},
                        'values': len(d['split']), 'pairs': len(d['join'])}, limit=5)
    return len(types)


def run(ctx):
    ctx.rule = ('parameter types = `or` trees up to the depth bound whose inner nodes and leaves carry an optional field annotation drawn without repetition '
                'from the name pool (so: annotated inner nodes over unannotated leaves, %default, %root, annotated and non-union roots), leaf types dealt from '
                '(int, unit, string); per type: the entrypoint list, every full value, and every (listed entrypoint, argument) pair; '
                'non-trivial = a union with at least one annotation')
    ctx.assumptions = ['types with a repeated entrypoint name are ill-formed in Tezos and are not in the universe',
                       'the name listed for the whole parameter is asserted only when Tezos fixes it (root unannotated or %default, no branch named default: `default`); '
                       'otherwise the one listed name that is not a branch is taken to be the whole parameter',
                       'for a full value, to_parameters may pick any listed entrypoint whose pair denotes the value (the model picks the deepest); only the denoted full value is compared - except that a pair addressing an annotated leaf must come back as that very pair (the literal reading of the round trip, which is satisfiable exactly for leaves)',
                       'leaf values: int {-1, 5}, string {"", "x"}, unit',
                       'in some families every node without field annotation is given a type annotation (:a, :b, :default) when the type is handed to pytezos; '
                       'type annotations do not name entrypoints, so the model is unchanged; in one family they get the empty field annotation % instead, which names no entrypoint either']
    n = 0
    if ctx.quick:
        n += run_family(ctx, 'ME_d2', 2, ['a', 'b', 'default'], [0], 600)
        n += run_family(ctx, 'ME_d1_root', 1, ['a', 'default', 'root'], [1], 600, type_annots=True)
        n += run_family(ctx, 'ME_d2_bare', 2, ['a', 'b'], [0], 600, type_annots='bare')
        n += run_family(ctx, 'ME_d2_modes', 2, ['a', 'b'], [0, 1], 600, bases=('address', 'bigmap', 'int'))
    else:
        n += run_family(ctx, 'ME_d2_bare', 2, ['a', 'b', 'default'], [0, 1], 1500, type_annots='bare')
        n += run_family(ctx, 'ME_d2', 2, ['a', 'b', 'default', 'root'], [0, 1, 2], 1500)
        n += run_family(ctx, 'ME_d3_ad', 3, ['a', 'default'], [0], 1500)
        n += run_family(ctx, 'ME_d3_ab', 3, ['a', 'b'], [1], 1500, type_annots=True)
        n += run_family(ctx, 'ME_d2_modes', 2, ['a', 'b', 'default'], [0, 1, 2], 1500, bases=('address', 'bigmap', 'int'))
    ctx.extra['types'] = n
    duplicate_names(ctx)
    ctx.exhaustive = True


DUPLICATES = [{'prim': 'or', 'args': [{'prim': 'int', 'annots': ['%a']}, {'prim': 'nat', 'annots': ['%a']}]},
              {'prim': 'or', 'args': [{'prim': 'or', 'args': [{'prim': 'int', 'annots': ['%a']}, {'prim': 'string'}]}, {'prim': 'nat', 'annots': ['%a']}]},
              {'prim': 'or', 'args': [{'prim': 'or', 'annots': ['%a'], 'args': [{'prim': 'int'}, {'prim': 'string'}]}, {'prim': 'nat', 'annots': ['%a']}]}]


def duplicate_names(ctx):
    """A type in which two branches carry the same entrypoint name is not a parameter type for Tezos (it is outside the model's universe).
    Refusing it is right; what must not happen is that it is accepted and a value then comes back as another value."""
    from pytezos.michelson.sections.parameter import ParameterSection
    for tj in DUPLICATES:
        vals = [{'prim': 'Right', 'args': [{'int': '2'}]}, {'prim': 'Left', 'args': [{'int': '1'}] if tj['args'][0]['prim'] == 'int' else [{'prim': 'Left', 'args': [{'int': '1'}]}]}]
        for v in vals:
            ctx.count(('dup', json.dumps(tj), json.dumps(v)), nontrivial=True)
            try:
                sec = ParameterSection.match({'prim': 'parameter', 'args': [tj]})
                obj = sec.from_micheline_value(v)
                params = obj.to_parameters()
            except Exception:   # noqa: refused, as Tezos does
                continue
            try:
                back = sec.from_parameters(params).to_micheline_value()
            except Exception as e:   # noqa
                back = 'raises %r' % e
            if back != v:
                ctx.mismatch('C13:duplicate-entrypoint-name:accepted-and-value-changes', 'parameter %s (two branches named %%a; Tezos refuses it) is accepted, and the value %s goes to the pair %s, which comes back as %s' % (
                    json.dumps(tj), json.dumps(v), json.dumps(params), json.dumps(back) if not isinstance(back, str) else back), {'kind': 'dup'})


def replay(ctx, rep):
    c = rep['case']
    T = tup(c['T'])
    TYPE_ANNOTS[0] = c.get('type_annots') if c.get('type_annots') == 'bare' else bool(c.get('type_annots'))
    tc = TypeCase(T, tup(c['tab']), [tup(j) for j in c['joins']])
    ok = check_listing(ctx, tc)
    if tc.cls is not None:
        if c['kind'] == 'split':
            ok = check_split(ctx, tc, tup(c['v']), tup(c['best'])) and ok
        elif c['kind'] == 'join':
            ok = check_join(ctx, tc, c['e'], tup(c['a']), tup(c['full']), tup(c['best'])) and ok
    want = rep.get('signature')
    for m in ctx.mismatches:
        print('REPRODUCED' if m.signature == want else 'ALSO', m.signature, m.detail)
    return 0 if ok else 1


META = {
    'category': 'model_checking',
    'text': ('MichEntry.tla defines the entrypoint table of a parameter type as Tezos does (field-annotated nodes reachable through `or` nodes, plus the root) '
             'and models to_parameters / from_parameters constructor by constructor (descend remembering the deepest annotated node; wrap along the entrypoint path). '
             'TLC checks over every type of the bounded universe, every full value and every (entrypoint, argument) pair that names are unique, that '
             'value -> pair -> value and pair -> value -> pair are identities on the denoted full value and that built values are well typed. Every type, value and '
             'pair enumerated by TLC is replayed through ParameterSection.list_entrypoints / to_parameters / from_parameters and compared with the model.'),
    'design_ref': 'DESIGN.md section 5 C13',
    'note': ('Trusted: terms.py (value/type projection), the annotation printer in C13.py. Bounds: depth 2 with names {a,b,default} + depth 1 with {a,default,root} (quick); '
             'depth 2 with {a,b,default,root} and 3 leaf-type rotations, depth 3 with {a,default} and {a,b} (thorough). Leaf types int/unit/string only.'),
    'technique': 'TLA+ spec + TLC exhaustive model checking; spec-behaviour replay into ParameterSection',
}
