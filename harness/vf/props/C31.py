"""C31 - operation list / list list / block payload hashes follow the Tezos Merkle construction.  Spec: Merkle.tla."""
import hashlib, json, os, random

from .. import c31c33_ref as ref
from ..tlaparse import to_json

CFG = """SPECIFICATION Spec
CONSTANTS MaxLen = %d
 MaxOuter = %d
 InnerLens = {%s}
 MaxOuterLong = %d
INVARIANT RootIsReference
INVARIANT InnerRootsAreReference
INVARIANT LevelInvariant
INVARIANT IndexInBounds
INVARIANT ReferenceShape
INVARIANT EmitDone
PROPERTY Terminates
"""
TCFG = """SPECIFICATION Spec
CONSTANTS MaxLen = 0
 MaxOuter = 0
 InnerLens = {}
 MaxOuterLong = 0
POSTCONDITION Accepted
"""
KIND = {'ol': 'Lo', 'oll': 'LLo', 'payload': 'vh'}

# ---------------------------------------------------------------- library boundary: hashlib.blake2b
_REAL = hashlib.blake2b
LOG = None          # list of (input bytes, digest) while a call is being recorded


class _Recording:
    """hashlib.blake2b object that reports (input, digest) of 32-byte digests to LOG when recording is on."""

    def __init__(self, data=b'', **kw):
        self._h = _REAL(data, **kw)
        self._data = bytes(data)

    def update(self, data):
        self._h.update(data)
        self._data += bytes(data)

    def _note(self, d):
        if LOG is not None and len(d) == 32:
            LOG.append((self._data, d))
        return d

    def digest(self):
        return self._note(self._h.digest())

    def hexdigest(self):
        return self._note(self._h.digest()).hex()

    def copy(self):
        c = _Recording.__new__(_Recording)
        c._h = self._h.copy()
        c._data = self._data
        return c

    def __getattr__(self, name):
        return getattr(self._h, name)


def _blake2b(data=b'', **kw):
    return _Recording(data, **kw)


for _a in ('SALT_SIZE', 'PERSON_SIZE', 'MAX_KEY_SIZE', 'MAX_DIGEST_SIZE'):
    setattr(_blake2b, _a, getattr(_REAL, _a))


def install():
    """Must run before pytezos.crypto.hash is imported (it binds `from hashlib import blake2b`)."""
    import sys
    if 'pytezos.crypto.hash' in sys.modules and getattr(sys.modules['pytezos.crypto.hash'], 'blake2b', None) is not _blake2b:
        raise Exception('pytezos.crypto.hash was imported before the hashlib.blake2b recorder was installed')
    hashlib.blake2b = _blake2b


# ---------------------------------------------------------------- interpretation of the model's terms
def evaluate(term, env):
    """Symbolic term of Merkle.tla -> bytes: "H" is blake2b-256 of the concatenated children, atoms come from env."""
    if term[0] == 'H':
        return _REAL(b''.join(evaluate(c, env) for c in term[1]), digest_size=32).digest()
    return env[tuple(term)]


def lenclass(n):
    if n == 0:
        return 'empty'
    if n == 1:
        return 'single'
    if n & (n - 1) == 0:
        return 'pow2'
    return 'odd' if n % 2 else 'even'


EDGE = [bytes(32), b'\xff' * 32, bytes(31) + b'\x01', b'\x01' + bytes(31), b'\x00\xff' * 16]
ROUNDS = [0, 1, 255, 256, 65536, 2 ** 31 - 1]


def make_env(shape, variant, rng):
    """Concrete 32-byte operation hashes for the atoms <<"op", j, t>> of a shape."""
    env = {}
    for j, n in enumerate(shape, 1):
        for t in range(1, n + 1):
            if variant == 'random':
                v = rng.randbytes(32)
            elif variant == 'equal':
                v = EDGE[2]
            elif variant == 'edge':
                v = EDGE[(j + t) % len(EDGE)]
            elif variant == 'dups':     # first = last, last two equal, the rest random
                v = EDGE[4] if t in (1, n, n - 1) else rng.randbytes(32)
            else:
                raise ValueError(variant)
            env[('op', j, t)] = v
    return env


_SHARED = []
_ncall = [0]


def call_impl(mode, shape, env):
    from pytezos.crypto import hash as H
    lists = [[ref.b58check('o', env[('op', j, t)]) for t in range(1, n + 1)] for j, n in enumerate(shape, 1)]
    # the caller's list objects are reused from call to call and edited in place (a pool being filled): the hash is a function of the contents
    for k, l in enumerate(lists):
        if k >= len(_SHARED):
            _SHARED.append([])
        _SHARED[k][:] = l
    lists = _SHARED[:len(lists)]
    # the hashes may come in any iterable the functions accept on the pinned tree (list, tuple, a single-pass iterator): the root is the same
    _ncall[0] += 1
    form = (0, 0, 1, 0, 0, 2)[_ncall[0] % 6]      # mostly the reused list objects (consecutive calls see the same object with other contents)
    if form == 1:
        lists = [tuple(l) for l in lists]
    elif form == 2:
        lists = [iter(list(l)) for l in lists] if mode != 'oll' else (iter(list(l)) for l in list(lists))
    if mode == 'ol':
        return H.operation_list_hash(lists[0])
    if mode == 'oll':
        return H.operation_list_list_hash(lists)
    rnd = int.from_bytes(env[('round',)], 'big')
    return H.block_payload_hash(ref.b58check('B', env[('pred',)]), rnd, lists[0])


MAX_PER_CLASS = 4      # once an input class has this many mismatches, further cases of the class are skipped (and counted)
_bad = {}


def saturated(ctx, mode, shape):
    n = len(shape) if mode == 'oll' else shape[0]
    if _bad.get((mode, lenclass(n)), 0) >= MAX_PER_CLASS:
        ctx.skip('input class %s:%s already has %d mismatches' % (mode, lenclass(n), MAX_PER_CLASS))
        return True
    return False


def compare(ctx, mode, shape, root, env, sig='C31:replay'):
    if saturated(ctx, mode, shape):
        return False
    want = ref.b58check(KIND[mode], evaluate(root, env))
    try:
        got = call_impl(mode, shape, env)
        obs = None
    except Exception as e:   # noqa
        got, obs = None, 'raises-' + type(e).__name__
    if got == want:
        return True
    if obs is None:
        obs = 'wrong-hash' if isinstance(got, str) and ref.b58check_payload(KIND[mode], got) is not None else 'wrong-encoding'
    n = len(shape) if mode == 'oll' else shape[0]
    _bad[(mode, lenclass(n))] = _bad.get((mode, lenclass(n)), 0) + 1
    case = {'mode': mode, 'shape': list(shape), 'root': to_json(root),
            'env': [[list(k), v.hex()] for k, v in env.items()]}
    ctx.mismatch('%s:%s:%s:%s' % (sig, mode, lenclass(n), obs),
                 '%s over lists of lengths %s: pytezos gave %s, the Merkle root of the model is %s' % (mode, list(shape), got, want), case)
    return False


def variants(ctx, mode, shape):
    n = sum(shape)
    vs = ['random']
    if n >= 1:
        vs.append('edge')
    if n >= 2:
        vs += ['equal', 'dups']
    if not ctx.quick:
        vs += ['random'] * 6
    return vs


def run(ctx):
    install()
    ctx.rule = ('Leg A: the work-array reduction (one action per hash written) against the declarative pad-to-2^k tree, for every list '
                'length up to the bound, list-list shapes and the payload hash, hashes symbolic; Leg B: every root term exported by TLC is '
                'interpreted with hashlib.blake2b on concrete operation hashes (random / all equal / duplicates / edge byte patterns) and '
                'compared with operation_list_hash, operation_list_list_hash, block_payload_hash; Leg C: blake2b evaluations of random '
                'calls recorded at hashlib.blake2b and validated by MerkleTrace; non-trivial = at least two hashes in some list')
    ctx.assumptions = ['"H" of the model is interpreted as hashlib.blake2b(digest_size=32); base58check strings are built by an own encoder (harness/vf/c31c33_ref.py)',
                       'operation hashes are passed as "o" strings, the predecessor as a "B" string, payload rounds are in 0 .. 2^31-1',
                       'block payload hash = blake2b(predecessor || round as int32 big endian || operation list hash of the given hashes) as in Tenderbake block_payload_repr.ml',
                       'Leg C: a call whose result is not produced through hashlib.blake2b is skipped, not judged']
    if ctx.quick:
        maxlen, maxouter, inner, outerlong = 17, 3, [0, 1, 2, 3], 17
    else:
        maxlen, maxouter, inner, outerlong = 65, 4, [0, 1, 2, 3, 5], 65
    r = ctx.tlc('Merkle', CFG % (maxlen, maxouter, ', '.join(map(str, inner)), outerlong), timeout=1200)
    ctx.require_no_violation(r, 'Merkle')
    ctx.require_coverage(r, ['Start', 'Pair', 'Pad', 'Level', 'Payload'])
    outs = [v for v in r.printed if v[0] == 'OUT']
    if len(outs) < 2 * (maxlen + 1):
        raise Exception('only %d roots exported' % len(outs))
    outs.sort(key=lambda v: (v[1], v[2]))     # TLC prints in worker order; the replay order must not depend on it
    rng = random.Random(ctx.seed * 7919 + 31)
    seen = set()
    for _, mode, shape, root in outs:
        if (mode, shape) in seen:
            continue
        seen.add((mode, shape))
        ok = True
        for vi, variant in enumerate(variants(ctx, mode, shape)):
            env = make_env(shape, variant, rng)
            if mode == 'payload':
                rounds = ROUNDS if vi == 0 else [rng.choice(ROUNDS + [rng.randrange(2 ** 31)])]
                for rnd in rounds:
                    env[('pred',)] = rng.choice(EDGE + [rng.randbytes(32)] * 3)
                    env[('round',)] = rnd.to_bytes(4, 'big')
                    ok &= compare(ctx, mode, shape, root, env)
                    ctx.count((mode, shape, variant, vi, rnd), nontrivial=max(shape, default=0) >= 2)
            else:
                ok &= compare(ctx, mode, shape, root, env)
                ctx.count((mode, shape, variant, vi), nontrivial=(max(shape, default=0) >= 2 or len(shape) >= 2))
        ctx.replayed += 1
        if ok and ((mode != 'oll' and shape[0] in (3, 6)) or (mode == 'oll' and shape == (2, 3, 0))):
            env = make_env(shape, 'edge', rng)
            env[('pred',)], env[('round',)] = EDGE[0], (1).to_bytes(4, 'big')
            ctx.sample({'mode': mode, 'lengths': shape, 'model_root': root,
                        'hash': ref.b58check(KIND[mode], evaluate(root, env))}, limit=5)
    ctx.exhaustive = True
    concurrent_callers(ctx, [(m, sh, rt) for _, m, sh, rt in outs if m == 'ol' and 3 <= sh[0] <= 9], rng)
    leg_c(ctx, rng)


def concurrent_callers(ctx, cases, rng):
    """The hash of a list is a function of the list also when several callers hash different lists at the same time (threads of one
    process, e.g. a pool hashing the passes of several blocks): two threads, interpreter switching at the shortest interval, each
    hashing its own lists over and over; every result must be the model's root of that thread's list."""
    import sys, threading
    from pytezos.crypto import hash as H
    jobs = []
    for mode, shape, root in cases[:8]:
        env = make_env(shape, 'random', rng)
        lst = [ref.b58check('o', env[('op', 1, t)]) for t in range(1, shape[0] + 1)]
        jobs.append((shape, lst, ref.b58check(KIND[mode], evaluate(root, env))))
    if len(jobs) < 2:
        return
    wrong = []

    def worker(mine):
        for k in range(150):
            shape, lst, want = mine[k % len(mine)]
            try:
                got = H.operation_list_hash(list(lst))
            except Exception as e:   # noqa
                got = 'raises-' + type(e).__name__
            if got != want:
                wrong.append((shape, got, want))
                return
    old = sys.getswitchinterval()
    sys.setswitchinterval(1e-6)
    try:
        ts = [threading.Thread(target=worker, args=(jobs[0::2],)), threading.Thread(target=worker, args=(jobs[1::2],))]
        for t in ts:
            t.start()
        for t in ts:
            t.join()
    finally:
        sys.setswitchinterval(old)
    ctx.count(('concurrent', len(jobs)), nontrivial=True)
    ctx.extra['concurrent_calls'] = 300
    if wrong:
        shape, got, want = wrong[0]
        ctx.mismatch('C31:concurrent-callers:wrong-hash', 'operation_list_hash of a list of %d hashes, while another thread hashes other lists: %s, the Merkle root is %s' % (shape[0], got, want),
                     {'mode': 'concurrent', 'shape': list(shape)})


# ---------------------------------------------------------------- Leg C
def record(mode, shape, env):
    """Run one public function with the recorder on; returns the trace for MerkleTrace (or None if not judgeable)."""
    global LOG
    LOG = []
    try:
        got = call_impl(mode, shape, env)
    finally:
        log, LOG = LOG, None
    known = {v: list(k) for k, v in env.items() if len(v) == 32}
    evs, ids = [], {}
    for data, digest in log:
        parts, p = [], 0
        while p < len(data):
            chunk = data[p:p + 32]
            if chunk in ids:
                parts.append(['id', ids[chunk]])
                p += 32
            elif chunk in known:
                parts.append(known[chunk])
                p += 32
            elif mode == 'payload' and data[p:p + 4] == env[('round',)] and parts == [['pred']]:
                parts.append(['round'])
                p += 4
            else:
                parts.append(['raw'])
                break
        evs.append(parts)
        ids[digest] = len(evs)
    payload = ref.b58check_payload(KIND[mode], got) if isinstance(got, str) else None
    res = ids.get(payload, 0)
    return {'mode': mode, 'shape': list(shape), 'evs': evs, 'res': res}, got


def leg_c(ctx, rng):
    ntr = 60 if ctx.quick else 600
    big = 130 if ctx.quick else 700
    traces, envs = [], []
    for t in range(ntr):
        mode = ('ol', 'oll', 'payload')[t % 3]
        if mode == 'oll':
            shape = tuple(rng.choice([0, 1, 2, 3, 4, 7, 8, 9, rng.randrange(40)]) for _ in range(rng.choice([0, 1, 2, 3, 5, 8, 11, rng.randrange(24)])))
        else:
            shape = (rng.choice([0, 1, 2, 3, rng.randrange(20), rng.randrange(big), rng.randrange(big)]),)
        env = make_env(shape, 'random', rng)
        if mode == 'payload':
            env[('pred',)] = rng.randbytes(32)
            env[('round',)] = rng.choice(ROUNDS + [rng.randrange(2 ** 31)]).to_bytes(4, 'big')
        if saturated(ctx, mode, shape):
            continue
        try:
            tr, got = record(mode, shape, env)
        except Exception as e:   # noqa
            n = len(shape) if mode == 'oll' else shape[0]
            _bad[(mode, lenclass(n))] = _bad.get((mode, lenclass(n)), 0) + 1
            ctx.mismatch('C31:trace-call:%s:%s:raises-%s' % (mode, lenclass(n), type(e).__name__),
                         '%s over lists of lengths %s raised %r' % (mode, list(shape), e), {'mode': mode, 'shape': list(shape)})
            continue
        if tr['res'] == 0 and not any(tr['evs']):
            ctx.skip('result not produced through hashlib.blake2b')
            continue
        traces.append(tr)
        envs.append([[list(k), v.hex()] for k, v in env.items()])
        ctx.count(('c', t), nontrivial=max(shape, default=0) >= 2 or len(shape) >= 2)
    validate_traces(ctx, traces, 'C31:trace', envs)


def validate_traces(ctx, traces, sig, envs=None):
    if not traces:
        return
    tf = os.path.join(ctx.wd, 'traces.json')
    json.dump(traces, open(tf, 'w'))
    r = ctx.tlc('MerkleTrace', TCFG, name='MerkleTrace', workers=1, env={'TRACE_FILE': tf}, timeout=900, coverage=False)
    rejects = [v for v in r.printed if v[0] == 'REJECT']
    if r.violation and not rejects:
        raise Exception('MerkleTrace failed without a REJECT line:\n' + r.output[-1500:])
    for v in rejects:
        tr = traces[v[1] - 1]
        n = len(tr['shape']) if tr['mode'] == 'oll' else tr['shape'][0]
        cls = {'returned digest is not the reference root': 'not-reference-tree', 'returned value is not a recorded digest': 'result-not-hashed'}.get(v[3], 'malformed')
        ctx.mismatch('%s:%s:%s:%s' % (sig, tr['mode'], lenclass(n), cls),
                     'recorded blake2b evaluations of %s over lengths %s do not form the reference Merkle tree: %s' % (tr['mode'], tr['shape'], v[3]),
                     {'trace': tr, 'env': envs[v[1] - 1] if envs else None})
    ctx.traces += len(traces) - len(set(v[1] for v in rejects))
    small = [t for t in traces if 2 <= sum(t['shape']) <= 4]
    if small:
        ctx.sample({'recorded_trace': small[0]}, limit=6)


def replay(ctx, rep):
    install()
    c = rep['case']
    if 'root' in c:
        def tup(x):
            return tuple(tup(y) for y in x) if isinstance(x, list) else x
        env = {tuple(k): bytes.fromhex(v) for k, v in c['env']}
        ok = compare(ctx, c['mode'], tuple(c['shape']), tup(c['root']), env)
    elif 'trace' in c:
        tr = c['trace']
        if c.get('env'):      # record the call again from the current implementation
            env = {tuple(k): bytes.fromhex(v) for k, v in c['env']}
            tr, _ = record(tr['mode'], tuple(tr['shape']), env)
        validate_traces(ctx, [tr], 'C31:trace', [c.get('env')])
        ok = not ctx.mismatches
    elif c.get('mode') == 'concurrent':     # a schedule cannot be replayed from a file: the whole check (with its concurrent leg) is run again
        run(ctx)
        ok = not ctx.mismatches
    else:
        ok = True
    for m in ctx.mismatches:
        print('REPRODUCED', m.signature, m.detail)
    return 0 if ok else 1


META = {
    'category': 'model_checking',
    'text': ('Merkle.tla states the reference declaratively (leaf hashes padded to the next power of two with copies of the last leaf, root of the full '
             'binary tree, hash of the empty string for the empty list; list-list hash = root over the list roots; payload hash = hash of predecessor, '
             'round and list root) with symbolic hashes, and models the in-place work-array reduction one hash at a time. TLC checks for every length up '
             'to the bound that the reduction ends in the reference root, that every level of the array pads to the reference tree, and that no access '
             'leaves the array. Every exported root term is interpreted with hashlib.blake2b on concrete hashes and compared with the three public '
             'functions; blake2b evaluations of further random calls, recorded at hashlib.blake2b, are validated by TLC against the reference tree.'),
    'design_ref': 'DESIGN.md section 5 C31, A.9',
    'note': ('Trusted: hashlib.blake2b as interpretation of "H", own base58check encoder and prefix table (harness/vf/c31c33_ref.py), the recorder that names '
             'hashed inputs. Bounds: list lengths 0..17 (0..65 thorough), list-list shapes with <= 3 (4) inner lists of lengths {0,1,2,3} ({0,1,2,3,5}) plus one '
             'shape per outer length up to 17 (65); Leg C random lengths up to 130 (700).'),
    'technique': 'TLA+ spec + TLC exhaustive model checking; spec-result replay into pytezos.crypto.hash; TLC trace validation of recorded hash evaluations',
}
