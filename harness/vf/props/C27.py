"""C27 - node errors map to the most specific registered error class.  Spec: RpcErrors.tla."""
import itertools, random

from .. import boundary
from ..tlaparse import iter_dump, to_json, to_tla

MC = """---- MODULE RpcErrorsMC ----
EXTENDS RpcErrors
RegistryV == %s
IdsV == %s
OtherIdsV == %s
====
"""
CFG = """SPECIFICATION Spec
CONSTANTS Registry <- RegistryV
 Ids <- IdsV
 OtherIds <- OtherIdsV
 MaxErrs = %d
INVARIANT MostSpecificWins
INVARIANT OnlyLastErrorMatters
INVARIANT KeysFunctional
"""
_extra = {}


def registry():
    """Registry read from the running code, plus a few classes registered through the public API."""
    from pytezos.rpc.node import RpcError
    import pytezos.rpc.errors  # noqa: registers the shipped classes
    if not _extra:
        class VerifFullId(RpcError, error_id='proto.alpha.tez.overflow'):
            pass

        class VerifFinal(RpcError, error_id='overflow'):
            pass

        class VerifCatName(RpcError, error_id='unknown_cat.bad_return'):
            pass

        class VerifFinalIsCat(RpcError, error_id='bad_return'):
            pass
        _extra.update(a=VerifFullId, b=VerifFinal, c=VerifCatName, d=VerifFinalIsCat)
    return own_ids({tuple(k.split('.')): v for k, v in RpcError.__handlers__.items()})


OWN = {'VerifFullId': 'proto.alpha.tez.overflow', 'VerifFinal': 'overflow', 'VerifCatName': 'unknown_cat.bad_return', 'VerifFinalIsCat': 'bad_return',
       'VerifLateFinal': 'unknown_name', 'VerifLateCatName': 'unknown_cat.unknown_name', 'VerifLateFull': 'proto.alpha.tez.unknown_name'}


def own_ids(reg):
    """The shipped classes are read from the code; the classes this check registers itself are entered under the ids it asked for
    (a class registered for an id is the class of exactly that id, whatever the registration does with the string)."""
    out = {k: v for k, v in reg.items() if v.__name__ not in OWN}
    for v in set(reg.values()):
        if v.__name__ in OWN:
            out[tuple(OWN[v.__name__].split('.'))] = v
    return out


def ids(quick):
    protos = ['alpha', '024-PtTALLiN']
    comps = ['michelson_v1', 'tez', 'script_rejected', 'bad_return', 'bad_contract_parameter', 'overflow', 'unknown_cat', 'unknown_name']
    out = []
    for p in protos:
        for n in ((1, 2) if quick and p != 'alpha' else (1, 2, 3)):      # a class registered for a full id of one protocol says nothing about another protocol
            for cs in itertools.product(comps, repeat=n):
                out.append(('proto', p) + cs)
    for n in (1, 2):
        for cs in itertools.product(comps, repeat=n):
            out.append(cs)
    return out


def impl_class(errs):
    from pytezos.rpc.node import RpcError
    e = RpcError.from_errors([{'id': '.'.join(i), 'kind': 'permanent'} for i in errs])
    return type(e)


def compare(ctx, reg, errs, model_class):
    got = impl_class(errs)
    want = reg_class(reg, model_class)
    if got is not want:
        last = errs[-1] if errs else ()
        ctx.mismatch('C27:replay:wrong-class', 'errors %s: from_errors gave %s, most specific registered class is %s' % (['.'.join(e) for e in errs], got.__name__, want.__name__),
                     {'errs': to_json(errs), 'class': model_class})
        return False
    return True


def reg_class(reg, name):
    from pytezos.rpc.node import RpcError
    if name == 'RpcError':
        return RpcError
    for k, v in reg.items():
        if v.__name__ == name:
            return v
    raise KeyError(name)


def request_class(errs, kind, n, status=500, pool=False, after_transient=False):
    """class raised by RpcNode.request when the node answers n times <status> with this error list (kind permanent: answered once; temporary: retried until exhausted)"""
    import json as _json
    from pytezos.rpc.node import RpcNode
    body = _json.dumps([{'id': '.'.join(i), 'kind': kind} for i in errs])
    script = [boundary.make_response(status, 'application/json', body) for _ in range(n)]
    if after_transient:
        # two retried answers first (a transient node error of another kind), then the answer that counts: the class is the class of the last answer
        other = _json.dumps([{'id': 'node.mempool.busy', 'kind': 'temporary'}])
        script = [boundary.make_response(503, 'application/json', other), boundary.make_response(500, 'application/json', other)] + script
    boundary.reset(script)
    try:
        if pool:      # the same answer through the node-pool entry point (a list of URIs)
            from pytezos.rpc.node import RpcMultiNode
            RpcMultiNode(['http://c27a.invalid', 'http://c27b.invalid']).request('GET', 'chains/main/blocks/head')
        else:
            RpcNode('http://c27.invalid').request('GET', 'chains/main/blocks/head')
        return None, 0
    except Exception as e:   # noqa
        return type(e), sum(1 for ev in boundary.LOG if ev[0] == 'send')


def run(ctx):
    boundary.install()
    reg = registry()
    names = {}
    for k, v in reg.items():
        names.setdefault(v.__name__, v)
        assert names[v.__name__] is v, 'class names must be unique for the model'
    ctx.rule = ('ids = proto.<P>.c1[.c2[.c3]] and c1[.c2] over 8 component names (registered and unregistered, names that are also categories); '
                'error lists of 0..MaxErrs entries, the last one decides; registry read from the running code plus 4 classes registered through '
                'the public subclass API; then three more classes are registered and the ids naming them are resolved again; non-trivial = some candidate key of the last id is registered')
    ctx.assumptions = ['unprefixed ids with more than two components are outside the compared domain (the statement does not say whether two leading components are stripped from them)',
                       'the registry itself is taken from the code: C27 is about the matching order']
    all_ids = ids(ctx.quick)
    others = [('node', 'mempool', 'busy'), ('proto', 'alpha', 'michelson_v1', 'bad_return'), ('tez',)]
    gen = {'RpcErrorsMC': MC % (to_tla({(k, v.__name__) for k, v in reg.items()}), to_tla(set(all_ids)), to_tla(set(others)))}
    r = ctx.tlc('RpcErrorsMC', CFG % (2 if ctx.quick else 3), gen=gen, dump=True, timeout=900)
    ctx.require_no_violation(r, 'RpcErrors')
    ctx.require_coverage(r, ['Start', 'Try'])
    keys = set(reg)
    nreq = 0
    for st in iter_dump(r.dump):
        if st['pc'] != 'done':
            continue
        errs = st['errs']
        ok = compare(ctx, reg, errs, st['class'])
        ctx.replayed += 1
        ctx.count(errs, nontrivial=st['class'] != 'RpcError')
        if ok and st['class'] != 'RpcError':
            ctx.sample({'errors': ['.'.join(e) for e in errs], 'class': st['class']}, limit=5)
        # the same lists as answers of a node: the class raised by a request is the class of the list, whether the answer is permanent
        # (raised at once) or transient (a list without protocol ids and with a temporary entry is retried; the last answer decides)
        if ok and errs and st['class'] != 'RpcError' and nreq < 400:
            nreq += 1
            want = reg_class(reg, st['class'])
            transient_ok = not any(e[0] == 'proto' for e in errs)
            for kind, n, status, pool in (('permanent', 1, 500, False), ('permanent', 1, 500, True), ('permanent', 1, (400, 403, 409, 410)[nreq % 4], False),
                                          ('after-transient', 1, (400, 403, 500, 409)[nreq % 4], False)) + ((('temporary', 12, 500, False),) if transient_ok else ()):
                after = kind == 'after-transient'
                got, sent = request_class(errs, 'permanent' if after else kind, n, status, pool, after_transient=after)
                ctx.count(('request', errs, kind, status, pool), nontrivial=True)
                ctx.replayed += 1
                if got is not want:
                    ctx.mismatch('C27:request:%s:%s:wrong-class%s' % (kind, '5xx' if status >= 500 else '4xx', ':node-pool' if pool else ''), 'node answers %d with the %s errors %s (%d answers sent): the request raised %s, the class of the list is %s' % (
                        status, kind, ['.'.join(e) for e in errs], sent, getattr(got, '__name__', got), want.__name__), {'errs': to_json(errs), 'class': st['class'], 'request': kind, 'status': status})
    # ---- classes registered later: "registered" means registered at the time of the call, also for ids that were resolved before ----
    reg2 = register_late()
    late_ids = [i for i in all_ids if 'unknown_name' in i or 'unknown_cat' in i]
    gen = {'RpcErrorsMC': MC % (to_tla({(k, v.__name__) for k, v in reg2.items()}), to_tla(set(late_ids)), to_tla(set(others[:1])))}
    r2 = ctx.tlc('RpcErrorsMC', CFG % 1, gen=gen, dump=True, timeout=900, name='RpcErrorsMC_late')
    ctx.require_no_violation(r2, 'RpcErrors (late registrations)')
    nlate = 0
    for st in iter_dump(r2.dump):
        if st['pc'] != 'done':
            continue
        errs = st['errs']
        got = impl_class(errs)
        want = reg_class(reg2, st['class'])
        ctx.replayed += 1
        ctx.count(('late', errs), nontrivial=st['class'] != 'RpcError')
        nlate += st['class'].startswith('VerifLate')
        if got is not want:
            ctx.mismatch('C27:replay:wrong-class:after-late-registration', 'errors %s after three more classes were registered: from_errors gave %s, most specific registered class is %s' % (
                ['.'.join(e) for e in errs], got.__name__, want.__name__), {'errs': to_json(errs), 'class': st['class'], 'late': True})
    if not nlate:
        raise Exception('vacuity: no id resolves to a late class')
    ctx.exhaustive = True


def register_late():
    from pytezos.rpc.node import RpcError
    if 'late' not in _extra:
        class VerifLateFinal(RpcError, error_id='unknown_name'):
            pass

        class VerifLateCatName(RpcError, error_id='unknown_cat.unknown_name'):
            pass

        class VerifLateFull(RpcError, error_id='proto.alpha.tez.unknown_name'):
            pass
        _extra['late'] = (VerifLateFinal, VerifLateCatName, VerifLateFull)
    return own_ids({tuple(k.split('.')): v for k, v in RpcError.__handlers__.items()})


def replay(ctx, rep):
    boundary.install()
    reg = registry()
    c = rep['case']
    if c.get('request'):
        errs = [tuple(e) for e in c['errs']]
        got, sent = request_class(errs, c['request'], 1 if c['request'] == 'permanent' else 12, c.get('status', 500))
        want = reg_class(reg, c['class'])
        print('REPRODUCED' if got is not want else 'NOT-REPRODUCED', 'C27:request:%s:wrong-class' % c['request'], getattr(got, '__name__', got), want.__name__)
        return 0 if got is want else 1
    if c.get('late'):
        impl_class([tuple(e) for e in c['errs']])      # the id is resolved once before the classes exist
        reg = register_late()
    ok = compare(ctx, reg, [tuple(e) for e in c['errs']], c['class'])
    for m in ctx.mismatches:
        print('REPRODUCED', m.signature, m.detail)
    return 0 if ok else 1


META = {
    'category': 'model_checking',
    'text': ('RpcErrors.tla models from_errors as the candidate-by-candidate walk the code performs and states "most specific registered class" '
             'declaratively; TLC checks that they agree on every error list over the id pool with the registry read from the running code; every '
             'terminal state is replayed through RpcError.from_errors and the exception class compared.'),
    'design_ref': 'DESIGN.md section 5 C27',
    'note': 'Trusted: registry extraction (RpcError.__handlers__), id pool. Exhaustive over ~1.2k (quick) / ~2.4k ids x lists of <= 2 (3) errors. No Leg C: from_errors is a pure function, its recorded calls would repeat Leg B.',
    'technique': 'TLA+ spec + TLC exhaustive model checking; spec-behaviour replay into RpcError.from_errors',
}
