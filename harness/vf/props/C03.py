"""C03 - COMPARE and ordered collections follow the Tezos total order.  Specs: MichSem.tla (Cmp, SetIns, MapPut), CmpLaws.tla, VM.tla."""
import itertools
from .. import terms

from .. import vmfam, vmreplay
from ..tlaparse import to_tla
from ..vmfam import *   # noqa
from . import C01

KH = lambda tag, fill, last=None: ('o', (tag,) + (fill,) * 19 + ((fill if last is None else last),))
KEY = lambda tag, n, first, fill: ('o', (tag, first) + (fill,) * (n - 1))
SIG = lambda fill, last: ('o', (fill,) * 63 + (last,))


def pools(quick):
    P_ = {}
    P_[INT] = [i(-2), i(-1), i(0), i(1), i(300)]
    P_[NAT] = [i(0), i(1), i(2), i(256)]
    P_[MUTEZ] = [i(0), i(1), i(1000000)]
    P_[TS] = [i(-1), i(0), i(1600000000)]
    P_[STR] = [s(''), s('a'), s('ab'), s('b'), s('B')]
    P_[BYT] = [b([]), b([0]), b([0, 1]), b([1]), b([255]), b([1, 0])]
    P_[BOOL] = [T_, F_]
    P_[UNIT] = [U]
    P_[('key_hash',)] = [KH(0, 0), KH(0, 255), KH(1, 0), KH(1, 7), KH(2, 0, 1), KH(2, 255), KH(3, 0), KH(3, 128)]
    P_[ADDR] = [addr(0, 0), addr(0, 255), addr(1, 1), addr(2, 2), addr(3, 3), addr(4, 0), addr(4, 255), addr(6, 0), addr(6, 9),
                addr(4, 0, 'a'), addr(4, 0, 'b'), addr(0, 255, 'a'), addr(0, 255, 'ab'), addr(4, 0, 'set_default')]
    P_[('key',)] = [KEY(0, 32, 0, 0), KEY(0, 32, 255, 1), KEY(1, 33, 2, 0), KEY(1, 33, 2, 200), KEY(2, 33, 3, 0), KEY(2, 33, 3, 9),
                    KEY(3, 48, 0, 0), KEY(3, 48, 128, 5),
                    KEY(1, 33, 3, 0), KEY(1, 33, 3, 100), KEY(2, 33, 2, 9), KEY(2, 33, 2, 77)]      # the other y parity: against same-curve keys of the first parity only the order laws are checked
    P_[('signature',)] = [SIG(0, 0), SIG(0, 1), SIG(255, 0), SIG(7, 7)]
    P_[('chain_id',)] = [('o', (0, 0, 0, 0)), ('o', (0, 0, 0, 1)), ('o', (122, 6, 167, 112)), ('o', (255, 0, 0, 0))]
    base = [INT, STR, BOOL]
    if not quick:
        base += [BYT, ADDR]
    def cut(l, n):
        return l[:n]
    for t in list(base):
        P_[OPT(t)] = [none] + [some(v) for v in cut(P_[t], 3)]
    for t, u in itertools.product(base, repeat=2):
        P_[OR(t, u)] = [left(v) for v in cut(P_[t], 2)] + [right(v) for v in cut(P_[u], 2)]
        P_[P(t, u)] = [p(x, y) for x in cut(P_[t], 3) for y in cut(P_[u], 3)]
    # nested
    P_[P(P(INT, INT), INT)] = [p(p(i(x), i(y)), i(z)) for x in (0, 1) for y in (0, 2) for z in (0, 1)]
    P_[P(INT, P(INT, INT))] = [p(i(x), p(i(y), i(z))) for x in (1, 2) for y in (5, 3) for z in (0, 1)]
    P_[OPT(P(INT, STR))] = [none] + [some(p(i(x), s(y))) for x in (1, 2) for y in ('b', 'a')]
    P_[OR(OPT(INT), P(INT, INT))] = [left(none), left(some(i(1))), right(p(i(1), i(5))), right(p(i(2), i(3)))]
    # unit below a constructor: Some Unit / None, Left Unit / Right Unit differ although unit has a single value
    P_[OPT(UNIT)] = [none, some(U)]
    P_[OR(UNIT, UNIT)] = [left(U), right(U)]
    P_[P(UNIT, OPT(UNIT))] = [p(U, none), p(U, some(U))]
    P_[P(OR(INT, STR), OPT(BOOL))] = [p(x, y) for x in (left(i(1)), right(s('a')), left(i(2))) for y in (none, some(T_), some(F_))]
    return P_


def excluded(t, a, b):
    """pairs on which the reference order is not certain enough to alarm (DESIGN C03)"""
    if t == ADDR and a[1] == b[1] and (a[2] == ()) != (b[2] == ()):
        return 'same address, exactly one entrypoint (default-vs-named order)'
    if t == ('key',) and a[1][0] == b[1][0] and a[1][0] in (1, 2) and a[1][1] != b[1][1]:
        return 'secp256k1/P-256 keys with different parity byte'
    return None


def has_excl(t, a, b):
    if t[0] in ('pair', 'or', 'option'):
        return False
    return excluded(t, a, b)


LAWS_MC = """---- MODULE CmpLawsMC ----
EXTENDS CmpLaws
TypesV == %s
ValuesOfV(ty) == %s
====
"""
LAWS_CFG = """SPECIFICATION Spec
CONSTANTS Types <- TypesV
 ValuesOf <- ValuesOfV
INVARIANT WellTyped
INVARIANT Range
INVARIANT Reflexive
INVARIANT Antisymmetric
INVARIANT EqualIsIdentity
INVARIANT Transitive
INVARIANT SetInsertSorted
"""


def run(ctx):
    ctx.rule = ('pool of comparable types (all scalar comparables incl. key_hash/address/key/signature/chain_id by kind and payload class; option/or/pair nestings) '
                'with 2-13 values each. Leg A: TLC checks on every triple that the reference Cmp is a total order and sorted insertion is order-independent. '
                'Leg B: for every ordered pair (a,b) of every type COMPARE in pytezos = Cmp; every insertion sequence of <=3 values into set t / map t unit via '
                'UPDATE must give the reference (sorted, duplicate-free) collection; non-trivial = a # b')
    ctx.assumptions = ['addresses that differ only by the presence of an entrypoint, and secp256k1/P-256 keys with different parity bytes, are outside the compared domain',
                       'address with explicit empty entrypoint excluded']
    P_ = pools(ctx.quick)
    types = list(P_)
    gen = {'CmpLawsMC': LAWS_MC % (to_tla(set(types)), 'CASE ' + '\n   [] '.join('ty = %s -> %s' % (to_tla(t), to_tla(set(vs))) for t, vs in P_.items()))}
    r = ctx.tlc('CmpLawsMC', LAWS_CFG, gen=gen, timeout=1200, coverage=False)
    ctx.require_no_violation(r, 'CmpLaws')
    # ---- Leg B: COMPARE on every ordered pair; insertion into sets and maps ----
    fams = {}
    inits = []
    for t, vs in P_.items():
        for a, b_ in itertools.product(vs, repeat=2):
            why = has_excl(t, a, b_)
            if why:
                ctx.skip('excluded: ' + why)
                law_only(ctx, t, a, b_, why)
                continue
            inits.append((S(t, a), S(t, b_)))
    fams['compare'] = dict(depth=1, maxstack=3, inits=inits, alphabet=[('COMPARE',)])
    nv = 3
    for idx, (t, vs) in enumerate(P_.items()):
        vs = [v for v in vs][: (4 if ctx.quick else 5)]
        if any(has_excl(t, a, b_) for a in vs for b_ in vs):
            vs = [v for v in vs if not (t == ADDR and v[2] != ()) and not (t == ('key',) and v[1][0] in (1, 2) and v[1][1] == 3)]
        ins = [('SEQ', (PUSH(BOOL, T_), PUSH(t, v), ('UPDATEK',))) for v in vs] + [('SEQ', (PUSH(BOOL, F_), PUSH(t, vs[0]), ('UPDATEK',)))]
        fams['set%d' % idx] = dict(depth=nv, maxstack=2, inits=[(S(SET(t), ('set', ())),)], alphabet=ins)
        if idx % 3 == 0 or not ctx.quick:
            put = [('SEQ', (PUSH(OPT(UNIT), some(U)), PUSH(t, v), ('UPDATEK',))) for v in vs]
            fams['map%d' % idx] = dict(depth=nv, maxstack=2, inits=[(S(MAP(t, UNIT), ('map', ())),)], alphabet=put)
    r = C01.run_families(ctx, 'C03', 'order', fams)
    # literals of two keys: accepted iff the model's Cmp says strictly increasing (ordered and deduplicated by the same relation)
    from ..tlaparse import iter_dump
    from .C14 import literal_accepted
    nlit = npy = nann = 0
    hashed = set()
    for st in iter_dump(r.dump):
        if st['fam'] != 'compare' or len(st['hist']) != 1 or st['status'] != 'running':
            continue
        (t, a), (_, b_) = st['init']
        cmpv = st['stack'][0][1][1]
        # annotations are not part of a value: the same two values, one of them living at an annotated type (as storage / parameter values do), compare the same
        if has_inner_pair(t):
            for which in (0, 1):
                got = compare_annotated(t, a, b_, which)
                ctx.count(('cmp-annot', t, a, b_, which), nontrivial=True)
                nann += 1
                if got != cmpv:
                    ctx.mismatch('C03:compare:one-operand-at-annotated-type', 'COMPARE of %s and %s of type %s with the %s operand typed with field/type annotations on its inner pairs gives %s, model Cmp = %d' % (
                        a, b_, t, 'first' if which == 0 else 'second', got, cmpv), {'family': 'cmp-annot', 'type': t, 'a': a, 'b': b_, 'cmp': cmpv})
        # values that are equal (COMPARE = 0; annotations are not part of a value) are one key: wherever pytezos keeps keys in hashed containers
        # (local layer of a big_map, removed keys, Python dict / set objects) equal values must hash alike, whatever annotated type each lives at
        if (t, a) not in hashed:
            hashed.add((t, a))
            try:
                x, y = vmreplay.make_item(t, a), vmreplay.make_item(t, a, annotate=_annotate_all)
                hx, hy = hash(x), hash(y)
            except TypeError:
                hx = hy = None      # not hashable at all: never used as a hashed key
            if hx is not None:
                ctx.count(('hash', t, a), nontrivial=True)
                if x == y and hx != hy:
                    ctx.mismatch('C03:equal-values-hash-apart:%s' % t[0], 'the value %s of type %s and the same value at the annotated type %s are equal (COMPARE = 0) but hash differently: as keys of a hashed container they are two keys' % (
                        a, t, terms.type_json(t)), {'family': 'hash', 'type': t, 'a': a, 'b': a, 'cmp': 0})
                elif not (x == y):
                    ctx.mismatch('C03:same-value-at-annotated-type-not-equal:%s' % t[0], 'the value %s of type %s is not equal to itself at the annotated type' % (a, t), {'family': 'hash', 'type': t, 'a': a, 'b': a, 'cmp': 0})
        if t in (UNIT,) or (ctx.quick and nlit > 1500):
            continue
        for kind, ct in (('set', SET(t)), ('map', MAP(t, UNIT)), ('big_map', ('big_map', t, UNIT))):
            got = literal_accepted(t, ct, (a, b_), 'set' if kind == 'set' else 'map')
            nlit += 1
            ctx.count(('lit', kind, t, a, b_), nontrivial=True)
            if got != (cmpv == -1):
                cls = 'unsorted-or-duplicate-literal-accepted' if got else 'sorted-literal-rejected'
                ctx.mismatch('C03:literal:%s:%s' % (kind, cls), '%s literal {%s ; %s} of key type %s: model Cmp = %d, pytezos %s' % (kind, a, b_, t, cmpv, 'accepts' if got else 'rejects'),
                             {'family': 'literal', 'kind': kind, 'type': t, 'a': a, 'b': b_, 'cmp': cmpv})
            # the same two keys handed over as Python objects (in both orders): the collection built from them is the sorted, duplicate-free one
            if kind != 'big_map' and cmpv != 0:
                for order in ((a, b_), (b_, a)):
                    got_keys = from_python_order(t, ct, order, kind)
                    if got_keys is None:
                        continue
                    want = [a, b_] if cmpv == -1 else [b_, a]
                    want_j = [vmreplay.make_item(t, k).to_micheline_value(mode='readable') for k in want]
                    npy += 1
                    ctx.count(('pyobj', kind, t, order), nontrivial=True)
                    if got_keys != want_j:
                        ctx.mismatch('C03:from-python:%s:%s' % (kind, 'raises' if isinstance(got_keys, str) else 'order'),
                                     '%s of key type %s built by from_python_object from %s: keys come out as %s, the Tezos order gives %s' % (kind, t, order, got_keys, want_j),
                                     {'family': 'pyobj', 'kind': kind, 'type': t, 'a': a, 'b': b_, 'cmp': cmpv})
    # collections of 40 keys built from Python objects handed over in a scrambled order (implementations may switch to another sorting path for large literals)
    import random
    rng = random.Random(ctx.seed + 3)
    big = {ADDR: [addr(k, f) for k in (0, 1, 2, 3, 4, 6) for f in (1, 9, 77, 130, 200, 250, 255)][:40],
           STR: [s(x) for x in sorted({'%s%s' % (a, b_) for a in 'aBz0_' for b_ in ('', 'a', 'B', 'zz', '0', '~', ' ', 'aa')})][:40],
           INT: [i(x) for x in range(-20, 20)]}
    for t, vals in big.items():
        want_vals = sorted(vals, key=lambda v: v[1] if t != ADDR else v[1])       # model order: integers by value, strings and addresses by their bytes
        if t == STR:
            want_vals = sorted(vals, key=lambda v: bytes(v[1]))
        want_j = [vmreplay.make_item(t, k).to_micheline_value(mode='readable') for k in want_vals]
        for kind, ct in (('set', SET(t)), ('map', MAP(t, UNIT))):
            order = list(vals)
            rng.shuffle(order)
            got_keys = from_python_order(t, ct, order, kind)
            if got_keys is None:
                continue
            npy += 1
            ctx.count(('pyobj-large', kind, t), nontrivial=True)
            if got_keys != want_j:
                ctx.mismatch('C03:from-python:%s:%s:40-keys' % (kind, 'raises' if isinstance(got_keys, str) else 'order'),
                             '%s of 40 keys of type %s built by from_python_object: keys come out as %s..., the Tezos order gives %s...' % (kind, t, str(got_keys)[:300], str(want_j)[:300]),
                             {'family': 'pyobj-large', 'kind': kind, 'type': t})
    ctx.replayed += nlit + npy + nann
    ctx.extra['comparisons_with_an_annotated_operand'] = nann
    ctx.extra['collections_built_from_python_objects'] = npy
    ctx.exhaustive = True


def law_only(ctx, t, a, b_, why):
    """Where the reference order between two values is not certain enough to be demanded, the laws of a total order still are:
    the two directions are opposite and distinct values are not equal."""
    x, y = compare_annotated(t, a, b_, -1), compare_annotated(t, b_, a, -1)
    ctx.count(('law', t, a, b_), nontrivial=True)
    if not (isinstance(x, int) and isinstance(y, int) and x == -y and x != 0):
        cls = t[0]
        if t == ('key',):
            cls = 'key:%s:%s' % ({1: 'secp256k1', 2: 'p256'}.get(a[1][0], 'other'), 'same-x-opposite-parity' if a[1][2:] == b_[1][2:] else 'different-x')
        if x == 0 or y == 0:
            cls += ':distinct-values-compare-equal'     # (a different failure than "neither is smaller")
        ctx.mismatch('C03:order-laws:%s' % cls, 'COMPARE of the distinct %s values %s and %s gives %s, in the other direction %s (%s): not a total order' % (t[0], a, b_, x, y, why),
                     {'family': 'law', 'type': t, 'a': a, 'b': b_})


def has_inner_pair(t):
    return isinstance(t, tuple) and len(t) > 1 and ((t[0] == 'pair' and any(isinstance(x, tuple) and x[0] == 'pair' for x in t[1:])) or any(has_inner_pair(x) for x in t[1:] if isinstance(x, tuple)))


def _annotate_inner(tj, depth=0):
    if not isinstance(tj, dict):
        return tj
    out = dict(tj)
    if 'args' in tj:
        out['args'] = [_annotate_inner(a, depth + 1) for a in tj['args']]
    if tj.get('prim') == 'pair' and depth > 0:
        out['annots'] = ['%f' + str(depth), ':t' + str(depth)]
    return out


def _annotate_all(tj, depth=0, parent=None):
    if not isinstance(tj, dict):
        return tj
    out = dict(tj)
    if 'args' in tj:
        out['args'] = [_annotate_all(a, depth + 1, tj.get('prim')) for a in tj['args']]
    out['annots'] = ['%g' + str(depth)] if parent in ('pair', 'or') else [':g' + str(depth)]     # field annotations on components of pair / or only
    return out


def compare_annotated(t, a, b_, which):
    from pytezos.michelson.instructions.base import MichelsonInstruction
    from pytezos.michelson.stack import MichelsonStack
    from pytezos.context.impl import ExecutionContext
    items = [vmreplay.make_item(t, v, annotate=_annotate_inner if k == which else None) for k, v in enumerate((a, b_))]
    st = MichelsonStack(items)
    try:
        MichelsonInstruction.match({'prim': 'COMPARE'}).execute(st, [], ExecutionContext())
        return int(st.items[0])
    except Exception as e:   # noqa
        return 'raises %s: %s' % (type(e).__name__, str(e)[:100])


def from_python_order(t, ct, keys, kind):
    """keys of the set / map pytezos builds from Python objects, as optimized Micheline; None when the value has no Python object form"""
    from pytezos.michelson.types.base import MichelsonType
    from ..vmreplay import make_item
    try:
        objs = [make_item(t, k).to_python_object() for k in keys]
        hash(objs[0])
    except Exception:
        return None
    T = MichelsonType.match(terms.type_json(ct))
    try:
        coll = T.from_python_object(list(objs) if kind == 'set' else dict((o, Unit_()) for o in objs))
        j = coll.to_micheline_value(mode='readable')
    except Exception as e:
        return 'raises %s: %s' % (type(e).__name__, str(e)[:120])
    return [x if kind == 'set' else x['args'][0] for x in j]


def Unit_():
    from pytezos.michelson.types.core import Unit
    return Unit


def replay(ctx, rep):
    c = rep['case']
    if c.get('family') == 'literal':
        from .C14 import literal_accepted
        tup = lambda x: tuple(tup(y) for y in x) if isinstance(x, list) else x
        t, a, b_ = tup(c['type']), tup(c['a']), tup(c['b'])
        ct = SET(t) if c['kind'] == 'set' else (c['kind'], t, UNIT)
        got = literal_accepted(t, ct, (a, b_), 'set' if c['kind'] == 'set' else 'map')
        print('pytezos', 'accepts' if got else 'rejects', '; model Cmp', c['cmp'])
        return 0 if got == (c['cmp'] == -1) else 1
    return C01.replay(ctx, rep)


META = {
    'category': 'model_checking',
    'text': ('The Tezos order is MichSem!Cmp. CmpLaws.tla lets TLC check on every triple of pool values of ~50 comparable types that it is a total order (reflexive, '
             'antisymmetric, equality = identity, transitive) and that sorted insertion is order independent; VM.tla then enumerates COMPARE on every ordered pair '
             'and every insertion sequence of up to 3 values into set t / map t unit, and each behaviour is replayed in pytezos (COMPARE result, resulting collection).'),
    'design_ref': 'DESIGN.md section 5 C03',
    'note': 'Trusted: transcription of the Tezos order (bytes order of the optimized forms for address/key_hash/key/signature/chain_id), terms.py/b58.py concretisation. big_map key order is covered in C15.',
    'technique': 'TLA+ order definition + TLC law checking over value triples; exhaustive pair/insertion-sequence enumeration replayed into pytezos COMPARE / UPDATE',
}
