"""C07 - signing and verification are correct for every key kind.  Spec: KeyFlow.tla (flow "sign")."""
import random

from .. import b58, cryptoref as cr, keyflow as kf
from ..tlc import MachineryError
from ..tlaparse import to_json

INVS = ['SignEnabled', 'SignatureIsSchemeSig', 'VerdictIffUntampered', 'CheckSigSameVerdict', 'EmitDone']
_memo = {}


def memo(curve, key, fn):
    """Identical BLS calls (py_ecc: ~0.7 s each) are evaluated once and shared between scenarios."""
    if curve != 'bl':
        return fn()
    if key not in _memo:
        _memo[key] = fn()
    return _memo[key]


def inputs(seed, curve, k):
    """Seeded key material, message and tamper positions of case k (shared by all scenarios of the curve)."""
    rng = random.Random(cr.h('c07', seed, curve, k))
    n = 0 if k == 1 else rng.choice([1, 2, 31, 32, 33, 64, 100, 200]) if k % 2 else rng.randint(1, 80)
    msg = rng.randbytes(n)
    rng2 = random.Random(cr.h('c07-bits', seed, curve, k))
    return {'secret': cr.secret_from(curve, ('c07', seed, k)),
            'other': cr.secret_from(curve, ('c07', seed, k, 'other')),
            'msg': msg,
            'msgbit': rng2.randrange(n * 8) if n else None,
            'sigbit': rng2.randrange(cr.SIG_LEN[curve] * 8)}


def replay_case(ctx, sc, k):
    """One scenario of the model (a printed OUT tuple) on seeded case k.
    Returns (agrees, reached): reached = the signing step agreed, so the tamper / verify steps were evaluated."""
    _, _, curve, form, msgform, tamper, kind, verdict, cverdict = sc
    tk, tc = tamper
    case = {'scenario': to_json(sc), 'k': k}
    cname = cr.NAME[curve]
    inp = inputs(ctx.seed, curve, k)
    secret, msg = inp['secret'], inp['msg']
    pub = cr.public_key(curve, secret)
    m_in = kf.in_form(msg, msgform)
    desc = 'curve=%s form=%s msgform=%s tamper=%s secret=%s message=%s' % (cname, form, msgform, tk + ('-' + tc if tc != '-' else ''), secret.hex(), msg.hex())

    # ---- Sign(form, msgform) ----
    def do_sign():
        key = kf.key_from_secret(curve, secret, long_form=(k % 2 == 1))      # every other Ed25519 case holds the key in its 64-byte form
        out = kf.outcome(key.sign, m_in, generic=(form == 'generic'))
        if out[0] == 'ret' and tk == 'none':
            # the signer's own object verifies what it has just signed (its public half is the public key of its secret half)
            own = kf.outcome(key.verify, out[1], m_in)
            if not (own[0] == 'ret' and own[1] is True):
                return ('raise', 'OwnVerify', 'the signing Key object does not verify its own signature: %s' % (own[1:],))
        return out
    o = memo(curve, ('sign', secret, m_in, form), do_sign)
    if o[0] == 'raise':
        ctx.mismatch('C07:sign:%s-%s-raises' % (cname, form),
                     'the model signs in every (curve, form); Key.sign(message, generic=%s) raised %s: %s\n%s' % (form == 'generic', o[1], o[2], desc), case)
        return False, False
    sig = o[1]
    if not isinstance(sig, str) or not sig.startswith(kind):
        ctx.mismatch('C07:sign:%s-%s:wrong-kind' % (cname, form), 'model: signature kind %s, pytezos returned %r\n%s' % (kind, sig, desc), case)
        return False, False
    err = ''
    try:
        raw = b58.check_decode(sig, b58.P[kind])
    except Exception as e:   # noqa
        raw = None
        err = str(e)
    if raw is None or len(raw) != cr.SIG_LEN[curve]:
        ctx.mismatch('C07:sign:%s-%s:bad-encoding' % (cname, form), 'signature %r is not a Base58Check %s of %d bytes (%s)\n%s' % (
            sig, kind, cr.SIG_LEN[curve], err if raw is None else 'payload %d bytes' % len(raw), desc), case)
        return False, False
    # Valid(Pk(key), sig, m): the independent implementation accepts it over Digest(curve, m) of the *bytes* m
    if not memo(curve, ('ref', pub, raw, msg), lambda: cr.verify(curve, pub, raw, msg)):
        ctx.mismatch('C07:sign:%s-%s:%s:independent-verifier-rejects' % (cname, form, msgform),
                     'the reference %s verifier rejects pytezos\' signature %s over Digest(%s, message)\n%s' % (cname, sig, curve, desc), case)
        return False, False

    # ---- Tamper(kind) ----
    vpub, vcurve = pub, curve
    if tk == 'otherkey':
        vpub = cr.public_key(curve, inp['other'])
    elif tk == 'othercurve':
        vcurve = tc
        vpub = cr.public_key(tc, cr.secret_from(tc, ('c07', ctx.seed, k)))
    elif tk == 'twinkey':       # same x, other y parity: a valid point, somebody else's key
        vpub = bytes([pub[0] ^ 1]) + pub[1:]
    elif tk == 'offcurve':      # the nearest x (one bit flipped) that is on no point of the curve
        vpub = cr.offcurve_twin(curve, pub)
    vpk = cr.pk_b58(vcurve, vpub)
    if tk == 'twinkey':
        # the signer's own key is used first (this is what makes the twin a meaningful test: any state kept per key must not leak to it)
        from pytezos.crypto.key import Key
        if Key.from_encoded_key(cr.pk_b58(curve, pub)).verify(sig, m_in) is not True:
            ctx.mismatch('C07:verify:%s:own-key-before-twin' % cname, 'Key.verify under the signer\'s own key does not accept\n%s' % desc, case)
            return False, True
    vsig = sig
    if tk == 'sigbit':
        vsig = b58.check_encode(b58.P[kind], kf.flip(raw, inp['sigbit']))     # still a well-formed signature of the same kind
    vmsg = msg
    if tk == 'msgbit':
        vmsg = kf.flip(msg, inp['msgbit']) if msg else b'\x00'
    vm_in = kf.in_form(vmsg, msgform)
    desc += '\npresented: key=%s signature=%s message=%s' % (vpk, vsig, vmsg.hex())

    # ---- Key.verify (public key only) ----
    def do_verify():
        from pytezos.crypto.key import Key
        return kf.outcome(lambda: Key.from_encoded_key(vpk).verify(vsig, vm_in))
    o = memo(vcurve, ('verify', vpk, vsig, vm_in), do_verify)
    got = 'accept' if (o[0] == 'ret' and o[1] is True) else 'reject'
    ok = True
    tname = tk + ('-' + tc if tc != '-' else '')
    if got != verdict:
        ctx.mismatch('C07:verify:%s:%s:model-%s-got-%s' % (cname, tname, verdict, got),
                     'Key.verify: model %s, pytezos %s (%s)\n%s' % (verdict, got, o[1:], desc), case)
        ok = False
    # the API takes key and signature as text or as the bytes of that text (Union[str, bytes]): the verdict is about what they denote
    o2 = memo(vcurve, ('verify-bytes', vpk, vsig, vm_in), lambda: kf.outcome(lambda: __import__('pytezos.crypto.key', fromlist=['Key']).Key.from_encoded_key(vpk.encode()).verify(vsig.encode(), vm_in)))
    got2 = 'accept' if (o2[0] == 'ret' and o2[1] is True) else 'reject'
    if got2 != verdict:
        ctx.mismatch('C07:verify:%s:%s:given-as-bytes:model-%s-got-%s' % (cname, tname, verdict, got2),
                     'Key.verify with the key and the signature handed over as bytes: model %s, pytezos %s (%s)\n%s' % (verdict, got2, o2[1:], desc), case)
        ok = False
    # the same signature bytes relabelled as a signature of another curve: whatever the bytes are, a secp256k1 / P-256 / Ed25519 key does not accept a
    # signature that says it belongs to another curve, and Key.verify and CHECK_SIGNATURE give one verdict
    if tk == 'none' and form == 'curve' and curve in ('ed', 'sp', 'p2'):
        okind = {'ed': 'spsig1', 'sp': 'p2sig', 'p2': 'edsig'}[curve]
        rsig = b58.check_encode(b58.P[okind], raw)
        o3 = memo(vcurve, ('verify-relabel', vpk, rsig, vm_in), lambda: kf.outcome(lambda: __import__('pytezos.crypto.key', fromlist=['Key']).Key.from_encoded_key(vpk).verify(rsig, vm_in)))
        g3 = 'accept' if (o3[0] == 'ret' and o3[1] is True) else 'reject'
        c3, t3 = memo(vcurve, ('check-relabel', vpk, rsig, vmsg), lambda: kf.check_signature(vpk, rsig, vmsg))
        if c3.startswith('raises-'):
            c3 = 'false'
        if g3 != 'reject' or c3 != 'false':
            ctx.mismatch('C07:relabelled-signature:%s:%s' % (cname, 'verify-accepts' if g3 != 'reject' else 'check_signature-true'),
                         'the signature bytes of a %s key presented under the label %s: Key.verify %s, CHECK_SIGNATURE %s (both must refuse)\n%s' % (cname, okind, g3, c3, desc), case)
            ok = False
    # ---- CHECK_SIGNATURE ----
    c, txt = memo(vcurve, ('check', vpk, vsig, vmsg), lambda: kf.check_signature(vpk, vsig, vmsg))
    if tk == 'offcurve' and c.startswith('raises-'):
        c = cverdict       # no key of the kind exists with these bytes: failing is as good as pushing False (the model's point is: never True)
    if c != cverdict:
        ctx.mismatch('C07:check_signature:%s:%s:model-%s-got-%s' % (cname, tname, cverdict, c),
                     'CHECK_SIGNATURE: model pushes %s, pytezos %s %s\n%s' % (cverdict, c, txt, desc), case)
        ok = False
    if ok and k == 0 and msgform == 'hex':
        ctx.sample({'curve': cname, 'form': form, 'message_form': msgform, 'tamper': tname, 'key': vpk, 'signature': vsig,
                    'message': vmsg.hex(), 'verify': got, 'CHECK_SIGNATURE': c}, limit=8)
    return ok, True


def cases(ctx, curve):
    if curve == 'bl':
        return 1 if ctx.quick else 20
    return 3 if ctx.quick else 200


def run(ctx):
    ctx.rule = ('Leg A: KeyFlow flow "sign" - every (curve, signature form, message form, tamper kind incl. each other curve, and for the ECDSA curves the twin key of opposite parity and an off-curve key) scenario, '
                'stepwise Key.verify (prefix step, scheme step) against the declarative Valid; Leg B: every completed scenario x K seeded '
                'keys/messages (K = 3 quick / 200 thorough; BLS 1 / 20; the untampered curve-form scenario of the three non-BLS curves on 900 / 6000 messages, so that r / s with leading zero bytes occur): pytezos signs, an independent implementation verifies the raw signature over the '
                'model\'s digest, Key.verify (public key only) and CHECK_SIGNATURE must give the model\'s verdict; every evaluated case is non-trivial '
                '(a real signature is produced and checked); cases whose signing step already disagreed are not counted as non-trivial')
    ctx.assumptions = ['symbolic cryptography in the spec; interpreted in replay by hashlib Blake2b, `cryptography` (OpenSSL) Ed25519 / ECDSA secp256k1 / ECDSA P-256 over the 32-byte prehash, own Base58Check',
                       'BLS12-381 has no second implementation in the sandbox: the reference verifier is assembled from py_ecc primitives (pairing, hash-to-curve, min-pk message-augmentation ciphersuite), the library pytezos also uses',
                       'tampered signatures stay well-formed (one bit flipped in the raw 64/96 bytes, re-encoded with the same Base58 kind); an exception from Key.verify counts as reject, CHECK_SIGNATURE must push a bool',
                       'identical BLS calls (same key, signature, message arguments) are evaluated once and shared between scenarios',
                       'no bit flip of a valid signature is itself valid (holds for Ed25519/ECDSA/BLS up to negligible probability)']
    r = ctx.tlc('KeyFlow', kf.cfg(['sign'], INVS), workers=1, timeout=300)
    ctx.require_no_violation(r, 'KeyFlow(sign)')
    ctx.require_coverage(r, ['Gen', 'Sign', 'Tamper', 'VerifyPrefix', 'VerifyCrypto', 'CheckSignature'])
    # the named deviation (what key.py does today) must be exhibited by TLC as a violation of SignEnabled: the model can see the defect
    r2 = ctx.tlc('KeyFlow', kf.cfg(['sign'], INVS, as_coded=True), name='KeyFlow_ascoded', workers=1, timeout=300, coverage=False)
    if r2.violation != 'SignEnabled':
        raise MachineryError('Dev_SigPrefix should violate SignEnabled, TLC says %s' % r2.violation)
    ctx.notes.append('KeyFlow with AsCoded=TRUE (generic kind `sig` for every curve): TLC reports SignEnabled violated for the BLS key, as expected')
    outs = [v for v in r.printed if v[0] == 'OUT' and v[1] == 'sign']
    if len(outs) != (7 + 7 + 9 + 9) * 2 * 3:
        raise MachineryError('expected 192 scenarios, TLC printed %d' % len(outs))
    for sc in outs:
        curve = sc[2]
        kk = cases(ctx, curve)
        if curve != 'bl' and sc[3] == 'curve' and sc[4] == 'bytes' and sc[5][0] == 'none':
            # signature components with leading zero bytes occur once in ~128 signatures: the plain sign/verify scenario is
            # replayed on many more seeded messages so that short r / s values are certainly met
            kk = 900 if ctx.quick else 6000
        for k in range(kk):
            ok, reached = replay_case(ctx, sc, k)
            ctx.replayed += 1
            ctx.count((sc, k), nontrivial=reached)
    ctx.exhaustive = True


def replay(ctx, rep):
    c = rep['case']
    if 'scenario' not in c:
        return 0
    sc = c['scenario']
    sc = tuple(tuple(x) if isinstance(x, list) else x for x in sc)
    ok, _ = replay_case(ctx, sc, c['k'])
    for m in ctx.mismatches:
        print('REPRODUCED', m.signature, m.detail)
    return 0 if ok else 1


META = {
    'category': 'model_checking',
    'text': ('KeyFlow.tla models keys, digests and signatures as uninterpreted constructors and the flow Gen / Sign(form, message form) / Tamper(kind) / '
             'Key.verify in two steps / CHECK_SIGNATURE. TLC checks over the complete scenario table (4 curves x 2 forms x 3 message forms x 7 tamper kinds) that '
             'signing is enabled for every (curve, form), that the stepwise verification accepts exactly the untampered triple and that CHECK_SIGNATURE is the same '
             'function; a second run with the as-coded prefix rule exhibits the missing generic BLS encoding as a violation. Every scenario is replayed on seeded real '
             'keys and messages: pytezos signs, an independent implementation verifies, Key.verify and CHECK_SIGNATURE must give the model\'s verdict.'),
    'design_ref': 'DESIGN.md section 5 C07, section 3.4, section 6 row 14, section 9',
    'note': ('The cryptographic equalities are not in the TLA+ model: they are checked during replay by interpreting the symbolic constructors with a second implementation '
             '(harness/vf/cryptoref.py); the specification contributes the scenario table and the accept/reject logic. Trusted: cryptoref.py, b58.py, `cryptography`/OpenSSL. '
             'BLS is verified with py_ecc primitives only (no independent implementation). Bounds: 168 scenarios x 3 (200 thorough) seeded cases, BLS x 1 (20); '
             'messages 0..200 bytes; single-bit alterations at seeded positions.'),
    'technique': 'TLA+ spec (symbolic cryptography) + TLC exhaustive model checking; spec-scenario replay into Key.sign / Key.verify / CHECK_SIGNATURE with an independent verifier as interpretation',
}
