"""X01 (not a listed property: growth of the specification) - ShellQuery.wait_blocks follows BlockWait.tla."""
import json

from .. import boundary
from ..tlaparse import iter_dump, to_json

CFG = """SPECIFICATION Spec
CONSTANTS MaxBlocks = %d
 BlockTimeout = %d
 MaxPolls = %d
 YieldCurrent = %s
 StartLevel = 10
INVARIANT NoRepeat
INVARIANT DoneMeansLevelReached
INVARIANT TimeoutOnlyAfterSilence
INVARIANT FollowsHead
INVARIANT YieldCount
INVARIANT NeverStuckBeforeLimit
"""


def make_node(hist):
    from pytezos.rpc.node import RpcError, RpcNode

    class Resp:
        def __init__(self, data):
            self._d = data
            self.status_code = 200
            self.text = json.dumps(data)

        def json(self):
            return self._d

    class BlockNode(RpcNode):
        def __init__(self):
            super().__init__('http://blocks.invalid')
            self.head = (1, 10)
            self.next_id = 2
            self.levels = {1: 10}
            self.script = list(hist)
            self.polls = 0
            self.exhausted = False

        def request(self, method, path, **kw):
            if path.endswith('blocks/head/hash'):
                if not self.script:
                    self.exhausted = True
                    raise RpcError('script exhausted')
                k = self.script.pop(0)
                self.polls += 1
                if k != 'same':
                    lvl = self.head[1] + {'next': 1, 'reorg': 0, 'back': -1}[k]
                    self.head = (self.next_id, lvl)
                    self.levels[self.next_id] = lvl
                    self.next_id += 1
                return Resp('B%d' % self.head[0])
            if '/blocks/B' in path and path.endswith('/header'):
                bid = int(path.split('/blocks/B')[1].split('/')[0])
                return Resp({'level': self.levels[bid], 'timestamp': '2020-01-01T00:00:00Z', 'hash': 'B%d' % bid})
            raise RpcError('unexpected path ' + path)
    return BlockNode()


def observe(hist, max_blocks, block_timeout, yield_current):
    from pytezos.rpc.node import RpcError
    from pytezos.rpc.shell import ShellQuery
    node = make_node(hist)
    sh = ShellQuery(node=node)
    out, status = [], 'poll'
    try:
        for h in sh.wait_blocks('B1', max_blocks=max_blocks, yield_current=yield_current, time_between_blocks=0, block_timeout=block_timeout):
            out.append(int(h[1:]))
        status = 'done'
    except TimeoutError:
        status = 'timeout'
    except RpcError:
        status = 'poll' if node.exhausted else 'error'
    return out, status, node.polls


def run(ctx):
    boundary.install()     # time.sleep must not sleep
    ctx.rule = 'every node behaviour (same / next block / same-level reorg / one-level-back reorg per poll) up to the poll bound, for max_blocks 1..2, block_timeout 2..3, yield_current both ways'
    ctx.assumptions = ['the node is simulated by an RpcNode subclass; sleep is stubbed; wall-clock dependent sleep durations are not compared']
    for mb in (1, 2):
        for bt in (2, 3):
            for yc in (False, True):
                r = ctx.tlc('BlockWait', CFG % (mb, bt, 5 if ctx.quick else 7, 'TRUE' if yc else 'FALSE'), name='BlockWait_%d_%d_%d' % (mb, bt, yc), dump=True, coverage=False)
                ctx.require_no_violation(r, 'BlockWait')
                for st in iter_dump(r.dump):
                    hist = st['hist']
                    if not hist:
                        continue
                    got = observe(hist, mb, bt, yc)
                    want = (list(st['yielded']), st['pc'], len(hist))
                    ctx.replayed += 1
                    ctx.count((mb, bt, yc, hist), nontrivial=any(k != 'same' for k in hist))
                    if got != want:
                        ctx.mismatch('X01:wait_blocks:%s' % ('yields' if got[0] != want[0] else 'status' if got[1] != want[1] else 'polls'),
                                     'max_blocks=%d block_timeout=%d yield_current=%s node=%s: pytezos yielded %s status %s after %d polls; model %s %s %d' % (
                                         mb, bt, yc, list(hist), got[0], got[1], got[2], want[0], want[1], want[2]), {'hist': to_json(hist), 'mb': mb, 'bt': bt, 'yc': yc})
                    elif len(hist) >= 4:
                        ctx.sample({'node': hist, 'yielded': st['yielded'], 'status': st['pc']}, limit=3)
    ctx.exhaustive = True


def replay(ctx, rep):
    return 0


META = {'category': 'model_checking', 'text': 'growth of the specification: BlockWait.tla', 'design_ref': 'DESIGN.md 11.7', 'note': 'not a listed property', 'technique': 'TLA+ + TLC + replay'}
