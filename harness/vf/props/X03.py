"""X03 (not a listed property: growth of the specification) - the path algebra of the RPC query layer
(RpcQuery attribute/item/call, class dispatch by path, ShellQuery shortcuts, BlocksQuery / BlockSliceQuery item protocol,
OperationListListQuery / ProposalsQuery / PendingOperationsQuery lookups) follows RpcPath.tla, RpcPathBlocks.tla, RpcPathOps.tla.

Leg A: TLC checks the declarative invariants on the three bounded state machines.
Leg B: every state / case TLC enumerated is replayed through ShellQuery on top of a real RpcNode whose
`requests.request` (library boundary) is replaced by a recorder that plays a small chain; class, path, every
request (method, URL, query parameters) and the result are compared with the model."""
import json, os

from .. import boundary, fastdump
from ..tlaparse import to_json, to_tla

BASE = 'http://x03.invalid'
# VERIF_X03_FIXED=1: the three modelled defects are taken as repaired (to try a patch against the intended behaviour)
AS_CODED = os.environ.get('VERIF_X03_FIXED') != '1'

# ------------------------------------------------------------------ library boundary
REQS = []            # (method, url-path segments, frozenset of (key, str(value)))
RESPOND = [None]     # function(segments, params) -> JSON-able answer, or raises KeyError for 404


def _recorder(method=None, url=None, **kw):
    assert url.startswith(BASE + '/'), url
    rest = url[len(BASE) + 1:]
    segs = tuple(rest.split('/')) if rest else ()
    params = frozenset((k, str(v)) for k, v in (kw.get('params') or {}).items() if v is not None)
    REQS.append((method, segs, params))
    try:
        data = RESPOND[0](segs, dict(params))
    except KeyError:
        return boundary.make_response(404, 'text/plain', 'not found')
    return boundary.make_response(200, 'application/json', json.dumps(data))


def install():
    boundary.install()
    import requests
    requests.request = _recorder


def shell():
    from pytezos.rpc.node import RpcNode
    from pytezos.rpc.shell import ShellQuery
    return ShellQuery(node=RpcNode(BASE))


def val(v):
    return v[1]


def norm(x):
    """JSON-able canonical form of an observation (tuples -> lists, sets -> sorted lists)"""
    if isinstance(x, (set, frozenset)):
        return sorted(norm(y) for y in x)
    if isinstance(x, (tuple, list)):
        return [norm(y) for y in x]
    return x


# ------------------------------------------------------------------ part 1: RpcPath
MC1 = """---- MODULE RpcPathMC ----
EXTENDS RpcPath
ItemValsV == %s
CallParamsV == {{}, {<<"k", "v">>}}
====
"""
CFG1 = """SPECIFICATION Spec
CONSTANTS MaxDepth = 8
 ItemVals <- ItemValsV
 OffNames = {"header"}
 ShortDepth = %d
 MaxOdd = %d
 MaxVar = %d
 CallParams <- CallParamsV
INVARIANT Balanced
INVARIANT UrlIsJoinedSegments
INVARIANT NoTemplateLeak
INVARIANT RequestIsPath
INVARIANT ClassIsMostSpecific
INVARIANT ConfusionLosesClass
INVARIANT ShortcutIsLongForm
INVARIANT Associative
INVARIANT Unambiguous
INVARIANT IntentIsDeclarative
"""


def respond_generic(segs, params):
    if segs[-1:] == ('hash',):
        return 'BHEAD'
    if segs[-1:] == ('metadata',):
        return {'level_info': {'cycle': 3, 'voting_period': 2, 'level': 100, 'cycle_position': 1, 'voting_period_position': 1}}
    if segs[-2:] == ('votes', 'proposals'):
        return []
    return {}


def observe_path(hist, call):
    """-> (class name, path, requests)"""
    del REQS[:]
    RESPOND[0] = respond_generic
    q = shell()
    for st in hist:
        if st[0] == 'item':
            q = q[val(st[1])]
        else:
            q = getattr(q, st[1])
    out = [type(q).__name__, q.path]
    if call is not None:
        q(**dict(call))
    return out[0], out[1], list(REQS)


def run_path(ctx):
    quick = ctx.quick
    items = {('s', 'x1'), ('i', 7)}
    r = ctx.tlc('RpcPathMC', CFG1 % (2 if quick else 8, 1 if quick else 2, 1 if quick else 2), gen={'RpcPathMC': MC1 % to_tla(items)}, name='RpcPath', dump=True,
                coverage=False, workers=4, timeout=1500)
    ctx.require_no_violation(r, 'RpcPath')
    seen_actions = set()
    deviations = {}
    for st in fastdump.iter_dump(r.dump):
        hist = st['hist']
        for h in hist:
            seen_actions.add(h[0])
        if st['cls'] != st['intent'] and st['cls'] not in ('CyclesQuery', 'VotingPeriodsQuery'):
            kind = 'item access with a registered literal' if any(h[0] == 'item' and h[1][0] == 's' and h[1][1] != 'x1' for h in hist) else 'attribute in a parameter slot'
            deviations.setdefault(kind, []).append(st)
        if st['phase'] != 'called':
            continue            # every build state has a called successor with the same history
        seen_actions.add('call')
        want_log = [(m, tuple(u), frozenset(tuple(p) for p in ps)) for m, u, ps in st['log']]
        call = sorted(tuple(p) for p in st['given'])
        want = (st['cls'], '/'.join(('',) + tuple(st['texts'])), want_log)
        try:
            got = observe_path(hist, call)
        except Exception as e:  # noqa
            got = ('exception', repr(e), list(REQS))
        ctx.replayed += 1
        ctx.count(hist, nontrivial=len(hist) > 1)
        if got != want:
            what = 'class' if got[0] != want[0] else 'path' if got[1] != want[1] else 'requests'
            ctx.mismatch('X03:path:%s:%s' % (what, want[0] if what == 'class' else 'generic'),
                         'steps %s call %s: pytezos class %s path %s requests %s; model class %s path %s requests %s' % (
                             to_json(hist), call, got[0], got[1], got[2], want[0], want[1], want[2]), {'part': 'path', 'hist': to_json(hist), 'call': to_json(call), 'want': norm(want)})
        elif len(hist) >= 5 and st['odd'] == 0:
            ctx.sample({'steps': hist, 'class': st['cls'], 'requests': st['log']}, limit=2)
    if not {'short', 'attr', 'item', 'call'} <= seen_actions:
        raise RuntimeError('vacuity: step kinds seen %s' % sorted(seen_actions))
    for kind, sts in sorted(deviations.items()):
        ex = min(sts, key=lambda s: (s['hist'][-1] not in (('item', ('s', 'operations')), ('attr', 'header')) or s['hist'][0][0] != 'short', len(s['hist']), repr(s['hist'])))
        print('INFO X03 deviation (modelled as coded, RpcPath!Lookup): class dispatch depends on the access kind - %s: %d states, e.g. steps %s give %s, the path /%s is a %s' % (
            kind, len(sts), json.dumps(to_json(ex['hist'])), ex['cls'], '/'.join(ex['texts']), ex['intent']))
    ctx.extra['path_deviation_states'] = {k: len(v) for k, v in deviations.items()}


# ------------------------------------------------------------------ part 2: RpcPathBlocks
def _hash(prefix, n):
    from ..b58ref import b58check
    return b58check(prefix, bytes([n]) * 32)


BH = {n: _hash(b'\x01\x34', n) for n in range(0, 12)}        # block hash of level n
OGH = {n: _hash(b'\x05\x74', n) for n in range(0, 12)}       # operation hashes
PID = {n: _hash(b'\x02\xaa', n) for n in range(0, 12)}       # proposal (protocol) hashes
BLOCKS = ('chains', 'main', 'blocks')

MC2 = """---- MODULE RpcPathBlocksMC ----
EXTENDS RpcPathBlocks
StrIdsV == %s
IntsV == {%s}
IdxV == {%s}
====
"""
CFG2 = """SPECIFICATION Spec
CONSTANTS MaxH = %d
 AsCoded = %s
 Ints <- IntsV
 StrIds <- StrIdsV
 Idx <- IdxV
INVARIANT OffsetFromHead
INVARIANT Verbatim
INVARIANT NoNegativeLevel
INVARIANT NegStopCallFails
INVARIANT RangeIsDeclared
INVARIANT IndexInsideRange
INVARIANT CallListsRange
INVARIANT CallListsRangeNegStart
INVARIANT NegStartCallAsCoded
INVARIANT MissingIsError
INVARIANT NoStartIsRejected
"""


def id_py(i):
    """model block id -> the Python argument"""
    if i[0] == 'lvl':
        return i[1]
    if i[0] == 'head':
        return 'head' if i[1] == 0 else 'head~%d' % i[1]
    if i[0] == 'genesis':
        return 'genesis'
    if i[0] == 'hash':
        return BH[i[1]]
    if i[0] == 'none':
        return None
    raise ValueError(i)


def chain_responder(h):
    """a node with blocks of level 0..h"""
    def resolve(text):
        if text == 'genesis':
            return 0
        if text == 'head':
            return h
        if text.startswith('head~'):
            lvl = h - int(text[5:])
        elif text in BH.values():
            lvl = [k for k, v in BH.items() if v == text][0]
        elif text.isdigit():
            lvl = int(text)
        else:
            raise KeyError(text)
        if not 0 <= lvl <= h:
            raise KeyError(text)
        return lvl

    def respond(segs, params):
        if segs[:3] == BLOCKS and len(segs) == 5 and segs[4] == 'header':
            lvl = resolve(segs[3])
            return {'level': lvl, 'hash': BH[lvl], 'predecessor': BH[max(0, lvl - 1)]}
        if segs == BLOCKS:
            lvl = resolve(params['head'])
            n = int(params.get('length', 1))
            return [[BH[k] for k in range(lvl, max(-1, lvl - n), -1)]]
        raise KeyError(segs)
    return respond


def observe_blocks(h, arg, op):
    from pytezos.rpc.node import RpcError
    del REQS[:]
    RESPOND[0] = chain_responder(h)
    blocks = shell().blocks
    try:
        if arg[0] == 'id':
            q = blocks[id_py(arg[1])]
        else:
            q = blocks[id_py(arg[1]):id_py(arg[2])]
            if op[0] == 'call':
                q = ('hashes', q())
            elif op[0] == 'range':
                q = ('range',) + tuple(q.get_range())
            else:
                q = q[op[1]]
        if isinstance(q, tuple):
            res = q
        else:
            res = ('block', type(q).__name__, q.path)
    except NotImplementedError:
        res = ('error', 'NotImplementedError')
    except RpcError:
        res = ('error', 'RpcError')
    return res, list(REQS)


def want_blocks(st):
    res = st['res']
    if res[0] == 'block':
        res = ('block', 'BlockQuery', '/chains/main/blocks/%s' % id_py(res[1]))
    elif res[0] == 'hashes':
        res = ('hashes', [[BH[l] for l in res[1]]])
    log = []
    for e in st['log']:
        if e[0] == 'hdr':
            log.append(('GET', BLOCKS + (str(id_py(e[1])), 'header'), frozenset()))
        else:
            log.append(('GET', BLOCKS, frozenset({('length', str(e[1])), ('head', BH[e[2]])})))
    return tuple(res), log


def arg_class(arg, op):
    if arg[0] == 'id':
        return 'id-%s%s' % (arg[1][0], '-neg' if arg[1][0] == 'lvl' and arg[1][1] < 0 else '')
    a, b = arg[1], arg[2]
    return 'slice-%s%s-%s%s-%s' % (a[0], '-neg' if a[0] == 'lvl' and a[1] < 0 else '', b[0], '-neg' if b[0] == 'lvl' and b[1] < 0 else '', op[0])


def run_blocks(ctx):
    from pytezos.crypto.encoding import is_bh
    assert all(is_bh(v) for v in BH.values())
    strids = {('head', 0), ('head', 1), ('head', 5), ('genesis',), ('hash', 1), ('hash', 2), ('hash', 9)}
    if ctx.quick:
        maxh, ints, idx = 2, '-3, -1, 0, 1, 2, 3', '0, 1, -1'
    else:
        maxh, ints, idx = 4, '-5, -3, -2, -1, 0, 1, 2, 3, 4, 5', '0, 1, 2, -1, -2'
    r = ctx.tlc('RpcPathBlocksMC', CFG2 % (maxh, 'TRUE' if AS_CODED else 'FALSE'), gen={'RpcPathBlocksMC': MC2 % (to_tla(strids), ints, idx)}, name='RpcPathBlocks', dump=True, coverage=False, workers=4, timeout=1500)
    ctx.require_no_violation(r, 'RpcPathBlocks')
    pcs, dev = set(), {'neg-stop-call': [], 'neg-start-call': []}
    for st in fastdump.iter_dump(r.dump):
        pcs.add(st['pc'])
        if st['pc'] != 'done':
            continue
        arg, op, h = st['arg'], st['op'], st['H']
        if arg[0] == 'slice' and (arg[1] == ('lvl', 0) or (arg[1][0] == 'head' and h - arg[1][1] == 0) or arg[1] == ('hash', 0)):
            ctx.skip('blocks[0:..]: whether level 0 (genesis) belongs to the range is not stated anywhere; the code starts at level 1')
            continue
        if arg[0] == 'id' and arg[1][0] == 'lvl' and h + arg[1][1] < 0:
            ctx.skip('blocks[-k] with k beyond genesis: clamped to level 0 by the code, not stated anywhere')
            continue
        want = want_blocks(st)
        try:
            got = observe_blocks(h, arg, op)
        except Exception as e:  # noqa
            got = (('exception', repr(e)), list(REQS))
        ctx.replayed += 1
        ctx.count((h, arg, op), nontrivial=len(st['log']) > 0)
        if arg[0] == 'slice' and op[0] == 'call' and arg[1][0] == 'lvl':
            if arg[2][0] == 'lvl' and arg[2][1] < 0:
                dev['neg-stop-call'].append(st)
            elif arg[1][1] < 0 and st['res'][0] == 'hashes':
                dev['neg-start-call'].append(st)
        if got != want:
            what = 'result' if got[0] != want[0] else 'requests'
            ctx.mismatch('X03:blocks:%s:%s' % (arg_class(arg, op), what),
                         'head level %d, blocks[%s] %s: pytezos %s requests %s; model %s requests %s' % (h, to_json(arg), to_json(op), got[0], got[1], want[0], want[1]),
                         {'part': 'blocks', 'H': h, 'arg': to_json(arg), 'op': to_json(op), 'want': norm(want)})
        elif arg[0] == 'slice' and len(st['log']) >= 2:
            ctx.sample({'head_level': h, 'arg': arg, 'op': op, 'requests': st['log'], 'result': st['res']}, limit=4)
    if not {'done', 'slice', 'call2', 'range2', 'range3'} <= pcs:
        raise RuntimeError('vacuity: control points seen %s' % sorted(pcs))
    if not AS_CODED:
        return
    if dev['neg-stop-call']:
        ex = max(dev['neg-stop-call'], key=lambda s: (s['arg'][1][1] >= 1, s['H']))
        print('INFO X03 deviation (modelled as coded, RpcPathBlocks!CallHeader): blocks[a:-k]() addresses the stop block as level "-k" (%d cases, all end in RpcError), e.g. head level %d blocks[%s:%s]() requests %s' % (
            len(dev['neg-stop-call']), ex['H'], id_py(ex['arg'][1]), id_py(ex['arg'][2]), json.dumps(to_json(ex['log']))))
    if dev['neg-start-call']:
        ex = max(dev['neg-start-call'], key=lambda s: (s['H'], s['arg'][1][1], s['arg'][2] == ('none',)))
        print('INFO X03 deviation (modelled as coded, RpcPathBlocks!CallLengthAsCoded): blocks[-k:stop]() lists k blocks back from stop, get_range()/[i] take the same slice as the levels head-k..stop '
              '(%d cases), e.g. head level %d blocks[%s:%s]() lists levels %s' % (len(dev['neg-start-call']), ex['H'], id_py(ex['arg'][1]), id_py(ex['arg'][2]), list(ex['res'][1])))


# ------------------------------------------------------------------ part 3: RpcPathOps
CFG3 = """SPECIFICATION Spec
CONSTANTS NP = 4
 OpIds = {1, 2%s}
 Missing = 9
 Pids = {1, 2%s}
 Rolls = {5, 9}
 AsCoded = %s
INVARIANT HashResolves
INVARIANT DirectForms
INVARIANT RollsOfListing
INVARIANT PendingFound
INVARIANT FlattenComplete
"""
HEADP = BLOCKS + ('head',)
PASS_NAMES = ('endorsements', 'votes', 'anonymous', 'managers')


def ops_responder(mode, content):
    def respond(segs, params):
        if mode == 'ops' and segs == HEADP + ('operation_hashes',):
            return [[OGH[o] for o in p] for p in content]
        if mode == 'prop' and segs == HEADP + ('votes', 'proposals'):
            return [[PID[p], r] for p, r in content]
        if mode in ('pend', 'flat') and segs == ('chains', 'main', 'mempool', 'pending_operations'):
            def entry(e):
                o, f = e
                return {'hash': OGH[o], 'branch': BH[1]} if f == 'dict' else [OGH[o], {'branch': BH[1], 'error': [{'id': 'some.error'}]}]
            return {'applied': [entry(e) for e in content[0]], 'refused': [entry(e) for e in content[1]]}
        raise KeyError(segs)
    return respond


def observe_ops(mode, content, arg):
    del REQS[:]
    RESPOND[0] = ops_responder(mode, content)
    sh = shell()
    try:
        if mode == 'ops':
            ops = sh.head.operations
            a = arg
            q = (ops[a[1]] if a[0] in ('int', 'str') else ops[a[1], a[2]] if a[0] == 'pair' else getattr(ops, PASS_NAMES[a[1] - 1]) if a[0] == 'name' else ops[OGH[a[1]]])
            pre = '/chains/main/blocks/head/operations/'
            assert q.path.startswith(pre), q.path
            res = ('path', tuple(q.path[len(pre):].split('/')), type(q).__name__)
        elif mode == 'prop':
            q = sh.head.votes.proposals[PID[arg[1]]]
            assert (type(q).__name__, q.path) == ('ProposalQuery', '/chains/main/blocks/head/votes/proposals/' + PID[arg[1]]), (type(q), q.path)
            res = ('rolls', q())
        elif mode == 'pend':
            d = sh.mempool.pending_operations[OGH[arg[1]]]
            res = ('found', d['metadata']['operation_result']['status'], [k for k, v in OGH.items() if v == d['hash']][0])
        else:
            ds = sh.mempool.pending_operations.flatten()
            res = ('all', tuple((d['metadata']['operation_result']['status'], [k for k, v in OGH.items() if v == d['hash']][0]) for d in ds))
    except StopIteration:
        res = ('error', 'StopIteration')
    except AttributeError:
        res = ('error', 'AttributeError')
    return res, list(REQS)


def want_ops(st):
    res = st['res']
    if res[0] == 'path':
        res = ('path', tuple(str(x) for x in res[1]), res[2])
    elif res[0] == 'all':
        res = ('all', tuple(tuple(x) for x in res[1]))
    url = {'operation_hashes': HEADP + ('operation_hashes',), 'proposals': HEADP + ('votes', 'proposals'),
           'pending_operations': ('chains', 'main', 'mempool', 'pending_operations')}
    return tuple(res), [('GET', url[e[0]], frozenset()) for e in st['log']]


def run_ops(ctx):
    from pytezos.crypto.encoding import is_ogh
    assert all(is_ogh(v) for v in OGH.values())
    r = ctx.tlc('RpcPathOps', CFG3 % ('' if ctx.quick else ', 3', '' if ctx.quick else ', 3', 'TRUE' if AS_CODED else 'FALSE'), name='RpcPathOps', dump=True, coverage=False, workers=4, timeout=1500)
    ctx.require_no_violation(r, 'RpcPathOps')
    modes, crashes = set(), []
    for st in fastdump.iter_dump(r.dump):
        if st['pc'] != 'done':
            continue
        mode, content, arg = st['mode'], st['content'], st['arg']
        modes.add((mode, st['res'][0]))
        want = want_ops(st)
        try:
            got = observe_ops(mode, content, arg)
        except Exception as e:  # noqa
            got = (('exception', repr(e)), list(REQS))
        ctx.replayed += 1
        ctx.count((mode, content, arg), nontrivial=len(st['log']) > 0)
        if st['res'] == ('error', 'AttributeError'):
            crashes.append(st)
        if got != want:
            what = 'result' if got[0] != want[0] else 'requests'
            ctx.mismatch('X03:%s:%s:%s' % (mode, arg[0], what), '%s content %s argument %s: pytezos %s requests %s; model %s requests %s' % (
                mode, to_json(content), to_json(arg), got[0], got[1], want[0], want[1]), {'part': 'ops', 'mode': mode, 'content': to_json(content), 'arg': to_json(arg), 'want': norm(want)})
        elif st['i'] >= 2:
            ctx.sample({'mode': mode, 'content': content, 'arg': arg, 'result': st['res']}, limit=6)
    need = {('ops', 'path'), ('ops', 'error'), ('prop', 'rolls'), ('pend', 'found'), ('pend', 'error'), ('flat', 'all')}
    if not need <= modes:
        raise RuntimeError('vacuity: outcomes seen %s' % sorted(modes))
    if crashes and AS_CODED:
        ex = min(crashes, key=lambda s: repr(s['content']))
        print('INFO X03 defect (modelled as coded, RpcPathOps!PairFormLookupAsCoded): PendingOperationsQuery.__getitem__ raises AttributeError (dict.pop1) for an operation the node lists in the '
              'pair form [hash, {...}] (%d cases), e.g. mempool %s, pending_operations[<op %d>]; flatten() handles the same answer' % (len(crashes), json.dumps(to_json(ex['content'])), ex['arg'][1]))


def run(ctx):
    install()
    ctx.rule = ('RpcPathBlocks: head level 0..MaxH x every blocks[int | str id | slice] of the bounded argument universe x (call | get_range | index); '
                'RpcPathOps: every placement of 2 operations in 4 passes / every listing of <= 2 proposals / every mempool of <= 4 entries in 2 statuses and 2 formats x every lookup; '
                'RpcPath: every path of <= 8 segments along the registered templates (51 templates) from the ShellQuery root or one of its 7 shortcuts, slots filled by '
                '.main/.head with a bounded number of other fillings (str item, int item, .test/.genesis/...), <= 1 step off the registry or of the other access kind, then a call '
                '(no arguments / one keyword argument)')
    ctx.assumptions = ['requests.request is replaced by a recorder (library boundary); no pytezos function is patched',
                       'the registry (template -> class) in RpcPath.tla is written from the RPC tree, not read from the code',
                       'the node is a chain of levels 0..H answering header / blocks?length&head / operation_hashes / votes/proposals / mempool/pending_operations; 404 for a block that does not exist',
                       'outside the compared domain (counted as skipped or not generated): empty ranges, blocks[0:..], negative offsets beyond genesis, range indices outside the range, slice steps',
                       'three deviations and one defect are modelled as coded (INFO lines); VERIF_X03_FIXED=1 switches the model to the intended behaviour to try a patch']
    run_path(ctx)
    run_blocks(ctx)
    run_ops(ctx)
    ctx.exhaustive = True


def tup(x):
    return tuple(tup(y) for y in x) if isinstance(x, list) else x


def replay(ctx, rep):
    """re-run one recorded case against pytezos and compare with the model's expectation stored in the case"""
    install()
    c = rep['case']
    if c.get('leg') == 'A':
        print('a Leg A violation is reproduced by running the check')
        return 1
    if c['part'] == 'path':
        got = observe_path(tup(c['hist']), [tuple(p) for p in c['call']])
    elif c['part'] == 'blocks':
        got = observe_blocks(c['H'], tup(c['arg']), tup(c['op']))
    else:
        got = observe_ops(c['mode'], tup(c['content']), tup(c['arg']))
    print('pytezos: %s' % json.dumps(norm(got)))
    print('model:   %s' % json.dumps(c['want']))
    if norm(got) != c['want']:
        print('VIOLATION property=X03 replay=(this case)')
        return 1
    return 0


META = {'category': 'model_checking', 'text': 'growth of the specification: RpcPath.tla, RpcPathBlocks.tla, RpcPathOps.tla', 'design_ref': 'DESIGN.md 11.7',
        'note': 'not a listed property', 'technique': 'TLA+ + TLC + replay'}
