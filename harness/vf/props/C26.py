"""C26 - RPC requests retry exactly the transient node failures.  Spec: RpcRetry.tla."""
import json, os, random

from .. import boundary
from ..tlaparse import iter_dump, to_json

CFG = """SPECIFICATION Spec
CONSTANTS MaxAttempts = 6
 InitDelay = 250
 MaxDelay = 2000
 MaxLen = %d
INVARIANT AtMostSix
INVARIANT DelaysMonotoneCapped
INVARIANT OneSleepPerRetry
INVARIANT RetryOnlyTransient
INVARIANT FirstSuccessOrLastError
INVARIANT NoGivingUpEarly
PROPERTY SendOnlyAfterTransient
"""
TCFG = """SPECIFICATION Spec
CONSTANTS MaxAttempts = 6
 InitDelay = 250
 MaxDelay = 2000
 MaxLen = 100
INVARIANT AtMostSix
INVARIANT DelaysMonotoneCapped
INVARIANT RetryOnlyTransient
INVARIANT FirstSuccessOrLastError
POSTCONDITION Accepted
"""


def concrete(resp, k):
    """spec response <<code, shape, errs, marker>> -> requests.Response carrying tag k."""
    code, shape, errs, marker = resp
    mark = ' Assert_failure src/lib_shell/prevalidator.ml:1918:8' if marker else ''
    if marker and k % 2 == 0:
        mark = ' while validating operation 0x' + 'a7' * 1600 + ':' + mark      # the assertion location may come after kilobytes of quoted data
    return _timed(_concrete(code, shape, errs, marker, mark, k), k)


def _timed(r, k):
    """responses take time, and not always the same: the round trip is no part of the retry schedule"""
    import datetime
    r.elapsed = datetime.timedelta(milliseconds=(k * 670) % 2300)
    return r


def _concrete(code, shape, errs, marker, mark, k):
    if shape == 'list':
        body = []
        for j, (proto, temp) in enumerate(errs):
            body.append({'id': ('proto.024-PtTALLiN.some.err%d' if proto else 'node.some.err%d') % j,
                         'kind': 'temporary' if temp else 'permanent', 'tag': k,
                         'msg': 'e%d%s' % (j, mark if j == len(errs) - 1 else '')})
        txt = json.dumps(body)
        if marker and not errs:
            txt = txt + ' '   # cannot carry a marker; alphabet never asks for it
        return boundary.make_response(code, 'application/json', txt)
    if shape == 'object':
        return boundary.make_response(code, 'application/json', json.dumps({'tag': k, 'note': 'x' + mark}))
    if shape == 'invalid':
        return boundary.make_response(code, 'application/json', '{"tag": %d, oops%s' % (k, mark))
    return boundary.make_response(code, 'text/html', '<html>tag=%d%s</html>' % (k, mark))


def observe(script, timeout=None):
    """Run the real RpcNode.request against the scripted node; return boundary events + outcome."""
    from pytezos.rpc.node import RpcNode, RpcError
    tags = {id(r): k + 1 for k, r in enumerate(script)}
    boundary.reset(list(script))
    node = RpcNode('http://node.invalid:8732')
    try:
        res = node.request('GET', 'chains/main/blocks/head/header') if timeout is None else node.request('GET', 'chains/main/blocks/head/header', timeout=timeout)
        out = ('return', tags.get(id(res)))
    except boundary.ScriptExhausted:
        out = ('exhausted',)
    except RpcError as e:
        a = e.args[0] if e.args else None
        if isinstance(a, str) and a.startswith('Unauthorized'):
            out = ('raise', 'unauthorized')
        elif isinstance(a, str) and a.startswith('Not found'):
            out = ('raise', 'notfound')
        else:
            tag = None
            if isinstance(a, dict):
                tag = a.get('tag')
            elif isinstance(a, str) and 'tag' in a:
                import re
                m = re.search(r'tag"?[=:] ?(\d+)', a)
                tag = int(m.group(1)) if m else None
            out = ('raise', 'response', tag)
    except AssertionError:
        out = ('raise', 'response', None)    # JSON body that is not a list: error of that response, untagged
    sends = [tags.get(id(e[1])) for e in boundary.LOG if e[0] == 'send']
    sleeps = [int(round(e[1] * 1000)) for e in boundary.LOG if e[0] == 'sleep']
    order = [e[0] for e in boundary.LOG]
    return sends, sleeps, out, order


def outcome_eq(model, got):
    if model == got:
        return True
    # the raised error of the last response is not always attributable (empty error list, assertion)
    return len(model) == 3 and len(got) == 3 and model[:2] == got[:2] and got[2] is None


def replay_case(ctx, responses, slept, outcome):
    script = [concrete(r, k + 1) for k, r in enumerate(responses)] + [concrete((200, 'object', (), False), 99)]
    sends, sleeps, out, order = observe(script)
    problems = []
    if sends != list(range(1, len(responses) + 1)):
        problems.append(('requests', 'model sent %d request(s), pytezos sent %s' % (len(responses), sends)))
    if sleeps != list(slept):
        problems.append(('sleeps', 'model slept %s ms, pytezos slept %s ms' % (list(slept), sleeps)))
    if not outcome_eq(tuple(outcome), out):
        problems.append(('outcome', 'model outcome %s, pytezos outcome %s' % (outcome, out)))
    want = []
    for k in range(len(responses)):
        want.append('send')
        if k < len(slept):
            want.append('sleep')
    if order != want and not problems:
        problems.append(('order', 'boundary events %s, model %s' % (order, want)))
    for kind, txt in problems:
        ctx.mismatch('C26:replay:' + kind, txt + '\nresponses=%s' % (to_json(responses),),
                     {'responses': to_json(responses), 'slept': list(slept), 'outcome': to_json(outcome)})
    return not problems


def slow_clock_cases(ctx):
    """The retry schedule counts attempts, not seconds: with a short per-request timeout given by the caller and wall-clock time really passing between the
    attempts (30 ms per sleep here, timeout 50 ms), k transient failures followed by a success still end in that success, for every k below the attempt limit."""
    transient = (503, 'list', ((False, True),), False)
    boundary.REAL_SLEEP[0] = 0.03
    try:
        for k in range(1, 6):
            responses = [transient] * k + [(200, 'object', (), False)]
            script = [concrete(r, j + 1) for j, r in enumerate(responses)]
            sends, sleeps, out, order = observe(script, timeout=0.05)
            ctx.count(('slow-clock', k), nontrivial=True)
            ctx.replayed += 1
            if out != ('return', k + 1) or sends != list(range(1, k + 2)):
                ctx.mismatch('C26:wall-clock:outcome', '%d transient failure(s) then a success, timeout=0.05 s, 30 ms really passing per sleep: requests sent %s, outcome %s; the schedule says %d requests and the success' % (
                    k, sends, out, k + 1), {'slow_clock': k})
    finally:
        boundary.REAL_SLEEP[0] = 0.0


def features(rng):
    """A random response, *not* drawn from the spec's alphabet."""
    code = rng.choice([200, 200, 500, 500, 500, 502, 503, 504, 400, 401, 404, 409, 500])
    shape = rng.choice(['list', 'list', 'list', 'text', 'object', 'invalid'])
    errs = []
    if shape == 'list':
        for _ in range(rng.choice([0, 1, 1, 2, 3])):
            errs.append([rng.random() < 0.2, rng.random() < 0.6])
    marker = rng.random() < 0.25 and not (shape == 'list' and not errs)
    if code == 200:
        shape, errs, marker = 'object', [], False
    return [code, shape, errs, marker]


def run(ctx):
    boundary.install()
    ctx.rule = ('Leg A: all response sequences over an 18-class alphabet up to the attempt limit (+1); Leg B: every completed '
                'behaviour of the dump replayed through RpcNode.request with scripted requests.request/time.sleep; a case is '
                'non-trivial if it contains at least one retry or a non-200 final response; Leg C: random response sequences '
                '(not from the alphabet) recorded at the boundary and validated by RpcRetryTrace')
    ctx.assumptions = ['requests.request and time.sleep are replaced at the library boundary; no pytezos code is patched',
                       'responses carrying both a protocol error and the prevalidator marker are outside the compared domain']
    maxlen = 7
    r = ctx.tlc('RpcRetry', CFG % maxlen, dump=True, timeout=600)
    ctx.require_no_violation(r, 'RpcRetry')
    ctx.require_coverage(r, ['Send', 'SleepRetry', 'Finish'])
    n = 0
    for st in iter_dump(r.dump):
        if st['pc'] != 'done':
            continue
        n += 1
        resp, slept, outcome = st['responses'], st['slept'], st['outcome']
        ok = replay_case(ctx, resp, slept, outcome)
        ctx.replayed += 1
        ctx.count((resp,), nontrivial=len(resp) > 1 or resp[-1][0] != 200)
        if len(resp) in (1, 3, 6) and ok:
            ctx.sample({'responses': resp, 'slept_ms': slept, 'outcome': outcome}, limit=4)
    ctx.exhaustive = True
    slow_clock_cases(ctx)
    # ---- Leg C ----
    rng = random.Random(ctx.seed * 7919 + 26)
    ntr = 400 if ctx.quick else 20000
    traces = []
    for t in range(ntr):
        seq = []
        for _ in range(8):
            f = features(rng)
            if rng.random() < 0.55:   # bias towards long retry chains
                f = [rng.choice([500, 502, 503]), 'list', [[False, True]], rng.random() < 0.2]
            if f[1] == 'list' and any(e[0] for e in f[2]) and f[3]:
                f[3] = False     # outside the compared domain
            seq.append(f)
        script = [concrete((f[0], f[1], tuple(tuple(e) for e in f[2]), f[3]), k + 1) for k, f in enumerate(seq)]
        sends, sleeps, out, order = observe(script)
        ev = []
        si = iter(sends)
        sl = iter(sleeps)
        for o in order:
            if o == 'send':
                k = next(si)
                f = seq[k - 1]
                ev.append({'ev': 'send', 'code': f[0], 'shape': f[1], 'errs': f[2], 'marker': f[3]})
            else:
                ev.append({'ev': 'sleep', 'ms': next(sl)})
        o = list(out)
        if len(o) == 3 and o[2] is None:
            o[2] = len(sends)       # unattributable error: the trace spec is told "last response"
        ev.append({'ev': 'done', 'out': o})
        traces.append(ev)
        ctx.count(('c', t), nontrivial=len(sends) > 1)
    validate_traces(ctx, traces, 'C26:trace')


def validate_traces(ctx, traces, sig):
    tf = os.path.join(ctx.wd, 'traces.json')
    json.dump(traces, open(tf, 'w'))
    r = ctx.tlc('RpcRetryTrace', TCFG, name='RpcRetryTrace', workers=1, env={'TRACE_FILE': tf}, timeout=900, coverage=False)
    rejects = [v for v in r.printed if v[0] == 'REJECT']
    if r.violation and not rejects:
        ctx.mismatch(sig + ':invariant:' + str(r.violation), 'invariant %s violated on a recorded trace\n%s' % (r.violation, r.output[-1500:]), {'traces_file': tf})
    for v in rejects:
        tid, l = v[1], v[2]
        ev = traces[tid - 1][l - 1] if l <= len(traces[tid - 1]) else None
        ctx.mismatch(sig + ':' + (ev['ev'] if ev else 'eot'), 'recorded execution is not a behaviour of RpcRetry: %s\ntrace=%s' % (to_json(v), json.dumps(traces[tid - 1])),
                     {'trace': traces[tid - 1]})
    ctx.traces += len(traces) - len(set(v[1] for v in rejects))
    if traces:
        ctx.sample({'recorded_trace': traces[0]}, limit=6)


def replay(ctx, rep):
    boundary.install()
    c = rep['case']
    if 'responses' in c:
        resp = tuple((r[0], r[1], tuple(tuple(e) for e in r[2]), r[3]) for r in c['responses'])
        ok = replay_case(ctx, resp, tuple(c['slept']), tuple(c['outcome']))
    elif 'trace' in c:
        validate_traces(ctx, [c['trace']], 'C26:trace')
        ok = not ctx.mismatches
    elif 'slow_clock' in c:
        slow_clock_cases(ctx)
        ok = not ctx.mismatches
    else:
        ok = True
    for m in ctx.mismatches:
        print('REPRODUCED', m.signature, m.detail)
    return 0 if ok else 1

META = {
    'category': 'model_checking',
    'text': ('RpcRetry.tla models the retry loop step by step (send / classify / sleep-retry / finish). TLC checks the six C26 invariants '
             'and one action property over every response sequence up to the attempt limit + 1 over an 18-class alphabet; every completed '
             'behaviour is replayed through the real RpcNode.request (number and order of requests, sleep durations, returned response or '
             'raised error must equal the model), and independent random executions recorded at the library boundary are validated by TLC '
             'against RpcRetryTrace.tla.'),
    'design_ref': 'DESIGN.md section 5 C26, A.6',
    'note': 'Trusted: requests.request/time.sleep stubs, response concretisation (harness/vf/props/C26.py). Exhaustive over the alphabet up to 7 responses; response bodies are representatives of their class.',
    'technique': 'TLA+ spec + TLC exhaustive model checking; spec-behaviour replay into RpcNode.request; TLC trace validation of recorded executions',
}
