"""C18 - Michelson text formatting and parsing are inverse.  Spec: MichText.tla (+ MichTextTrace.tla)."""
import glob, json, os, re

from ..tlaparse import to_json
from ..fastdump import iter_dump
from ..tlc import MachineryError
from ..common import REPO

CFG = """SPECIFICATION Spec
CONSTANTS LeafTypes = {%s}
 Instr0 = {%s}
 Level = %d
INVARIANT RoundTrip
INVARIANT Tidy
"""
TCFG = "SPECIFICATION Spec\n"

LEAF_Q = ['int', 'unit', 'chest', 'chest_key', 'tx_rollup_l2_address', 'never', 'bls12_381_g1']
LEAF_T = LEAF_Q + ['nat', 'string', 'bytes', 'mutez', 'bool', 'key', 'key_hash', 'signature', 'timestamp', 'address', 'operation',
                   'chain_id', 'bls12_381_g2', 'bls12_381_fr']
INSTR_Q = ['DROP', 'CAR', 'UNIT', 'SWAP']
INSTR_T = INSTR_Q + ['CDR', 'ADD', 'SUB', 'MUL', 'EDIV', 'ABS', 'NEG', 'COMPARE', 'EQ', 'FAILWITH', 'NOW', 'AMOUNT', 'SENDER', 'SOURCE', 'SELF_ADDRESS',
                     'PACK', 'CONS', 'SOME', 'PAIR', 'UNPAIR', 'EXEC', 'APPLY', 'GET', 'UPDATE', 'MEM', 'SIZE', 'CONCAT', 'SLICE', 'TICKET', 'READ_TICKET',
                     'OPEN_CHEST', 'SAPLING_VERIFY_UPDATE', 'MIN_BLOCK_TIME', 'BYTES', 'NAT', 'IS_IMPLICIT_ACCOUNT', 'NEVER', 'DUP', 'TRANSFER_TOKENS']


# ---------- concretisation ----------
def to_expr(n):
    k = n[0]
    if k == 'int':
        v = int.from_bytes(bytes(n[2]), 'little')
        return {'int': str(-v if n[1] else v)}
    if k == 'string':
        return {'string': bytes(n[1]).decode('ascii')}
    if k == 'bytes':
        return {'bytes': bytes(n[1]).hex()}
    if k == 'seq':
        return [to_expr(x) for x in n[1]]
    if k == 'prim':
        d = {'prim': n[1]}
        if n[2]:
            d['args'] = [to_expr(x) for x in n[2]]
        if n[3]:
            d['annots'] = list(n[3])
        return d
    raise ValueError(n)


def limbs(v):
    out = []
    while v:
        out.append(v & 255)
        v >>= 8
    return out


def to_node(j):
    if isinstance(j, list):
        return ['seq', [to_node(x) for x in j]]
    if 'prim' in j:
        return ['prim', j['prim'], [to_node(x) for x in j.get('args', [])], list(j.get('annots', []))]
    if 'int' in j:
        v = int(j['int'])
        return ['int', v < 0, limbs(abs(v))]
    if 'string' in j:
        return ['string', list(j['string'].encode('ascii'))]
    if 'bytes' in j:
        return ['bytes', list(bytes.fromhex(j['bytes']))]
    raise ValueError(j)


def model_tokens(toks):
    """Model tokens -> the comparable form the lexer produces."""
    out = []
    for t in toks:
        k = t[0]
        if k == 'int':
            v = int.from_bytes(bytes(t[2]), 'little')
            out.append(('int', str(-v if t[1] else v)))
        elif k == 'string':
            out.append(('string', bytes(t[1]).decode('ascii')))
        elif k == 'bytes':
            out.append(('bytes', bytes(t[1]).hex()))
        else:
            out.append(tuple(t))
    return out


def json_tokens(toks):
    """Lexed tokens -> the JSON form MichTextTrace reads."""
    out = []
    for t in toks:
        k = t[0]
        if k == 'int':
            v = int(t[1])
            out.append(['int', v < 0, limbs(abs(v))])
        elif k == 'string':
            out.append(['string', list(t[1].encode('ascii'))])
        elif k == 'bytes':
            out.append(['bytes', list(bytes.fromhex(t[1]))])
        else:
            out.append(list(t))
    return out


# ---------- an independent lexer for Michelson text ----------
_TOK = re.compile(r'''\s*(?:(?P<string>"(?:\\.|[^"\\])*")|(?P<bytes>0x[0-9a-fA-F]*)(?![0-9A-Za-z_])|(?P<int>-?[0-9]+)(?![0-9A-Za-z_])'''
                  r'''|(?P<annot>[@:%][_0-9a-zA-Z.%@]*)|(?P<prim>[A-Za-z_][A-Za-z0-9_]*)|(?P<punct>[(){};]))''')
_PUNCT = {'(': 'LP', ')': 'RP', '{': 'LB', '}': 'RB', ';': 'SEMI'}
_ESC = {'n': '\n', '"': '"', '\\': '\\'}


class LexError(Exception):
    pass


def lex(text):
    pos, out = 0, []
    end = len(text.rstrip())
    while pos < end:
        m = _TOK.match(text, pos)
        if not m:
            raise LexError('at %d: %r' % (pos, text[pos:pos + 20]))
        pos = m.end()
        kind = m.lastgroup
        v = m.group(kind)
        if kind == 'punct':
            out.append((_PUNCT[v],))
        elif kind == 'string':
            s, k = [], 1
            while k < len(v) - 1:
                if v[k] == '\\':
                    if v[k + 1] not in _ESC:
                        raise LexError('escape \\%s' % v[k + 1])
                    s.append(_ESC[v[k + 1]])
                    k += 2
                else:
                    if v[k] == '\n' or not (32 <= ord(v[k]) < 127):
                        raise LexError('raw character %r in string' % v[k])
                    s.append(v[k])
                    k += 1
            out.append(('string', ''.join(s)))
        elif kind == 'bytes':
            if len(v) % 2:
                raise LexError('odd hex')
            out.append(('bytes', v[2:].lower()))
        else:
            out.append((kind, v))
    return out


def strip_semis(toks):
    """Trailing semicolons (before } or at the end) are optional."""
    out = []
    for k, t in enumerate(toks):
        if t == ('SEMI',) and (k + 1 == len(toks) or toks[k + 1] == ('RB',)):
            continue
        out.append(t)
    return out


def diff_class(want, got):
    if got and want and got[0] == ('LB',) and got[-1] == ('RB',) and want[0] != ('LB',):
        got = got[1:-1]          # a braced script: find the difference that matters
    for k in range(max(len(want), len(got))):
        w = want[k] if k < len(want) else ('END',)
        g = got[k] if k < len(got) else ('END',)
        if w != g:
            if w == ('LP',) and g[0] == 'prim':
                return 'missing-parens:' + g[1]
            if g == ('LP',) and w[0] == 'prim':
                return 'extra-parens:' + w[1]
            return 'tokens:%s-vs-%s' % (w[0], g[0])
    return 'same'


# ---------- observation ----------
_parser = None


def impl_format(j, inline):
    from pytezos.michelson.format import micheline_to_michelson
    try:
        return ('ok', micheline_to_michelson(j, inline=inline))
    except Exception as e:   # noqa
        return ('raised', type(e).__name__)


def impl_parse(text):
    global _parser
    from pytezos.michelson.parse import michelson_to_micheline, MichelsonParser
    if _parser is None:
        _parser = MichelsonParser()
    global _nparse
    _nparse += 1
    try:
        if _nparse % 2:
            return ('ok', michelson_to_micheline(text, parser=_parser))
        # the documented entry point without a parser argument; the tree belongs to the caller, who may edit it: the next parse of the same text is not affected
        tree = michelson_to_micheline(text)
        import copy
        res = copy.deepcopy(tree)
        _scribble(tree)
        again = michelson_to_micheline(text)       # what a second caller gets for the same text after the first caller edited its own tree
        return ('ok', res if again == res else again)
    except Exception as e:   # noqa
        return ('raised', type(e).__name__)


_nparse = 0


def _scribble(e):
    if isinstance(e, list):
        for x in e:
            _scribble(x)
        e.append({'prim': 'edited'})
    elif isinstance(e, dict):
        for x in e.get('args', []):
            _scribble(x)
        if 'prim' in e:
            e['annots'] = ['%edited']
        else:
            for k in list(e):
                e[k] = 'edited' 


def plain(x):
    """Parser results use list subclasses; compare as plain JSON."""
    if isinstance(x, list):
        return [plain(y) for y in x]
    if isinstance(x, dict):
        return {k: plain(v) for k, v in x.items()}
    return x


def tree_class(want, got):
    if isinstance(want, list) != isinstance(got, list):
        return 'seq-vs-node'
    if isinstance(want, list):
        if len(want) != len(got):
            return 'seq-length'
        for a, b in zip(want, got):
            if a != b:
                return tree_class(a, b)
        return 'same'
    if 'prim' in want and 'prim' in got:
        if want['prim'] != got['prim']:
            return 'prim-name'
        if want.get('annots', []) != got.get('annots', []):
            return 'annots:' + want['prim']
        wa, ga = want.get('args', []), got.get('args', [])
        if len(wa) != len(ga):
            return 'arg-count:' + want['prim']
        for a, b in zip(wa, ga):
            if a != b:
                return tree_class(a, b)
        return 'same'
    for k in ('int', 'string', 'bytes'):
        if k in want and k in got:
            return k + '-value'
    return 'node-kind'


def check_case(ctx, node, mtoks, inline, pending):
    """One expression in one layout.  Returns False if a mismatch was recorded right away; cases whose printed
    tokens differ from Format(e) are appended to `pending` and judged by MichTextTrace afterwards."""
    j = to_expr(node)
    mode = 'inline' if inline else 'multiline'
    case = {'kind': 'expr', 'e': to_json(node), 'toks': to_json(mtoks), 'inline': inline}
    f = impl_format(j, inline)
    if f[0] != 'ok':
        ctx.mismatch('C18:format:%s:raises:%s' % (mode, f[1]), 'micheline_to_michelson(%s, inline=%s) raised %s' % (json.dumps(j), inline, f[1]), case)
        return False
    text = f[1]
    try:
        got = lex(text)
    except LexError as e:
        ctx.mismatch('C18:format:%s:unlexable' % mode, 'text printed for %s is not lexable Michelson (%s): %r' % (json.dumps(j), e, text), case)
        return False
    want = model_tokens(mtoks)
    p = impl_parse(text)
    back = plain(p[1]) if p[0] == 'ok' else None
    if strip_semis(got) == want:
        if p[0] != 'ok':
            ctx.mismatch('C18:parse:raises:' + p[1], 'michelson_to_micheline(%r) raised %s; the text is the Michelson form of %s' % (text, p[1], json.dumps(j)), case)
            return False
        if back != j:
            ctx.mismatch('C18:parse:wrong-tree:' + tree_class(j, back), 'michelson_to_micheline(%r) = %s, expected %s' % (text, json.dumps(back), json.dumps(j)), case)
            return False
        return True
    pending.append({'id': 'expr-%d' % len(pending), 'e': to_json(node), 'toks': json_tokens(got), 'text': text, 'mode': mode, 'expr': j,
                    'diff': diff_class(want, strip_semis(got)), 'parse': p[0] if p[0] != 'ok' else None, 'exc': p[1] if p[0] != 'ok' else None,
                    'back': back, 'case': case})
    return True


def judge(ctx, cases, name):
    """TLC: does each token sequence denote its expression under the reference grammar?  id -> verdict tuple."""
    if not cases:
        return {}
    tf = os.path.join(ctx.wd, name + '.json')
    json.dump([{'id': c['id'], 'e': c['e'], 'toks': c['toks']} for c in cases], open(tf, 'w'))
    r = ctx.tlc('MichTextTrace', TCFG, name=name, env={'TRACE_FILE': tf}, timeout=1500, coverage=False, workers=8)
    seen = {v[1]: v for v in r.printed}
    for c in cases:
        if c['id'] not in seen:
            raise MachineryError('MichTextTrace printed no verdict for case %s' % c['id'])
    return seen


def settle(ctx, pending, verdicts):
    """Decide the cases whose printed tokens differ from Format(e)."""
    ok = True
    for c in sorted(pending, key=lambda c: len(c['toks'])):      # smallest example first
        v = verdicts[c['id']]
        j, text = c['expr'], c['text']
        if v[0] == 'OUT':
            # correct Michelson for e with redundant tokens: the parser must still give e back
            ctx.skip('printed text differs from Format(e) only by redundant tokens (accepted by the reference grammar)')
            if c['parse']:
                ctx.mismatch('C18:parse:raises:' + c['exc'], 'michelson_to_micheline(%r) raised %s; the text denotes %s' % (text, c['exc'], json.dumps(j)), c['case'])
                ok = False
            elif c['back'] != j:
                ctx.mismatch('C18:parse:wrong-tree:' + tree_class(j, c['back']), 'michelson_to_micheline(%r) = %s, expected %s' % (text, json.dumps(c['back']), json.dumps(j)), c['case'])
                ok = False
            continue
        if c['parse'] is None and c['back'] == j:
            # not the Michelson form of e, but pytezos' own parser maps it back: the round trip of the statement holds
            ctx.skip('printed text is not the reference form of the expression but pytezos parses it back to the expression')
            continue
        ok = False
        rt = 'parse raised %s' % c['exc'] if c['parse'] else 'parsed back as %s' % json.dumps(c['back'])
        ctx.mismatch('C18:format:' + c['diff'],
                     'micheline_to_michelson(%s, %s) printed %r, which does not denote the expression (%s; reference grammar: %s); %s' % (
                         json.dumps(j), c['mode'], text, c['diff'], to_json(v[2:]), rt), c['case'])
    return ok


# ---------- Leg C: the mainnet scripts ----------
def script_cases(ctx):
    files = sorted(glob.glob(os.path.join(REPO, 'tests', 'contract_tests', '*', '__script__.json')))
    if len(files) < 20:
        raise MachineryError('mainnet contract scripts not found under %s' % REPO)
    if ctx.quick:
        files = sorted(files, key=os.path.getsize)[:8]
    cases = []
    for f in files:
        name = os.path.basename(os.path.dirname(f))
        script = json.load(open(f))
        for sec in ('code', 'storage'):
            j = script[sec]
            try:
                node = to_node(j)
            except UnicodeEncodeError:
                ctx.skip('script section with non-ASCII strings')
                continue
            for inline in (True, False):
                f1 = impl_format(j, inline)
                cid = '%s:%s:%s' % (name, sec, 'inline' if inline else 'multiline')
                case = {'kind': 'script', 'file': f, 'sec': sec, 'inline': inline}
                if f1[0] != 'ok':
                    ctx.mismatch('C18:script:format:raises:' + f1[1], 'micheline_to_michelson raised %s on %s' % (f1[1], cid), case)
                    continue
                try:
                    toks = lex(f1[1])
                except LexError as e:
                    ctx.mismatch('C18:script:format:unlexable', 'text printed for %s is not lexable Michelson (%s)' % (cid, e), case)
                    continue
                p = impl_parse(f1[1])
                if p[0] != 'ok' or plain(p[1]) != j:
                    ctx.mismatch('C18:script:roundtrip', 'parse(format(x)) differs from x for %s (%s)' % (cid, p[1] if p[0] != 'ok' else tree_class(j, plain(p[1]))), case)
                cases.append({'id': cid, 'e': node, 'toks': json_tokens(toks), 'case': case})
                ctx.count(('script', cid), nontrivial=True)
    return cases


def settle_scripts(ctx, cases, verdicts):
    bad = 0
    ntok = sum(len(c['toks']) for c in cases)
    for c in cases:
        v = verdicts[c['id']]
        if v[0] != 'OUT':
            bad += 1
            ctx.mismatch('C18:script:format:' + str(v[2]), 'text printed for %s does not denote the script under the reference grammar: %s' % (c['id'], to_json(v)), c['case'])
    ctx.traces += len(cases) - bad
    ctx.extra['script_tokens_validated_by_tlc'] = ntok
    ctx.notes.append('Leg C: %d texts (code and storage of %d mainnet scripts, inline and multi-line, %d tokens) printed by pytezos and parsed by MichTextTrace' % (len(cases), len(cases) // 4, ntok))
    return bad == 0


# ---------- driver ----------
def huge_ints(ctx):
    """Integer literals beyond what TLC holds (and beyond CPython's default 4300-digit int<->str limit, seeded C18_13): Micheline integers are
    arbitrary precision, the text of one is its decimal digits, so printing and parsing must not depend on any conversion limit.
    Judged by the statement itself: parse(format(e)) = e, inline and multi-line, at the root, in argument position and in code."""
    for digits in (640, 4299, 4300, 4301, 5000, 20000):
        for sign in ('', '-'):
            big = sign + '1' + ('7' * (digits - 2)) + '3'
            for where, e in (('root', {'int': big}), ('argument', {'prim': 'Pair', 'args': [{'int': big}, {'string': 'x'}]}),
                             ('sequence', [{'int': big}, {'int': '0'}]),
                             ('code', [{'prim': 'PUSH', 'args': [{'prim': 'int'}, {'int': big}]}, {'prim': 'DROP'}])):
                for inline in (True, False):
                    ctx.replayed += 1
                    ctx.count(('huge-int', digits, sign, where, inline), nontrivial=True)
                    case = {'huge_int': {'digits': digits, 'sign': sign, 'where': where, 'inline': inline}}
                    st, text = impl_format(e, inline)
                    if st != 'ok':
                        ctx.mismatch('C18:huge-int:format-raises', 'an integer of %d digits (%s) is not printed: %s' % (digits, where, text), case)
                        continue
                    st, back = impl_parse(text)
                    if st != 'ok':
                        ctx.mismatch('C18:huge-int:parse-raises', 'the text of an integer of %d digits (%s, inline=%s) is not read back: %s' % (digits, where, inline, back), case)
                    elif back != e:
                        ctx.mismatch('C18:huge-int:roundtrip', 'an integer of %d digits (%s, inline=%s) reads back as a different expression' % (digits, where, inline), case)


def run(ctx):
    from pytezos.michelson.tags import prim_tags
    leaf = LEAF_Q if ctx.quick else LEAF_T
    ins = INSTR_Q if ctx.quick else INSTR_T
    unknown = [n for n in leaf + ins if n not in prim_tags]
    if unknown:
        raise MachineryError('names not known to pytezos as primitives: %s' % unknown)
    ctx.rule = ('universe: types (every argument-less type with 0..2 annotations; pair/or/option/list/set/contract/ticket/lambda/map/big_map/sapling over '
                'annotated leaf types, two levels), data (ints 0, -1, +-2^70; empty, spaced, escaped and 96-character strings; bytes; Unit/True/None; Pair/Left/Right/Some/Elt, '
                'nested and empty sequences, Lambda_rec, Ticket, constant), code (argument-less instructions with 0..2 annotations; DROP n, DIP, DIP n, LOOP/MAP/ITER, IF*, '
                'PUSH type data, NIL/NONE/LEFT/CAST/UNPACK/CONTRACT type, EMPTY_MAP, LAMBDA/LAMBDA_REC, VIEW, EMIT, CREATE_CONTRACT; nested two levels) and scripts; '
                'Leg A: Parse(Format(e)) = e in the model; Leg B: each expression printed by micheline_to_michelson inline and multi-line, lexed by an independent lexer and '
                'compared with Format(e), parsed back by michelson_to_micheline and compared with e; non-trivial = expression with a primitive application in argument position; '
                'Leg C: texts that differ from Format(e), and the texts of the mainnet scripts, judged by the reference parser in TLC')
    ctx.assumptions = ['only non-macro primitive names; strings are printable ASCII plus newline; annotations match [@:%][_0-9a-zA-Z.]*',
                       'a text that differs from Format(e) by redundant parentheses/semicolons is accepted when the reference grammar reads it as e',
                       'a text the reference grammar does not read as e is still not reported when pytezos\' own parser maps it back to e (the statement is about the round trip)',
                       'the lexer accepts the escapes \\n \\" \\\\ only']
    r = ctx.tlc('MichText', CFG % (', '.join('"%s"' % x for x in leaf), ', '.join('"%s"' % x for x in ins), 1 if ctx.quick else 2), dump=True, timeout=2400, workers=8, coverage=False)
    ctx.require_no_violation(r, 'MichText')
    # vacuity is checked on the dump itself (TLC's -coverage doubles the run time): both actions taken for every expression
    pending, pending2, n, pcs = [], [], 0, {}
    ctx._again_cap = 20000      # every case takes part in the second pass (the pass is cheap here)
    states = []
    for st in iter_dump(r.dump):
        pcs[st['pc']] = pcs.get(st['pc'], 0) + 1
        if st['pc'] == 'done':
            states.append(st)
    # small expressions first: a leaf is printed on its own (as a root) before it is printed as an argument of something else,
    # and the second pass below prints everything again in the opposite order
    states.sort(key=lambda st: (len(st['toks']), repr(st['e'])))
    for st in states:
        node, mtoks = st['e'], st['toks']
        n += 1
        framed = ('LP',) in [tuple(t) for t in mtoks]
        ok = True
        for inline in (True, False):
            ok = check_case(ctx, node, mtoks, inline, pending) and ok
            ctx.again(check_case, ctx, node, mtoks, inline, pending2)
            ctx.count((node, inline), nontrivial=framed)
        ctx.replayed += 1
        if ok and framed and len(mtoks) > 12:
            ctx.sample({'expr': to_expr(node), 'text': impl_format(to_expr(node), True)[1]}, limit=4)
    if not n or not (pcs.get('format') == pcs.get('parse') == pcs.get('done')):
        raise MachineryError('vacuity: states per phase %s' % pcs)
    scripts = script_cases(ctx)
    verdicts = judge(ctx, pending + scripts, 'MichTextTrace')
    settle(ctx, pending, verdicts)
    settle_scripts(ctx, scripts, verdicts)
    # the same expressions once more in reverse order: printing is a function of the expression, not of what was printed before
    ctx.second_pass()
    if pending2:
        for k, c in enumerate(pending2):
            c['id'] = 'again-%d' % k
        settle(ctx, pending2, judge(ctx, pending2, 'MichTextTrace_again'))
    huge_ints(ctx)
    ctx.exhaustive = True


def replay(ctx, rep):
    c = rep['case']

    def tup(x):
        return tuple(tup(y) for y in x) if isinstance(x, list) else x
    if 'huge_int' in c:
        huge_ints(ctx)
        ok = not ctx.mismatches
    elif c['kind'] == 'expr':
        pending = []
        ok = check_case(ctx, tup(c['e']), tup(c['toks']), c['inline'], pending)
        ok = settle(ctx, pending, judge(ctx, pending, 'MichTextTrace')) and ok
    else:
        scripts = script_cases(ctx)
        ok = settle_scripts(ctx, scripts, judge(ctx, scripts, 'MichTextTrace')) and not ctx.mismatches
    for m in ctx.mismatches:
        print('REPRODUCED', m.signature, m.detail)
    return 0 if ok else 1


META = {
    'category': 'model_checking',
    'text': ('MichText.tla states the Michelson concrete syntax at token level: Format (a primitive application in argument position is parenthesised iff it has '
             'arguments or annotations; sequences in braces; scripts without) and a recursive-descent Parse. TLC checks Parse(Format(e)) = e on every expression '
             'of a bounded universe of types, data, code and scripts. Every expression is printed by micheline_to_michelson in both layouts, the text is lexed '
             'independently and compared with Format(e), and parsed back by michelson_to_micheline and compared with e; deviating texts and the texts of the '
             'mainnet scripts are judged by the reference parser in TLC (MichTextTrace).'),
    'design_ref': 'DESIGN.md section 5 C18',
    'note': ('Every other text is parsed through the default entry point (no parser argument), the result edited in place and the text parsed again. Trusted: the 40-line lexer, expression <-> Micheline JSON conversion. Bounds: see rule; quick 7 leaf types / 4 plain instructions, thorough 21 / 43. '
             'Leg C quick: the 8 smallest of the 20 mainnet scripts, thorough all 20.'),
    'technique': 'TLA+ spec + TLC exhaustive model checking; spec-behaviour replay into micheline_to_michelson / michelson_to_micheline; TLC validation of printed texts',
}
