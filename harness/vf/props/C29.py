"""C29 - chain-history search reports exactly the state changes.  Spec: Search.tla."""
import random

from ..tlaparse import to_json

CFG = """SPECIFICATION Spec
CONSTANTS Last0 = %d
 MaxRange = %d
 MaxChanges = %d
 Steps = {%s}
INVARIANT AllChangesReported
INVARIANT FirstChangeReported
INVARIANT Increasing
INVARIANT ProbesInRange
INVARIANT BisectInv
INVARIANT EmitDone
"""


# what the value is concretely after k changes: the count itself, a balance spent down to zero, and values of mixed kinds that end up falsy
PALETTES = {'count': lambda k: k,
            'down-to-zero': lambda k: 2 - k,
            'noisy': lambda k: k,
            'mixed': lambda k: {0: 'tz1delegate', 1: None, 2: '', 3: (), 4: 0.5}.get(k, 'v%d' % k)}


def impl(head, last, changes, step, mode, palette='count'):
    from pytezos.rpc import search
    cs = sorted(changes)
    probes = []
    val = PALETTES[palette]

    class ProbeBudget(Exception):
        pass

    def get(level):
        probes.append(level)
        if len(probes) > 40 * (head - last + 2):
            # the model never probes a level more than a few times (invariant ProbesInRange / the bisection bound): a search that keeps
            # probing does not terminate
            raise ProbeBudget('more than %d probes for a range of %d levels' % (len(probes) - 1, head - last))
        return val(sum(1 for c in cs if c <= level))
    eq = lambda a, b: a == b
    if palette == 'noisy':       # the representation differs from level to level; only the caller's equals says what a change is
        inner = get
        get = lambda level: (inner(level), level % 3)
        eq = lambda a, b: a[0] == b[0]
    # the verbosity of the library's logger is the host application's choice and no input of the search: every other search runs at DEBUG
    import logging
    lg = logging.getLogger('pytezos')
    old_level, old_handlers, old_prop = lg.level, lg.handlers[:], lg.propagate
    if (head + len(cs) + step) % 2 == 0:
        lg.setLevel(logging.DEBUG)
        lg.handlers[:] = [logging.NullHandler()]       # the records are produced (and their arguments evaluated), just not printed
        lg.propagate = False
    try:
        return _search(search, head, last, get, eq, step, mode), probes
    finally:
        lg.setLevel(old_level)
        lg.handlers[:] = old_handlers
        lg.propagate = old_prop


def _search(search, head, last, get, eq, step, mode):
    try:
        if mode == 'all':
            out = [tuple(x) for x in search.find_state_changes(head, last, get, eq, step=step)]
        else:
            out = [tuple(search.find_state_change(head, last, get, eq, pred_value=get(last)))]
    except Exception as e:   # noqa
        return ('raised', type(e).__name__, str(e)[:80])
    return out


def compare(ctx, head, last, changes, step, mode, model_out, sig='C29:replay', palette='count'):
    got, probes = impl(head, last, changes, step, mode, palette)
    want = [(x[0], PALETTES[palette](x[1])) for x in model_out]
    if palette == 'noisy':
        want = [(l, (v, l % 3)) for l, v in want]
    case = {'head': head, 'last': last, 'changes': list(changes), 'step': step, 'mode': mode, 'out': to_json(model_out), 'palette': palette}
    if palette != 'count':
        sig += ':values-' + palette
    if got == want:
        if any(p < last or p > head for p in probes):
            ctx.mismatch(sig + ':probe-out-of-range', 'probes %s outside [%d, %d]' % (probes, last, head), case)
            return False
        return True
    if isinstance(got, tuple) and got and got[0] == 'raised':
        cls = 'raises-' + got[1]
    elif sorted(got) == want:
        cls = 'not-increasing'
    elif set(got) < set(want):
        cls = 'missed-changes'
    else:
        cls = 'wrong-output'
    ctx.mismatch('%s:%s:%s' % (sig, mode, cls), 'head=%d last=%d changes=%s step=%d mode=%s: pytezos gave %s, model %s' % (head, last, list(changes), step, mode, got, want), case)
    return False


def run(ctx):
    ctx.rule = ('histories over (last, head] given by their set of change levels (value = number of changes so far, so it never returns); '
                'Leg A: TLC runs the intended sampling + bisection algorithm probe by probe and checks the output equals the set of changes; '
                'Leg B: every completed search is replayed through find_state_changes / find_state_change; non-trivial = at least one change')
    ctx.assumptions = ['equals is == (in one renaming the values carry a level-dependent tag that a non-trivial equals ignores); values are change counts, which covers every history that never returns to an earlier value up to renaming; every history with a change is replayed under two more renamings (a balance going down to 0; a delegate string, None, empty string, empty tuple, ...)',
                       'find_state_change is only compared on histories that contain a change (its contract presupposes one)']
    last0 = 3
    rng_, mc = (9, 3) if ctx.quick else (13, 4)
    steps = [1, 2, 3, 5, 7, 60]
    r = ctx.tlc('Search', CFG % (last0, rng_, mc, ', '.join(map(str, steps))), timeout=1500, coverage=True)
    ctx.require_no_violation(r, 'Search')
    ctx.require_coverage(r, ['Start', 'Sample', 'NextInterval', 'Walk', 'StartFirst', 'Bisect'])
    outs = [v for v in r.printed if v[0] == 'OUT']
    if not outs:
        raise Exception('no completed searches exported')
    for v in outs:
        _, head, changes, step, mode, out = v
        ok = compare(ctx, head, last0, changes, step, mode, out)
        ctx.replayed += 1
        ctx.count((head, changes, step, mode), nontrivial=len(changes) > 0)
        if changes:
            for pal in ('down-to-zero', 'mixed', 'noisy'):      # the same history with other concrete values (the search only ever compares them)
                ok = compare(ctx, head, last0, changes, step, mode, out, palette=pal) and ok
                ctx.replayed += 1
                ctx.count((head, changes, step, mode, pal), nontrivial=True)
        if ok and len(changes) >= 2:
            ctx.sample({'head': head, 'last': last0, 'changes': changes, 'step': step, 'mode': mode, 'out': out}, limit=4)
    ctx.exhaustive = True
    dense_cases(ctx)
    # longer ranges: TLC -simulate cannot pick large inputs uniformly, so the thorough tier adds a second exhaustive instance
    if not ctx.quick:
        r2 = ctx.tlc('Search', CFG % (100, 40, 2, '1, 7, 60'), name='Search_long', timeout=1500)
        ctx.require_no_violation(r2, 'Search_long')
        for v in [v for v in r2.printed if v[0] == 'OUT']:
            _, head, changes, step, mode, out = v
            compare(ctx, head, 100, changes, step, mode, out)
            ctx.replayed += 1
            ctx.count((head, changes, step, mode), nontrivial=len(changes) > 0)


DENSE_MC = """---- MODULE SearchDense ----
EXTENDS Search
GivenV == %s
====
"""


def dense_cases(ctx):
    """Histories far denser and longer than the enumerated universe (dozens to hundreds of changes, runs of changes on consecutive levels, many changes inside one
    sampling interval, a change on every sampled level), handed to Search.tla as explicit inputs: TLC runs the intended algorithm on each of them probe by probe
    under the same invariants, and every completed search is replayed like the enumerated ones."""
    import random
    from ..tlaparse import to_tla
    rng = random.Random(ctx.seed * 7919 + 29)
    cases = []
    for head, step in ((200, 60), (200, 150), (400, 60), (130, 200), (190, 7), (260, 61)):
        span = range(1, head + 1)
        cases.append((head, frozenset(span), step))                                  # a change on every level
        cases.append((head, frozenset(range(20, 120)), step))                        # 100 consecutive levels, crossing sampled levels
        cases.append((head, frozenset(range(head - 40, head + 1)), step))            # a dense run that ends at the head
        cases.append((head, frozenset(l for l in span if l % 2), step))
        cases.append((head, frozenset(l for l in span if (head - l) % step == 0 or (head - l) % step == 1), step))      # on and next to the sampled levels
        for _ in range(2 if ctx.quick else 8):
            cases.append((head, frozenset(rng.sample(list(span), rng.randint(17, min(120, len(span))))), step))
    cases = sorted(set(cases), key=lambda c: (c[0], c[2], sorted(c[1])))
    gen = {'SearchDense': DENSE_MC % to_tla(set(cases))}
    cfg = (CFG % (0, 0, 0, '1')).replace('INVARIANT AllChangesReported', ' Given <- GivenV\nINVARIANT AllChangesReported', 1)
    r = ctx.tlc('SearchDense', cfg, name='Search_dense', gen=gen, timeout=1500, coverage=False)
    ctx.require_no_violation(r, 'Search (dense inputs)')
    outs = [v for v in r.printed if v[0] == 'OUT']
    if len(outs) != len(cases):
        raise Exception('TLC completed %d of %d dense searches' % (len(outs), len(cases)))
    for v in outs:
        _, head, changes, step, mode, out = v
        compare(ctx, head, 0, changes, step, mode, out, sig='C29:dense')
        ctx.replayed += 1
        ctx.count(('dense', head, changes, step), nontrivial=True)
    ctx.extra['dense_histories'] = len(cases)


def replay(ctx, rep):
    c = rep['case']
    ok = compare(ctx, c['head'], c['last'], c['changes'], c['step'], c['mode'], c['out'], palette=c.get('palette', 'count'))
    for m in ctx.mismatches:
        print('REPRODUCED', m.signature, m.detail)
    return 0 if ok else 1


META = {
    'category': 'model_checking',
    'text': ('Search.tla is the intended sampling + bisection algorithm, one action per get(level) probe. TLC checks, for every history over ranges up to '
             'the bound in which the value never returns, every sampling step and both search functions, that the output is exactly the list of changes in '
             'increasing order (a genuine design check of the algorithm), and every completed search is replayed through the real generator functions.'),
    'design_ref': 'DESIGN.md section 5 C29, A.8',
    'note': 'Trusted: get() closure over the history, output comparison. Bounds: range <= 9 (13 thorough; a second instance with range <= 40, <= 2 changes), <= 3 (4) changes, steps {1,2,3,5,7,60}; plus 42 (78) dense histories of 17..400 changes over ranges up to 400 levels, handed to the specification as explicit inputs (operator Given).',
    'technique': 'TLA+ spec + TLC exhaustive model checking; spec-behaviour replay into find_state_changes / find_state_change',
}
