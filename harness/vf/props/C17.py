"""C17 - type annotations do not change execution or serialization.  Specs: MichSem.tla / VM.tla (annotation-free by construction)."""
import copy, json

from .. import vmfam, vmreplay
from ..tlaparse import to_json
from ..vmfam import *   # noqa
from . import C01, C02   # noqa: C02 registers the type families

fam = vmfam.fam
C4 = P(INT, P(NAT, P(STR, BOOL)))
V4 = p(i(1), p(i(2), p(s('x'), T_)))
fam('comb', depth=3, maxstack=4,
    inits=[(S(C4, V4),), (S(INT, i(9)), S(C4, V4)), (S(P(P(INT, NAT), P(STR, BOOL)), p(p(i(1), i(2)), p(s('y'), F_))),)],
    alphabet=[('UNPAIR', 2), ('UNPAIR', 3), ('UNPAIR', 4), ('PAIR', 2), ('PAIR', 3), ('PAIR', 4), ('GET', 1), ('GET', 2), ('GET', 3), ('GET', 4), ('GET', 5), ('GET', 6),
              ('UPDATE', 1), ('UPDATE', 2), ('UPDATE', 3), ('UPDATE', 4), ('UPDATE', 6), ('CAR',), ('CDR',), ('SWAP',), DUP(1), ('COMPARE',),
              ('LEFT', C4), ('IF_LEFT', (('GET', 3),), (('GET', 5), ('SIZE',))),
              # a structurally equal value rebuilt at run time (its type carries no annotations) next to the annotated original
              ('SEQ', (DUP(1), ('UNPAIR', 4), ('PAIR', 4))), ('SEQ', (DUP(1), ('UNPAIR', 3), ('PAIR', 3))), ('SEQ', (DUP(1), ('UNPAIR', 2), ('PAIR', 2)))])
fam('annot_text', depth=4, maxstack=4,
    inits=[(S(P(STR, NAT), p(s('abc'), i(1))),), (S(P(BYT, P(NAT, NAT)), p(b([1, 2, 3]), p(i(0), i(3)))),)],
    alphabet=[('CAR',), ('CDR',), ('UNPAIR', 2), ('UNPAIR', 3), PUSH(NAT, i(0)), PUSH(NAT, i(5)), PUSH(NAT, i(1)), ('SLICE',), ('CONCAT',), ('SIZE',), DUP(1), ('SWAP',), ('SOME',),
              ('NIL', STR), ('CONS',), ('LEFT', NAT), ('DIG', 2)])
fam('annot_keys', depth=3, maxstack=4,
    inits=[(S(P(INT, P(NAT, STR)), p(i(1), p(i(2), s('k')))), S(MAP(P(INT, P(NAT, STR)), NAT), ('map', ((p(i(1), p(i(2), s('k'))), i(7)),)))),
           (S(P(INT, P(NAT, STR)), p(i(1), p(i(2), s('k')))), S(SET(P(INT, P(NAT, STR))), ('set', (p(i(1), p(i(2), s('k'))),))))],
    alphabet=[('GETK',), ('MEM',), ('SEQ', (('UNPAIR', 3), ('PAIR', 3))), DUP(1), DUP(2), ('SWAP',), ('SEQ', (PUSH(OPT(NAT), some(i(9))), ('SWAP',), ('UPDATEK',))),
              ('SEQ', (PUSH(BOOL, T_), ('SWAP',), ('UPDATEK',))), ('SIZE',), ('COMPARE',)])

# lambdas whose (annotated) argument type is a pair: APPLY takes the type apart, EXEC runs the body on values of the annotated types
fam('annot_lambda', depth=4, maxstack=3,
    inits=[(S(NAT, i(1)),), (S(P(NAT, NAT), p(i(5), i(6))), S(NAT, i(1))),
           (S(P(NAT, P(NAT, P(NAT, NAT))), p(i(1), p(i(2), p(i(3), i(4))))), S(NAT, i(1)))],      # a comb of four leaves to capture: the size from which the binary form writes combs as sequences
    alphabet=[('LAMBDA', P(NAT, NAT), NAT, (('CAR',),)), ('LAMBDA', P(NAT, P(NAT, NAT)), NAT, (('CDR',), ('CAR',))), ('LAMBDA', P(NAT, NAT), P(NAT, NAT), (('UNPAIR', 2), ('SWAP',), ('PAIR', 2))),
              ('LAMBDA', P(P(NAT, NAT), NAT), NAT, (('CAR',), ('CDR',))),      # the captured (left) type is compound
              ('LAMBDA', P(P(NAT, P(NAT, P(NAT, NAT))), NAT), NAT, (('CAR',), ('GET', 5))),
              ('APPLY',), ('EXEC',), PUSH(NAT, i(2)), ('SWAP',), ('DIG', 2)])

FAMS = ['comb', 'annot_text', 'annot_keys', 'adt', 'optlist', 'types_map', 'types_list', 'annot_lambda']
SCHEMES = ['field-all', 'type-all', 'both-all', 'field-inner-pairs', 'type-inner-pairs', 'field-bare', 'field-all+accessors']


def annotate_type(tj, scheme, path=(), parent=None, idx=0):
    tj = dict(tj)
    ann = []
    inner_pair = tj.get('prim') == 'pair' and parent == 'pair' and idx == 1
    in_pair_or = parent in ('pair', 'or')
    if scheme in ('field-all', 'both-all', 'field-all+accessors') and in_pair_or:
        ann.append('%%f%d' % (len(path) * 2 + idx))
    if scheme in ('type-all', 'both-all'):
        ann.append(':t%d' % (len(path) * 2 + idx))
    if scheme == 'field-leaves' and in_pair_or and tj.get('prim') not in ('pair', 'or'):
        ann.append('%%l%d' % (len(path) * 2 + idx))      # annotated leaves under nodes that carry no annotation themselves
    if scheme == 'field-bare' and in_pair_or:
        ann.append('%')        # the empty field annotation: written, and names nothing
    if scheme == 'field-inner-pairs' and inner_pair:
        ann.append('%inner')
    if scheme == 'type-inner-pairs' and inner_pair:
        ann.append(':inner')
    if 'args' in tj:
        tj['args'] = [annotate_type(a, scheme, path + (k,), tj['prim'], k) if isinstance(a, dict) and 'prim' in a and a['prim'].islower() else a
                      for k, a in enumerate(tj['args'])]
    if ann:
        tj['annots'] = sorted(ann)
    return tj


TYPE_ARG_INSTRS = {'PUSH': [0], 'NONE': [0], 'NIL': [0], 'LEFT': [0], 'RIGHT': [0], 'EMPTY_SET': [0], 'EMPTY_MAP': [0, 1], 'EMPTY_BIG_MAP': [0, 1], 'LAMBDA': [0, 1],
                   'LAMBDA_REC': [0, 1], 'CAST': [0]}


def annotate_instr(ij, scheme, in_lambda=False):
    if isinstance(ij, list):
        return [annotate_instr(x, scheme, in_lambda) for x in ij]
    ij = dict(ij)
    args = list(ij.get('args', []))
    for k, a in enumerate(args):
        if k in TYPE_ARG_INSTRS.get(ij['prim'], []):
            args[k] = annotate_type(a, scheme)
        elif isinstance(a, list) and ij['prim'] != 'PUSH':
            args[k] = annotate_instr(a, scheme, in_lambda or ij['prim'] in ('LAMBDA', 'LAMBDA_REC'))
    if args:
        ij['args'] = args
    # (not inside lambda bodies: the code of a lambda is data, and its instruction annotations are legitimately part of its packed form)
    if scheme == 'field-all+accessors' and ij['prim'] in ('CAR', 'CDR') and not in_lambda:
        ij['annots'] = ['%acc']       # the accessors name what they read their own way, the types name their fields another way: names are not part of types
    return ij


def packed_slots(init, env, prog, scheme):
    """hex of PACK of every packable slot of the final stack (None for unpackable slots / failures)"""
    from pytezos.michelson.instructions.base import MichelsonInstruction
    from pytezos.michelson.stack import MichelsonStack
    try:
        ann = (lambda tj: annotate_type(tj, scheme)) if scheme else None
        iann = (lambda ij: annotate_instr(ij, scheme)) if scheme else None
        stack = MichelsonStack([vmreplay.make_item(t, v, ann) for (t, v) in init])
        ctxt = vmreplay.make_context(env)
        for i in prog:
            ij = vmreplay.terms.instr_json(i)
            if iann:
                ij = iann(ij)
            MichelsonInstruction.match(ij).execute(stack, [], ctxt)
        out = []
        for item in stack.items:
            try:
                out.append(item.pack().hex())
            except Exception:
                out.append(None)
        return out
    except Exception as e:   # noqa
        return ('failed', type(e).__name__)


def unpacked_slots(init, env, prog, scheme, root_field=False):
    """every packable slot of the final stack is PACKed and read back with UNPACK <its type under the annotation scheme>; the results as Micheline.
    root_field: additionally a field annotation on the type argument itself (not valid everywhere: such a program may be refused, but must not answer differently)"""
    from pytezos.michelson.instructions.base import MichelsonInstruction
    from pytezos.michelson.stack import MichelsonStack
    try:
        stack = MichelsonStack([vmreplay.make_item(t, v) for (t, v) in init])
        ctxt = vmreplay.make_context(env)
        for i in prog:
            MichelsonInstruction.match(vmreplay.terms.instr_json(i)).execute(stack, [], ctxt)
    except Exception as e:   # noqa
        return ('failed', type(e).__name__)
    out = []
    for item in stack.items:
        try:
            data = item.pack()
        except Exception:
            out.append(None)
            continue
        tj = vmreplay.terms.strip_annots(type(item).as_micheline_expr())
        if scheme:
            tj = annotate_type(tj, scheme)
        if root_field:
            tj = dict(tj, annots=sorted(tj.get('annots', []) + ['%root']))
        try:
            from pytezos.michelson.types import BytesType
            st2 = MichelsonStack([BytesType.from_value(data)])
            MichelsonInstruction.match({'prim': 'UNPACK', 'args': [tj]}).execute(st2, [], ctxt)
            out.append(json.dumps(st2.items[0].to_micheline_value(mode='optimized'), sort_keys=True))
        except Exception as e:   # noqa
            out.append(('failed', type(e).__name__))
    return out


def hash_law(ctx):
    """A value is one value at every annotated spelling of its type: equal, and (where hashable) hashed alike - pytezos keeps big_map keys and removed
    keys in hashed containers, so two hashes for one key are two keys."""
    seen = set()
    for fname in ('comb', 'annot_keys', 'annot_lambda', 'adt'):
        for init in vmfam.FAMILIES[fname]['inits']:
            for t, v in init:
                if (t, v) in seen or t[0] not in ('pair', 'or', 'option'):
                    continue
                seen.add((t, v))
                try:
                    x = vmreplay.make_item(t, v)
                    hx = hash(x)
                except TypeError:
                    continue
                for scheme in SCHEMES + ['field-leaves']:
                    y = vmreplay.make_item(t, v, annotate=lambda tj: annotate_type(tj, scheme))
                    ctx.count(('hash', t, v, scheme), nontrivial=True)
                    ctx.replayed += 1
                    if not (x == y) or hash(y) != hx:
                        ctx.mismatch('C17:annotated:%s:%s' % (scheme, 'value-not-equal-to-itself' if not (x == y) else 'equal-values-hash-apart'),
                                     'the value %s of type %s and the same value at the type annotated by scheme %s: equal=%s, same hash=%s' % (
                                         to_json(v), to_json(t), scheme, x == y, hash(y) == hx), {'family': 'hash', 'type': to_json(t), 'value': to_json(v), 'scheme': scheme})


def replay_fn(ctx, prop, fname, st):
    init, env, prog = st['init'], st['env'] if isinstance(st['env'], dict) else {}, st['hist']
    base = vmreplay.classify(st['status'], st['stack'], st['failv'], vmreplay.run_impl(init, env, prog))
    if base is not None:
        return 'other-property'      # disagreement without annotations: C01/C02's business
    bad = None
    # serialization clause: PACK bytes of the final stack must not depend on annotations (families whose values are pairs / combs)
    base_packed = packed_slots(init, env, prog, None) if (st['status'] == 'running' and fname in ('comb', 'annot_keys', 'adt', 'annot_lambda')) else None
    if base_packed is not None:
        base_unp = unpacked_slots(init, env, prog, None)
        case = {'family': fname, 'init': to_json(init), 'env': to_json(env), 'hist': to_json(prog), 'status': st['status'], 'stack': to_json(st['stack']), 'failv': to_json(st['failv'])}
        for scheme, root in (('both-all', False), ('field-inner-pairs', False), (None, True), ('type-all', True)):
            got = unpacked_slots(init, env, prog, scheme, root)
            ctx.count((fname, init, prog, 'unpack', scheme, root), nontrivial=True)
            same = got == base_unp or (root and isinstance(got, list) and isinstance(base_unp, list) and len(got) == len(base_unp) and
                                       all(g == b_ or (isinstance(g, tuple) and g[0] == 'failed') for g, b_ in zip(got, base_unp)))
            if not same:
                ctx.mismatch('C17:annotated:%s%s:UNPACK-result-differs' % (scheme, ':root-field' if root else ''),
                             'family %s program %s on %s: UNPACK of the packed final stack at the types annotated by scheme %s%s gives %s, without annotations %s' % (
                                 fname, json.dumps(to_json(prog)), json.dumps(to_json(init)), scheme, ' plus a field annotation on the type argument' if root else '', got, base_unp),
                             dict(case, scheme=scheme))
                bad = 'unpack'
    for scheme in SCHEMES + (['field-leaves'] if fname == 'annot_lambda' else []):
        if base_packed is not None:
            ann_packed = packed_slots(init, env, prog, scheme)
            if ann_packed != base_packed:
                ctx.mismatch('C17:annotated:%s:PACK-bytes-differ' % scheme, 'family %s program %s on %s: packed bytes of the final stack differ under annotation scheme %s: %s vs %s' % (
                    fname, json.dumps(to_json(prog)), json.dumps(to_json(init)), scheme, ann_packed, base_packed),
                    {'family': fname, 'init': to_json(init), 'env': to_json(env), 'hist': to_json(prog), 'status': st['status'], 'stack': to_json(st['stack']),
                     'failv': to_json(st['failv']), 'scheme': scheme})
                bad = 'pack'
        got = vmreplay.run_impl(init, env, prog, annotate=lambda tj: annotate_type(tj, scheme), instr_annotate=lambda ij: annotate_instr(ij, scheme))
        res = vmreplay.classify(st['status'], st['stack'], st['failv'], got)
        ctx.count((fname, init, prog, scheme), nontrivial=True)
        if res is not None:
            cls, text = res
            sig = 'C17:annotated:%s:%s:%s' % (scheme, prog[-1][0], cls)
            ctx.mismatch(sig, 'family %s program %s on %s with annotation scheme %s: %s (the un-annotated run agrees with the model)' % (
                fname, json.dumps(to_json(prog)), json.dumps(to_json(init)), scheme, text),
                {'family': fname, 'init': to_json(init), 'env': to_json(env), 'hist': to_json(prog), 'status': st['status'], 'stack': to_json(st['stack']),
                 'failv': to_json(st['failv']), 'scheme': scheme})
            bad = cls
    return bad


# ill-typed programs (two types that differ in a leaf meet): they fail without annotations and must fail under every annotation scheme as well -
# annotations, in particular equal type names on both sides, do not make different types equal
PNN, PII = P(NAT, NAT), P(INT, INT)
ILL = [((S(PNN, p(i(1), i(2))), S(PII, p(i(1), i(2)))), (('COMPARE',),)),
       ((S(PII, p(i(1), i(2))), S(LIST(PNN), lst())), (('CONS',),)),
       ((S(PNN, p(i(1), i(2))), S(LAM(PII, INT), ('lam', (('CAR',),)))), (('EXEC',),)),
       ((S(OPT(PNN), some(p(i(1), i(2)))), S(OPT(PII), none)), (('COMPARE',),))]
ILL_MC = """---- MODULE C17IllMC ----
EXTENDS MichSem, TLC
Cases == %s
ASSUME \\A c \\in Cases : IsIll(TyS(c[2], [k \\in DOMAIN c[1] |-> c[1][k][1]]))
VARIABLE x
Init == x = 0
Next == x' = x /\\ FALSE
Spec == Init /\\ [][Next]_x
====
"""


def ill_typed(ctx):
    from ..tlaparse import to_tla
    r = ctx.tlc('C17IllMC', 'SPECIFICATION Spec\n', gen={'C17IllMC': ILL_MC % to_tla(set(ILL))}, name='C17IllMC', timeout=300, coverage=False)
    if r.violation or 'Assumption' in r.output and 'is false' in r.output:
        raise Exception('the model does not find the negative programs ill-typed:\n' + r.output[-600:])
    for init, prog in ILL:
        base = vmreplay.run_impl(init, {}, prog)
        if base[0] != 'err':
            ctx.skip('ill-typed program accepted without annotations (C02\'s business)')
            continue
        for scheme in SCHEMES:
            got = vmreplay.run_impl(init, {}, prog, annotate=lambda tj: annotate_type(tj, scheme), instr_annotate=lambda ij: annotate_instr(ij, scheme))
            ctx.count(('ill', init, prog, scheme), nontrivial=True)
            ctx.replayed += 1
            if got[0] != 'err':
                ctx.mismatch('C17:annotated:%s:ill-typed-program-accepted:%s' % (scheme, prog[-1][0]), 'program %s on %s is ill-typed (the operand types differ) and is refused without annotations, but runs under annotation scheme %s: %s' % (
                    json.dumps(to_json(prog)), json.dumps(to_json(init)), scheme, got[:2]), {'family': 'ill', 'init': to_json(init), 'hist': to_json(prog), 'scheme': scheme})


def run(ctx):
    ctx.rule = ('every program of the comb / adt / option-list / typed-collection families (see C01, C02) is run once without annotations and once per annotation scheme '
                '(field annotations everywhere, type annotations everywhere, both, field / type annotation only on inner pairs of right combs) applied to the types of the '
                'initial stack and to every type argument of the program; result, failure and runtime types (annotations stripped) must equal the annotation-free model run; PACK bytes of the final stack and UNPACK of them at annotated types must not depend on the annotations')
    ctx.assumptions = ['the model is annotation free by construction (Leg A is C01/C02\'s TypePreservation); packed bytes under annotations are checked in C04',
                       'programs whose un-annotated run already disagrees with the model are left to C01/C02']
    fams = {}
    for name in FAMS:
        fams[name] = dict(vmfam.FAMILIES[name])
        if ctx.quick and name not in ('comb', 'annot_text', 'annot_keys', 'annot_lambda'):
            fams[name]['depth'] = 2
    C01.ASPECTS['C17'] = {'status', 'value', 'type', 'failwith-value'}
    C01.run_families(ctx, 'C17', 'annot', fams, replay_fn=replay_fn)
    ill_typed(ctx)
    hash_law(ctx)
    ctx.exhaustive = True


def replay(ctx, rep):
    c = rep['case']
    tup = lambda x: tuple(tup(y) for y in x) if isinstance(x, list) else x
    if c.get('family') in ('ill', 'hash'):
        ill_typed(ctx) if c.get('family') == 'ill' else hash_law(ctx)
        for m in ctx.mismatches:
            print('REPRODUCED', m.signature, m.detail[:800])
        return 1 if ctx.mismatches else 0
    st = {'init': tup(c['init']), 'env': {k: tup(v) for k, v in (c['env'] or {}).items()}, 'hist': tup(c['hist']), 'status': c['status'],
          'stack': tup(c['stack']), 'failv': tup(c['failv'])}
    cls = replay_fn(ctx, 'C17', c.get('family', '?'), st)
    for m in ctx.mismatches:
        print('REPRODUCED', m.signature, m.detail[:800])
    return 1 if cls else 0


META = {
    'category': 'model_checking',
    'text': ('The reference semantics (MichSem.tla) has no annotations at all, so its behaviours are by construction invariant under re-annotation; VM.tla enumerates every '
             'well-typed program of five families that exercise pairs, right combs (PAIR/UNPAIR/GET/UPDATE n), unions, options, lists and maps with composite keys, and each is '
             'replayed in pytezos under five annotation schemes; stack values, runtime types (annotations stripped) and failures must equal the model.'),
    'design_ref': 'DESIGN.md section 5 C17',
    'note': 'Trusted: annotation injection (C17.py annotate_type / annotate_instr), terms.py. Annotation names are fixed per position; entrypoint and Python-object names are outside this property.',
    'technique': 'TLA+ annotation-free reference semantics; exhaustive program enumeration replayed into pytezos under re-annotation schemes',
}
