"""C22 - a failing REPL cell leaves the session as if it never ran.  Spec: Repl.tla."""
import json, zlib

from ..tlaparse import iter_dump, to_json

CFG = """SPECIFICATION Spec
CONSTANTS MaxCells = %d
 MaxFails = %d
 MaxStack = 3
INVARIANT AsIfNeverRan
INVARIANT CommitIdsDistinct
PROPERTY Rollback
PROPERTY CountersMonotone
"""
STEP_TEXT = {'PUSHNAT': 'PUSH (or nat string) (Left 7)',      # the plain value of the model's sessions is a variant value (its absent branch is a sentinel object)
              'PUSHOPT': 'PUSH (option nat) (Some 1)', 'PUSHNONE': 'PUSH (option nat) None', 'PUSHSTR': 'PUSH string "k"', 'EMPTYBM': 'EMPTY_BIG_MAP string nat', 'UPDATE': 'UPDATE',
             'BEGIN': 'BEGIN Unit {}', 'CDR': 'CDR', 'NILOP': 'NIL operation', 'PAIR': 'PAIR', 'COMMIT': 'COMMIT', 'DROP': 'DROP', 'DROPALL': 'DROP_ALL',
             'STORAGE': 'storage (big_map string nat)', 'PARAMBM': 'parameter (big_map string nat)', 'BEGINPTR': 'BEGIN 5 {}', 'SAPLING': 'SAPLING_EMPTY_STATE 8', 'LISTBM': 'EMPTY_BIG_MAP string nat ; NIL (big_map string nat) ; SWAP ; CONS'}
STEPS = {'push': ['PUSHNAT'], 'newbm': ['EMPTYBM'], 'newbm2': ['EMPTYBM', 'PUSHOPT', 'PUSHSTR', 'UPDATE'], 'upd': ['PUSHOPT', 'PUSHSTR', 'UPDATE'], 'del': ['PUSHNONE', 'PUSHSTR', 'UPDATE'], 'begin': ['BEGIN'],
         'commit': ['CDR', 'PUSHOPT', 'PUSHSTR', 'UPDATE', 'NILOP', 'PAIR', 'COMMIT'], 'drop': ['DROP'], 'dropall': ['DROPALL'], 'storage': ['STORAGE'], 'parambm': ['PARAMBM'], 'beginptr': ['BEGINPTR'], 'sap': ['SAPLING'], 'lbm': ['LISTBM']}


# how a failing cell fails: a plain FAILWITH, a FAILWITH inside a DIP body (the interpreter hides items while the body runs),
# or a run-time error inside a DIP body after the body has already consumed items
FAIL_STYLES = [['PUSH string "boom"', 'FAILWITH'],
               ['PUSH nat 1', 'DIP { PUSH string "boom" ; FAILWITH }'],
               ['PUSH nat 1', 'DIP { ' + ' ; '.join(['DROP'] * 8) + ' }'],
               ['PUSH nat 1', 'PUSH nat 2', 'DIP 2 { PUSH string "boom" ; FAILWITH }'],
               ['PUSH nat 4', 'COMMIT'],            # the helper instruction itself is the failing one (COMMIT wants the result pair, not a nat)
               ['PUSH nat 3', 'PUSH address 0x05aabb'],
               ['PUSH nat 6', 'OPEN_CHEST']]        # a primitive the interpreter does not implement, reached after the cell has already changed the stack     # a malformed optimized literal: the error carries bytes (execute() itself raises while reporting it)


def cell_text(c, fp, style=0):
    steps = [STEP_TEXT[s] for s in STEPS[c]]
    if c == 'parambm':
        return steps[0] if fp == -1 else 'parameter (big_map (list nat) nat)'
    if c == 'storage':
        # a section declaration cannot be mixed with instructions: the failing variant is an ill-formed declaration
        return steps[0] if fp == -1 else 'storage (big_map (list nat) nat)'
    if fp != -1:
        steps = steps[:fp] + FAIL_STYLES[style % len(FAIL_STYLES)] + steps[fp:]
    return ' ; '.join(steps)


def item_abs(item):
    from pytezos.michelson.types import BigMapType, PairType
    prim = item.prim
    if prim == 'big_map':
        return ('bm', item.ptr)
    if prim == 'list' and item.items and getattr(item.items[0], 'prim', None) == 'big_map':
        return ('lst', item.items[0].ptr)
    if prim == 'pair':
        a, b = item.items
        if b.prim == 'big_map' and a.prim in ('unit', 'big_map'):
            return ('begun', b.ptr)
        if b.prim == 'big_map' and a.prim == 'list':
            return ('res', b.ptr)
        return ('pair',)
    return {'nat': ('nat',), 'or': ('nat',), 'option': ('opt',), 'string': ('str',), 'list': ('ops',), 'sapling_state': ('sap',)}.get(prim, (prim,))


def bm_contents(item):
    """local contents of every big_map inside a stack item: (id, bindings, pending removals)"""
    out = []
    def walk(x):
        if getattr(x, 'prim', None) == 'big_map':
            out.append((x.ptr, sorted((json.dumps(k.to_micheline_value(), sort_keys=True), json.dumps(v.to_micheline_value(), sort_keys=True) if v is not None else None) for k, v in x.items),
                        sorted(json.dumps(k.to_micheline_value(), sort_keys=True) for k in getattr(x, 'removed_keys', []))))
        for y in getattr(x, 'items', []) if getattr(x, 'prim', None) in ('pair', 'list') else []:
            walk(y)
    walk(item)
    return tuple(out)


def unbound(interp):
    """values on the stack that refer to a context (big_map, sapling_state) and are bound to another one than the session's current context"""
    out = []
    def walk(x):
        c = getattr(x, 'context', None)
        if c is not None and c is not interp.context:
            out.append(getattr(x, 'prim', '?'))
        for y in getattr(x, 'items', []) if getattr(x, 'prim', None) in ('pair', 'list', 'option') else []:
            if y is not None and not isinstance(y, tuple):
                walk(y)
    for x in interp.stack.items:
        walk(x)
    return tuple(out)


def self_equal(interp):
    """every plain value on the stack equals the value read back from its own Micheline rendering (a value that survived a rollback is still that value)"""
    out = []
    for x in interp.stack.items:
        if getattr(x, 'prim', None) in ('or', 'option', 'nat', 'string', 'pair') and not bm_contents(x):
            try:
                out.append(bool(type(x).from_micheline_value(x.to_micheline_value()) == x))
            except Exception as e:   # noqa
                out.append(type(e).__name__)
    return tuple(out)


def observe(interp):
    ctx = interp.context
    return {'selfeq': self_equal(interp), 'unbound': unbound(interp), 'sapling': getattr(ctx, 'alloc_sapling_index', None), 'bm_contents': tuple(bm_contents(x) for x in interp.stack.items), 'stack': tuple(item_abs(x) for x in interp.stack.items), 'protected': getattr(interp.stack, 'protected', 0), 'tmp': ctx.tmp_big_map_index, 'alloc': ctx.alloc_big_map_index,
            'orig': ctx.origination_index, 'big_maps': dict(ctx.big_maps)}


def commit_diff(res):
    """lazy diff produced by a COMMIT cell"""
    try:
        seq = res.instructions.items[0]
        last = seq.items[-1]
        return [(d['id'], d['diff']['action'], json.dumps(d['diff'].get('updates'), sort_keys=True)) for d in last.lazy_diff]
    except Exception as e:   # noqa
        return ('no-diff', type(e).__name__)


def style_of(hist, k):
    return (k + hist[k][1] + len(hist)) % len(FAIL_STYLES)


def run_session(hist, drop_failing=False):
    from pytezos.michelson.repl import Interpreter
    it = Interpreter()
    for pre in ('parameter unit', 'storage (big_map string nat)'):
        r = it.execute(pre)
        assert r.error is None, r.error
    out = []
    for k, (c, fp) in enumerate(hist):
        if fp != -1 and drop_failing:
            continue
        try:
            r = it.execute(cell_text(c, fp, style_of(hist, k)))
            failed = r.error is not None
        except Exception:   # noqa: a cell whose execution raises is a failing cell as well
            r, failed = None, True
        o = observe(it)
        o['failed'] = failed
        o['commit'] = commit_diff(r) if (c == 'commit' and not failed) else None
        out.append(o)
    return out


def compare(ctx, st):
    hist = st['hist']
    case = {'hist': to_json(hist), 'stack': to_json(st['stack']), 'tmp': st['tmp'], 'alloc': st['alloc'], 'commits': to_json(st['commits']), 'regs': sorted(list(x) for x in (st.get('regs') or []))}
    desc = 'session %s' % json.dumps([cell_text(c, fp, style_of(hist, k)) for k, (c, fp) in enumerate(hist)])
    with_f = run_session(hist)
    without = run_session(hist, drop_failing=True)
    ok = True
    # (1) every failing cell failed, every other cell succeeded
    for (c, fp), o in zip(hist, with_f):
        if o['failed'] != (fp != -1):
            ctx.mismatch('C22:cell-outcome:%s' % c, '%s: cell %r %s' % (desc, cell_text(c, fp), 'failed unexpectedly' if o['failed'] else 'did not fail'), case)
            return False
    # (2) after every surviving cell the session with failing cells equals the session without them
    surv = [o for (c, fp), o in zip(hist, with_f) if fp == -1]
    for k, (a, b) in enumerate(zip(surv, without)):
        for field in ('stack', 'protected', 'bm_contents', 'unbound', 'selfeq', 'sapling', 'tmp', 'alloc', 'orig', 'big_maps', 'commit'):
            if a[field] != b[field]:
                ctx.mismatch('C22:differs-from-failure-free-session:%s' % field,
                             '%s: after surviving cell #%d, %s = %r with the failing cells, %r without them' % (desc, k + 1, field, a[field], b[field]), case)
                ok = False
                break
        if not ok:
            break
    # (3) a failing cell changes nothing observable
    prev = None
    for (c, fp), o in zip(hist, with_f):
        if fp != -1 and prev is not None:
            for field in ('stack', 'protected', 'bm_contents', 'unbound', 'selfeq', 'sapling', 'tmp', 'alloc', 'orig', 'big_maps'):
                if o[field] != prev[field]:
                    ctx.mismatch('C22:failing-cell-changed:%s' % field, '%s: failing cell %r changed %s from %r to %r' % (desc, cell_text(c, fp), field, prev[field], o[field]), case)
                    ok = False
        prev = o
    # (4) the final state is the model's
    if with_f:
        last = with_f[-1]
        model_stack = tuple(tuple(x) for x in st['stack'])
        got_ids = [d[0] for o in with_f if o['commit'] for d in o['commit']] if all(isinstance(o['commit'], (list, type(None))) for o in with_f) else None
        model_regs = sorted(tuple(x) for x in st['regs']) if st.get('regs') else []
        got_regs = sorted((k, v[0]) for k, v in last['big_maps'].items())
        if last['stack'] != model_stack or last['tmp'] != st['tmp'] or last['alloc'] != st['alloc'] or got_ids != [str(x) for x in st['commits']] or got_regs != model_regs:
            if ok:    # report the model disagreement only when the differential comparison did not already explain it
                ctx.mismatch('C22:differs-from-model', '%s: stack %r tmp %s alloc %s commit ids %s; model stack %r tmp %s alloc %s commits %s' % (
                    desc, last['stack'], last['tmp'], last['alloc'], (got_ids, got_regs), model_stack, st['tmp'], st['alloc'], (list(st['commits']), model_regs)), case)
                ok = False
    return ok


def run(ctx):
    ctx.rule = ('sessions of up to N cells over the alphabet push / EMPTY_BIG_MAP / EMPTY_BIG_MAP+UPDATE / UPDATE (bind) / UPDATE (remove) / BEGIN / COMMIT (CDR..UPDATE..PAIR ; COMMIT) / DROP / DROP_ALL / storage '
                'declaration, each cell either clean or with a failure spliced in before its first step, in the middle or after its last step (at most F failing cells; the failure is a plain FAILWITH, a FAILWITH inside a DIP / DIP 2 body, or a stack underflow inside a DIP body that has already dropped items). '
                'Leg A: TLC checks AsIfNeverRan (state = replay of the surviving cells), Rollback, CountersMonotone, CommitIdsDistinct. Leg B: each session runs in a fresh Interpreter '
                'with and without its failing cells; after every surviving cell the stack (big_map ids), tmp/alloc/origination counters, big_map registry and COMMIT lazy diffs must '
                'agree, failing cells must change nothing, and the final state must equal the model; non-trivial = session has a failing cell')
    ctx.assumptions = ['stack items are abstracted to their kind and big_map identifier', 'sessions start with parameter unit / storage (big_map string nat) declared']
    n, f = (3, 2) if ctx.quick else (4, 2)
    keep = 7 if ctx.quick else 6      # sessions of the maximal length are sampled 1/keep (seeded); shorter ones are all replayed
    r = ctx.tlc('Repl', CFG % (n, f), dump=True, timeout=1500, coverage=True)
    ctx.require_no_violation(r, 'Repl')
    ctx.require_coverage(r, ['Cell'])
    states = [st for st in iter_dump(r.dump) if st['hist']]
    states.sort(key=lambda s: (len(s['hist']), repr(s['hist'])))
    bad = set()
    for st in states:
        h = st['hist']
        if h[:-1] in bad:
            bad.add(h)
            ctx.skip('extension of a session that already diverged')
            continue
        if len(h) == n and (zlib.crc32(repr(h).encode()) + ctx.seed) % keep:
            ctx.skip('sampling of the longest sessions')
            continue
        ok = compare(ctx, st)
        if not ok:
            bad.add(h)
        ctx.replayed += 1
        ctx.count(h, nontrivial=any(fp != -1 for _, fp in h))
        if ok and len(h) == n and ctx.replayed % 499 == 1:
            ctx.sample({'cells': [cell_text(c, fp, style_of(h, k)) for k, (c, fp) in enumerate(h)], 'model': {'stack': st['stack'], 'tmp': st['tmp'], 'alloc': st['alloc'], 'commits': st['commits']}}, limit=5)
    ctx.exhaustive = False
    if not any(fp != -1 for st in states for _, fp in st['hist']):
        raise Exception('vacuity: no failing cell explored')


def replay(ctx, rep):
    c = rep['case']
    tup = lambda x: tuple(tup(y) for y in x) if isinstance(x, list) else x
    st = {'hist': tup(c['hist']), 'stack': tup(c['stack']), 'tmp': c['tmp'], 'alloc': c['alloc'], 'commits': tup(c['commits']), 'regs': set(tuple(x) for x in (c.get('regs') or []))}
    ok = compare(ctx, st)
    for m in ctx.mismatches:
        print('REPRODUCED', m.signature, m.detail[:900])
    return 0 if ok else 1


META = {
    'category': 'model_checking',
    'text': ('Repl.tla models a REPL session cell by cell: each cell is a sequence of primitive steps acting on the observable state (stack with big_map identifiers, temporary '
             'and allocation counters, identifiers of committed diffs), and a failing cell - the cell with a FAILWITH spliced in at a chosen position - changes nothing. TLC '
             'enumerates every session up to the bound with failures at every chosen position and checks that the state always equals the replay of the surviving cells. Every '
             'session is run in pytezos twice (with and without its failing cells) and compared after every surviving cell, and against the model at the end.'),
    'design_ref': 'DESIGN.md section 5 C22, A.4',
    'note': 'Trusted: abstraction of stack items (C22.py item_abs), cell texts. Bounds: 13 cell kinds (incl. a sapling state), 7 failure styles (incl. an unimplemented primitive), 3 (4) cells, at most 2 failing cells, failure positions {first, middle, last}, stack <= 3; sessions of the maximal length are replayed as a seeded 1/7 (1/6) sample, shorter ones exhaustively.',
    'technique': 'TLA+ session model with rollback action property, TLC exhaustive; differential replay of sessions with/without failing cells in the real Interpreter + comparison with the model',
}
