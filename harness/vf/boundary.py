"""Stubs at the *library boundary* (requests.request, time.sleep).  No pytezos function is
patched.  `install()` must run before pytezos.rpc.node is imported, because that module
does `from time import sleep`."""
import json, sys, time

import requests

LOG = []          # events seen at the boundary
SCRIPT = []       # responses still to be served (list of requests.Response)
_installed = False


class ScriptExhausted(Exception):
    pass


REAL_SLEEP = [0.0]   # seconds really slept per (virtual) sleep: lets wall-clock time pass for code that looks at a clock of its own
_real_sleep = time.sleep


def _sleep(d):
    LOG.append(('sleep', d))
    if REAL_SLEEP[0]:
        _real_sleep(REAL_SLEEP[0])


def _request(method=None, url=None, **kw):
    if not SCRIPT:
        LOG.append(('send', None))
        raise ScriptExhausted('no scripted response left for %s %s' % (method, url))
    r = SCRIPT.pop(0)
    LOG.append(('send', r))
    if isinstance(r, BaseException):      # a scripted transport failure (raised by the library, e.g. ConnectionError)
        raise r
    return r


def install():
    global _installed
    if _installed:
        return
    assert 'pytezos.rpc.node' not in sys.modules, 'boundary.install() must precede the pytezos import'
    time.sleep = _sleep
    requests.request = _request
    _installed = True


def make_response(code, ctype, body):
    r = requests.Response()
    r.status_code = code
    if ctype is not None:
        r.headers['content-type'] = ctype
    r._content = body if isinstance(body, bytes) else body.encode()
    r.encoding = 'utf-8'
    return r


def reset(script):
    del LOG[:]
    SCRIPT[:] = script
