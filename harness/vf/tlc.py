"""Run TLC / SANY under a timeout and collect its statistics.

TLC is always started through a direct `java -Xss.. -cp .. tlc2.TLC` call (the `tlc`
wrapper has no -Xss), with cwd = /verif/spec so that every module is found, a private
-metadir under the work directory and an outer timeout.  A non-zero TLC exit that is not
an invariant/property violation is a *machinery* failure (MachineryError -> exit 2).
"""
import os, re, shutil, subprocess, time

ROOT = os.path.dirname(os.path.dirname(os.path.dirname(os.path.abspath(__file__))))
SPEC = os.path.join(ROOT, 'spec')
JARS = '/opt/veriftools/tla/tla2tools.jar:/opt/veriftools/tla/CommunityModules-deps.jar'


class MachineryError(Exception):
    pass


class TlcResult:
    def __init__(self):
        self.generated = 0
        self.distinct = 0
        self.depth = 0
        self.violation = None      # name of violated invariant / property, or None
        self.output = ''
        self.wall = 0.0
        self.dump = None
        self.coverage = {}         # action name -> (distinct, generated)
        self.printed = []          # raw lines printed by PrintT
        self.simfiles = []

    def as_dict(self):
        return dict(generated=self.generated, distinct=self.distinct, depth=self.depth,
                    violation=self.violation, wall_s=round(self.wall, 2), coverage=self.coverage)


def workdir(prop):
    d = os.path.join(os.environ.get('VERIF_WORK') or os.path.join(ROOT, '.work'), prop)
    os.makedirs(d, exist_ok=True)
    return d


def clean(prop):
    d = os.path.join(os.environ.get('VERIF_WORK') or os.path.join(ROOT, '.work'), prop)
    shutil.rmtree(d, ignore_errors=True)
    os.makedirs(d, exist_ok=True)
    return d


def run(module, cfg_text, wd, name=None, dump=False, simulate=None, depth=None, workers=None,
        timeout=600, seed=None, coverage=True, env=None, deadlock=False, heap='4g', stack='256m',
        dfs=False, gen=None):
    """Run TLC on spec/<module>.tla with the given configuration text."""
    name = name or module
    cfg = os.path.join(wd, name + '.cfg')
    with open(cfg, 'w') as f:
        f.write(cfg_text)
    meta = os.path.join(wd, name + '.meta')
    shutil.rmtree(meta, ignore_errors=True)
    cwd = SPEC
    cmd = ['timeout', str(timeout), 'java', '-XX:+UseParallelGC', '-Xss' + stack, '-Xmx' + heap]
    if gen:
        # generated wrapper modules (constants too rich for a .cfg) live in the work directory
        for mname, text in gen.items():
            with open(os.path.join(wd, mname + '.tla'), 'w') as f:
                f.write(text)
        cwd = wd
        cmd.append('-DTLA-Library=' + SPEC)
    if dfs:
        cmd.append('-Dtlc2.tool.queue.IStateQueue=StateDeque')
    cmd += ['-cp', JARS, 'tlc2.TLC', '-config', cfg, '-metadir', meta, '-noGenerateSpecTE']
    if workers is None:
        workers = 'auto'
    cmd += ['-workers', str(workers)]
    if not deadlock:
        cmd.append('-deadlock')
    res = TlcResult()
    if dump:
        res.dump = os.path.join(wd, name + '.dump')
        if os.path.exists(res.dump):
            os.unlink(res.dump)
        cmd += ['-dump', res.dump[:-5]]
    if simulate is not None:
        simdir = os.path.join(wd, name + '.sim')
        shutil.rmtree(simdir, ignore_errors=True)
        os.makedirs(simdir)
        cmd += ['-simulate', 'file=%s/tr,num=%d' % (simdir, simulate)]
        if depth:
            cmd += ['-depth', str(depth)]
    if seed is not None:
        cmd += ['-seed', str(seed)]
    if coverage and simulate is None:
        cmd += ['-coverage', '1']
    cmd.append(module)
    e = dict(os.environ)
    e.pop('JAVA_TOOL_OPTIONS', None)
    if env:
        e.update(env)
    t0 = time.time()
    p = subprocess.run(cmd, cwd=cwd, env=e, stdout=subprocess.PIPE, stderr=subprocess.STDOUT, text=True)
    res.wall = time.time() - t0
    out = p.stdout
    res.output = out
    with open(os.path.join(wd, name + '.out'), 'w') as f:
        f.write(out)
    if simulate is not None:
        simdir = os.path.join(wd, name + '.sim')
        res.simfiles = sorted(os.path.join(simdir, x) for x in os.listdir(simdir))
    m = None
    for m in re.finditer(r'(\d+) states generated, (\d+) distinct states found', out):
        pass
    if m:
        res.generated, res.distinct = int(m.group(1)), int(m.group(2))
    m = re.search(r'The depth of the complete state graph search is (\d+)', out)
    if m:
        res.depth = int(m.group(1))
    m = re.search(r'Invariant (\S+) is violated', out)
    if m:
        res.violation = m.group(1)
    m2 = re.search(r'Action property (\S+) is violated', out) or re.search(r'Temporal properties were violated', out)
    if m2 and not res.violation:
        res.violation = m2.group(1) if m2.groups() else 'temporal'
    # coverage: "<Name line .. of module M>: distinct:generated"
    for cm in re.finditer(r'^<(\w+) line \d+, col \d+ to line \d+, col \d+ of module (\w+)(?: \([\d ]+\))?>: (\d+):(\d+)', out, re.M):
        k = cm.group(1)
        a, b = res.coverage.get(k, (0, 0))
        res.coverage[k] = (a + int(cm.group(3)), b + int(cm.group(4)))
    if p.returncode == 124:
        raise MachineryError('TLC timed out after %ss on %s (%s)' % (timeout, module, cfg))
    ok_codes = (0, 12, 13)   # 12 = safety violation, 13 = liveness violation
    if re.search(r'Postcondition \S+ .*is false', out):
        res.violation = res.violation or 'POSTCONDITION'
    elif p.returncode not in ok_codes or (p.returncode != 0 and res.violation is None):
        raise MachineryError('TLC failed (exit %d) on %s:\n%s' % (p.returncode, module, out[-3000:]))
    res.printed = printed_values(out)
    if simulate is None and not m and res.generated == 0:
        raise MachineryError('TLC printed no state counts for %s:\n%s' % (module, out[-2000:]))
    return res


def printed_values(out, tags=('REJECT', 'INFO', 'OUT')):
    """Values printed with PrintT(<<"TAG", ...>>), possibly over several lines (bracket matching)."""
    from .tlaparse import P
    vals = []
    for m in re.finditer(r'^<<\s*"(%s)"' % '|'.join(tags), out, re.M):
        try:
            vals.append(P(out, m.start()).val())
        except Exception:
            pass
    return vals


def sany(module, timeout=120):
    p = subprocess.run(['timeout', str(timeout), 'java', '-cp', JARS, 'tla2sany.SANY', module + '.tla'], cwd=SPEC,
                       stdout=subprocess.PIPE, stderr=subprocess.STDOUT, text=True)
    return p.returncode == 0 and 'error' not in p.stdout.lower().replace('errors: 0', ''), p.stdout
