"""Independent Base58Check (hashlib + own base-58 conversion); shares no code with pytezos or the `base58` package.
Used as the interpretation of the uninterpreted `Cksum` of spec/Base58.tla and to concretise atoms of spec/DomainBin.tla."""
import hashlib

ALPHABET = '123456789ABCDEFGHJKLMNPQRSTUVWXYZabcdefghijkmnopqrstuvwxyz'
_IDX = {c: i for i, c in enumerate(ALPHABET)}


def cksum(body: bytes) -> bytes:
    return hashlib.sha256(hashlib.sha256(body).digest()).digest()[:4]


def b58(raw: bytes) -> str:
    n = int.from_bytes(raw, 'big')
    out = []
    while n:
        n, r = divmod(n, 58)
        out.append(ALPHABET[r])
    zeros = len(raw) - len(raw.lstrip(b'\x00'))
    return '1' * zeros + ''.join(reversed(out))


def unb58(text: str):
    """bytes, or None when a character is outside the alphabet."""
    n = 0
    for c in text:
        if c not in _IDX:
            return None
        n = n * 58 + _IDX[c]
    zeros = len(text) - len(text.lstrip('1'))
    body = n.to_bytes((n.bit_length() + 7) // 8, 'big') if n else b''
    return b'\x00' * zeros + body


def b58check(prefix: bytes, payload: bytes) -> str:
    body = prefix + payload
    return b58(body + cksum(body))


def check_ok(raw: bytes) -> bool:
    return len(raw) >= 4 and cksum(raw[:-4]) == raw[-4:]
