"""Shared by C07 / C08: TLC configuration of KeyFlow.tla and the observation of pytezos through its public API
(Key methods, CHECK_SIGNATURE / HASH_KEY instructions).  No pytezos function is patched."""
from . import cryptoref as cr

CFG = """SPECIFICATION Spec
CONSTANTS Flows = {%s}
 PassIds = {1, 2}
 WordCounts = {11, 12, 13, 15, 18, 21, 24, 25}
 AsCoded = %s
%s
"""


def cfg(flows, invariants, as_coded=False):
    return CFG % (', '.join('"%s"' % f for f in flows), 'TRUE' if as_coded else 'FALSE',
                  '\n'.join('INVARIANT ' + i for i in invariants))


def outcome(fn, *a, **kw):
    """('ret', value) or ('raise', exception class name, text)"""
    try:
        return ('ret', fn(*a, **kw))
    except Exception as e:   # noqa: every exception is an observation
        return ('raise', type(e).__name__, str(e)[:120])


def key_from_secret(curve, secret, long_form=False):
    """long_form (Ed25519 only): the 64-byte secret key seed || public key, as carried by the 98-character edsk encoding"""
    from pytezos.crypto.key import Key
    if long_form and curve == 'ed':
        return Key.from_secret_exponent(secret + cr.public_key('ed', secret), curve=cr.PY_CURVE[curve])
    return Key.from_secret_exponent(secret, curve=cr.PY_CURVE[curve])


def key_state(k):
    """what 'the same key' means: curve, public point, secret exponent"""
    return (bytes(k.curve), bytes(k.public_point), bytes(k.secret_exponent) if k.secret_exponent else None)


def _item(prim, j):
    from pytezos.michelson.types.base import MichelsonType
    return MichelsonType.match({'prim': prim}).from_micheline_value(j)


def run_instr(prim, items):
    """Execute one Michelson instruction on a fresh stack; items = [(type prim, micheline value)], top first.
    Returns ('ret', micheline of the single result) or ('raise', class, text)."""
    import pytezos.michelson.instructions  # noqa: registers the instructions
    from pytezos.context.impl import ExecutionContext
    from pytezos.michelson.instructions.base import MichelsonInstruction
    from pytezos.michelson.stack import MichelsonStack

    def go():
        stack = MichelsonStack([_item(t, j) for t, j in items])
        MichelsonInstruction.match({'prim': prim}).execute(stack, [], ExecutionContext())
        if len(stack.items) != 1:
            raise AssertionError('%s left %d items' % (prim, len(stack.items)))
        return stack.items[0].to_micheline_value()
    return outcome(go)


def check_signature(pk, sig, msg):
    """'true' / 'false' / 'raises-<Class>'"""
    o = run_instr('CHECK_SIGNATURE', [('key', {'string': pk}), ('signature', {'string': sig}), ('bytes', {'bytes': msg.hex()})])
    if o[0] == 'raise':
        return 'raises-' + o[1], o[2]
    if o[1] == {'prim': 'True'}:
        return 'true', ''
    if o[1] == {'prim': 'False'}:
        return 'false', ''
    return 'result-not-bool', str(o[1])


def hash_key(pk):
    o = run_instr('HASH_KEY', [('key', {'string': pk})])
    if o[0] == 'raise':
        return 'raises-' + o[1] + ': ' + o[2]
    return o[1].get('string', str(o[1]))


def in_form(message, msgform):
    """The message as handed to the API in one of the three forms (they denote the same bytes)."""
    if msgform == 'bytes':
        return message
    if msgform == 'hex':
        return message.hex()
    return '0x' + message.hex()


def flip(b, bit):
    b = bytearray(b)
    b[bit // 8] ^= 0x80 >> (bit % 8)
    return bytes(b)
