"""Instruction families (alphabets, initial stacks, environments) for the VM state machine."""
INT, NAT, STR, BYT, BOOL, UNIT, MUTEZ, TS, ADDR = ('int',), ('nat',), ('string',), ('bytes',), ('bool',), ('unit',), ('mutez',), ('timestamp',), ('address',)
P = lambda a, b: ('pair', a, b)
OPT = lambda a: ('option', a)
OR = lambda a, b: ('or', a, b)
LIST = lambda a: ('list', a)
SET = lambda a: ('set', a)
MAP = lambda k, v: ('map', k, v)
LAM = lambda a, b: ('lambda', a, b)
i = lambda n: ('i', n)
s = lambda x: ('s', tuple(x.encode()))
b = lambda x: ('b', tuple(x))
T_, F_ = ('bool', True), ('bool', False)
U = ('unit',)
p = lambda x, y: ('p', x, y)
some = lambda x: ('some', x)
none = ('none',)
left = lambda x: ('l', x)
right = lambda x: ('r', x)
lst = lambda *x: ('list', tuple(x))
PUSH = lambda t, v: ('PUSH', t, v)
DROP = lambda n=1: ('DROP', n)
DUP = lambda n=1: ('DUP', n)
DIP = lambda n, *body: ('DIP', n, tuple(body))
IF = lambda a, b_: ('IF', tuple(a), tuple(b_))
S = lambda t, v: (t, v)


def addr(kind, fill, ep=''):
    """model address: 22 optimized bytes + entrypoint"""
    if kind < 4:
        raw = (0, kind) + (fill,) * 20
    else:
        raw = (kind - 3,) + (fill,) * 20 + (0,)
    return ('a', raw, tuple(ep.encode()))


FAMILIES = {}


def fam(name, **kw):
    FAMILIES[name] = kw
    return kw


fam('stack', depth=3, maxstack=5,
    inits=[(S(INT, i(1)), S(NAT, i(2)), S(STR, s('a'))), (S(P(INT, NAT), p(i(3), i(4))),), ()],
    alphabet=[PUSH(INT, i(7)), PUSH(STR, s('zz')), DROP(1), DROP(2), DROP(0), DUP(1), DUP(2), DUP(3), ('SWAP',), ('DIG', 2), ('DUG', 2), ('DIG', 0), ('DUG', 1),
              DIP(1, DROP(1)), DIP(2, PUSH(NAT, i(3))), DIP(0, PUSH(BOOL, T_)), DIP(1, ('SWAP',)), ('CAST', INT), ('RENAME',)])

# every stack instruction also *inside* DIP bodies (pytezos implements DIP by moving a `protected` mark over one shared list)
_inner = [DROP(1), DUP(1), DUP(2), ('SWAP',), ('DIG', 1), ('DIG', 2), ('DUG', 1), ('DUG', 2), PUSH(NAT, i(9)), ('PAIR', 2), ('UNPAIR', 2), ('CAR',), DIP(1, DROP(1)), DIP(1, ('DUG', 1)),
          DIP(1, ('DIG', 1)), DROP(2), ('UNIT',)]
fam('dipstack', depth=2, maxstack=6,
    inits=[(S(INT, i(1)), S(NAT, i(2)), S(STR, s('a')), S(BOOL, T_), S(P(INT, NAT), p(i(3), i(4))))],
    alphabet=[DIP(n, x) for n in (1, 2, 3) for x in _inner] + [DIP(1, ('DUG', 1), ('DIG', 2)), DIP(2, DUP(2), ('DUG', 2))])

fam('adt', depth=3, maxstack=4,
    inits=[(S(INT, i(1)), S(NAT, i(2)), S(STR, s('a')), S(BOOL, T_)), (S(P(INT, P(NAT, STR)), p(i(3), p(i(4), s('x')))),),
           (S(OR(INT, STR), left(i(5))),), (S(OR(INT, STR), right(s('r'))),)],
    alphabet=[('PAIR', 2), ('PAIR', 3), ('UNPAIR', 2), ('UNPAIR', 3), ('CAR',), ('CDR',), ('GET', 0), ('GET', 1), ('GET', 2), ('GET', 3), ('GET', 4),
              ('UPDATE', 1), ('UPDATE', 2), ('UPDATE', 0), ('LEFT', NAT), ('RIGHT', NAT), ('UNIT',),
              ('IF_LEFT', (PUSH(INT, i(1)), ('ADD',)), (('SIZE',), ('INT',))), ('SWAP',)])

fam('optlist', depth=3, maxstack=4,
    inits=[(S(INT, i(1)), S(INT, i(2))), (S(LIST(INT), lst(i(1), i(0), i(3))),), (S(OPT(INT), some(i(0))),), (S(OPT(INT), none),), (S(LIST(INT), lst()),)],
    alphabet=[('SOME',), ('NONE', INT), ('NIL', INT), ('CONS',), ('SIZE',), ('SWAP',), DROP(1),
              ('IF_NONE', (PUSH(INT, i(0)),), (PUSH(INT, i(1)), ('ADD',))),
              ('IF_CONS', (('SWAP',), DROP(1)), (PUSH(INT, i(-1)),)),
              ('MAP', (PUSH(INT, i(10)), ('ADD',))), ('MAP', (('SOME',),)), ('MAP', (DROP(1), PUSH(STR, s('k')))),
              ('ITER', (('ADD',),)), ('ITER', (('CONS',),)), PUSH(INT, i(5))])

fam('control', depth=3, maxstack=4, fuel=4,
    inits=[(S(BOOL, T_), S(INT, i(2))), (S(BOOL, F_), S(INT, i(2))), (S(INT, i(3)),), (S(OR(INT, STR), left(i(2))),)],
    alphabet=[IF([PUSH(INT, i(1)), ('ADD',)], [PUSH(INT, i(2)), ('SWAP',), ('SUB',)]), IF([('FAILWITH',)], []),
              ('LOOP', (PUSH(INT, i(-1)), ('ADD',), DUP(1), ('GT',))), DUP(1), ('GT',), ('EQ',), ('SWAP',), ('FAILWITH',),
              ('LOOP_LEFT', (DUP(1), ('GT',), IF([PUSH(INT, i(-1)), ('ADD',), ('LEFT', STR)], [DROP(1), PUSH(STR, s('done')), ('RIGHT', INT)]))),
              ('LAMBDA', INT, INT, (PUSH(INT, i(2)), ('MUL',))), ('EXEC',),
              ('LAMBDA', P(INT, INT), INT, (('UNPAIR', 2), ('SUB',))), ('APPLY',),
              ('LAMBDA_REC', INT, INT, (DUP(1), ('EQ',), IF([DIP(1, DROP(1))], [PUSH(INT, i(-1)), ('ADD',), ('EXEC',)]))),
              PUSH(INT, i(2))])

fam('text', depth=3, maxstack=4,
    inits=[(S(STR, s('abc')), S(STR, s(''))), (S(BYT, b([1, 2, 3])), S(BYT, b([]))), (S(LIST(STR), lst(s('a'), s(''), s('bc'))),)],
    alphabet=[('CONCAT',), ('SIZE',), ('SLICE',), ('SWAP',), DUP(1), DUP(2), PUSH(NAT, i(0)), PUSH(NAT, i(1)), PUSH(NAT, i(3)), PUSH(NAT, i(2)),
              ('IF_NONE', (PUSH(STR, s('none')),), ()), ('IF_NONE', (PUSH(BYT, b([255])),), ()), DROP(1)])

fam('logic', depth=3, maxstack=4,
    inits=[(S(INT, i(-1)), S(INT, i(0)), S(INT, i(1))), (S(BOOL, T_), S(BOOL, F_)), (S(NAT, i(5)), S(NAT, i(3)), S(INT, i(-6)))],
    alphabet=[('COMPARE',), ('EQ',), ('NEQ',), ('LT',), ('GT',), ('LE',), ('GE',), ('AND',), ('OR',), ('XOR',), ('NOT',), ('SWAP',), DUP(1), DUP(2), DROP(1), ('DIG', 2)])

fam('arith', depth=3, maxstack=4,
    inits=[(S(INT, i(-7)), S(NAT, i(2)), S(INT, i(0))), (S(MUTEZ, i(10)), S(MUTEZ, i(3)), S(NAT, i(4))), (S(TS, i(100)), S(INT, i(-30)), S(TS, i(50))),
           (S(NAT, i(257)), S(NAT, i(3)), S(NAT, i(300)))],
    alphabet=[('ADD',), ('SUB',), ('SUB_MUTEZ',), ('MUL',), ('EDIV',), ('NEG',), ('ABS',), ('ISNAT',), ('INT',), ('LSL',), ('LSR',), ('SWAP',), DUP(1), DUP(2),
              ('DIG', 2), ('IF_NONE', (('UNIT',), ('FAILWITH',)), (('UNPAIR', 2),)), DROP(1)])

A1, A2, K1, S1 = addr(0, 17), addr(1, 34), addr(4, 51), addr(6, 68)
fam('env', depth=2, maxstack=3,
    inits=[(), (S(MUTEZ, i(1)),)],
    envs=[{'AMOUNT': i(0), 'BALANCE': i(0), 'SENDER': A1, 'SOURCE': A1, 'SELF_ADDRESS': K1, 'NOW': i(0), 'LEVEL': i(1), 'CHAIN_ID': ('o', (1, 2, 3, 4))},
          {'AMOUNT': i(5000), 'BALANCE': i(1000000), 'SENDER': K1, 'SOURCE': A2, 'SELF_ADDRESS': addr(4, 85), 'NOW': i(1700000000), 'LEVEL': i(123456),
           'CHAIN_ID': ('o', (122, 6, 167, 112))}],
    alphabet=[('AMOUNT',), ('BALANCE',), ('SENDER',), ('SOURCE',), ('SELF_ADDRESS',), ('NOW',), ('LEVEL',), ('CHAIN_ID',), ('ADD',), ('COMPARE',), ('PAIR', 2), DROP(1)])

fam('hash', depth=3, maxstack=3,
    inits=[(S(BYT, b([])),), (S(BYT, b([0, 255, 16])),), (S(BYT, b([7] * 135)),), (S(BYT, b([9] * 136)),), (S(BYT, b([200] * 55)),),
           (S(BYT, b([3] * 272)),), (S(BYT, b(list(range(256)) + [1] * 17)),), (S(BYT, b([5] * 137)),), (S(BYT, b([6] * 1100)),)],     # lengths next to the block / padding boundaries, and two / many complete blocks
    alphabet=[('BLAKE2B',), ('SHA256',), ('SHA512',), ('SHA3',), ('KECCAK',), DUP(1), ('SIZE',), ('PAIR', 2)])

KI = [i(1), i(2), i(3)]
fam('coll', depth=4, maxstack=4,
    inits=[(S(SET(INT), ('set', ())),), (S(MAP(INT, STR), ('map', ())),), (S(MAP(INT, STR), ('map', ((i(1), s('')), (i(3), s('w'))))),)],
    alphabet=[PUSH(INT, i(2)), PUSH(INT, i(1)), PUSH(INT, i(3)), PUSH(BOOL, T_), PUSH(BOOL, F_), PUSH(OPT(STR), some(s(''))), PUSH(OPT(STR), some(s('w'))),
              PUSH(OPT(STR), none), ('UPDATEK',), ('MEM',), ('GETK',), ('GET_AND_UPDATE',), ('SIZE',), DUP(1), DUP(2), DUP(3), DROP(1),
              ('ITER', (DROP(1),)), ('MAP', (('CDR',), ('SIZE',)))])

# lookups in non-empty maps whose values are falsy Python objects once projected ("" / False / empty list): present is present
fam('collget', depth=3, maxstack=3,
    inits=[(S(MAP(INT, STR), ('map', ((i(1), s('')), (i(3), s('w'))))),), (S(MAP(STR, BOOL), ('map', ((s(''), F_), (s('a'), T_)))),),
           (S(MAP(INT, LIST(INT)), ('map', ((i(0), lst()), (i(2), lst(i(0)))))),), (S(MAP(INT, OPT(INT)), ('map', ((i(1), none), (i(2), some(i(0)))))),)],
    alphabet=[PUSH(INT, i(1)), PUSH(INT, i(2)), PUSH(INT, i(0)), PUSH(STR, s('')), PUSH(STR, s('a')), ('GETK',), ('MEM',), ('IF_NONE', (('UNIT',), ('FAILWITH',)), ()),
              ('SIZE',), DUP(2), ('SWAP',),
              # a copy is a value of its own: update the copy (a new key / a removal), the original below stays what it was
              ('SEQ', (DUP(1), PUSH(OPT(STR), some(s('n'))), PUSH(INT, i(7)), ('UPDATEK',))), ('SEQ', (DUP(1), PUSH(OPT(STR), none), PUSH(INT, i(1)), ('UPDATEK',)))])


# collections far larger than the exhaustive key pools: implementations that switch algorithm with size (bisection above a threshold, a hash index, a
# re-sort skipped "because the list is already sorted") behave the same up to a handful of entries and differently beyond
def _bigmap(n):
    return ('map', tuple((i(2 * k), s('v%d' % (2 * k))) for k in range(1, n + 1)))


def _bigset(n):
    return ('set', tuple(i(2 * k) for k in range(1, n + 1)))


_BK = [0, 2, 7, 16, 18, 34, 40, 41, 52, 80, 100]     # below all, first, absent in the middle, present, last of 9, last of 17, last of 20, above, present in / last of 40, far above
_mops, _sops = [], []
for _k in _BK:
    _mops += [('SEQ', (PUSH(OPT(STR), some(s('n'))), PUSH(INT, i(_k)), ('UPDATEK',))), ('SEQ', (PUSH(OPT(STR), none), PUSH(INT, i(_k)), ('UPDATEK',))),
              ('SEQ', (DUP(1), PUSH(INT, i(_k)), ('GETK',), ('SWAP',))), ('SEQ', (DUP(1), PUSH(INT, i(_k)), ('MEM',), ('SWAP',))),
              ('SEQ', (PUSH(OPT(STR), some(s('g'))), PUSH(INT, i(_k)), ('GET_AND_UPDATE',), ('SWAP',)))]
    _sops += [('SEQ', (PUSH(BOOL, T_), PUSH(INT, i(_k)), ('UPDATEK',))), ('SEQ', (PUSH(BOOL, F_), PUSH(INT, i(_k)), ('UPDATEK',))),
              ('SEQ', (DUP(1), PUSH(INT, i(_k)), ('MEM',), ('SWAP',)))]
_mops += [('SEQ', (DUP(1), ('SIZE',), ('SWAP',))), ('SEQ', (DUP(1), ('NIL', P(INT, STR)), ('SWAP',), ('ITER', (('CONS',),)), ('SWAP',))), ('MAP', (('CDR',), ('SIZE',)))]
_sops += [('SEQ', (DUP(1), ('SIZE',), ('SWAP',))), ('SEQ', (DUP(1), ('NIL', INT), ('SWAP',), ('ITER', (('CONS',),)), ('SWAP',)))]
fam('bigmap', depth=2, maxstack=3, inits=[(S(MAP(INT, STR), _bigmap(n)),) for n in (9, 17, 20, 40)], alphabet=_mops)
fam('bigset', depth=2, maxstack=3, inits=[(S(SET(INT), _bigset(n)),) for n in (9, 17, 20, 40)], alphabet=_sops)

# every value instruction also below the top of the stack: DIP n { I } on x1 .. xn : S  =  x1 .. xn : (I on S).  An implementation that addresses the
# stack by absolute position somewhere (instead of relative to the protected prefix) is right at the top and wrong here
_dops = [('NEG',), ('ABS',), ('ISNAT',), ('INT',), ('NOT',), ('ADD',), ('SUB',), ('MUL',), ('EDIV',), ('COMPARE',), ('EQ',), ('GT',), ('AND',), ('OR',), ('XOR',),
         ('LSL',), ('LSR',), ('SOME',), ('CAR',), ('CDR',), ('SIZE',), ('CONCAT',), ('PAIR', 2), ('UNPAIR', 2), ('LEFT', NAT), ('RIGHT', NAT), ('NONE', INT), ('UNIT',),
         ('CONS',), ('NIL', INT), ('IF_NONE', (PUSH(INT, i(0)),), ()), ('IF_LEFT', (), (('SIZE',), ('INT',))), ('IF_CONS', (('SWAP',), DROP(1)), (PUSH(INT, i(-1)),)),
         ('GET', 1), ('GET', 2), ('UPDATE', 1), ('SLICE',), ('MEM',), ('GETK',), ('UPDATEK',), ('EMPTY_SET', INT), ('ITER', (DROP(1),)), ('MAP', (('SOME',),)),
         ('BLAKE2B',), ('PACK_DUMMY',)][:-1]
fam('dipops', depth=2, maxstack=7,
    inits=[(S(STR, s('top')), S(INT, i(-7)), S(INT, i(3)), S(NAT, i(2)), S(NAT, i(5)), S(INT, i(4))),
           (S(INT, i(9)), S(STR, s('ab')), S(STR, s('c')), S(NAT, i(1)), S(NAT, i(0)), S(P(INT, NAT), p(i(3), i(4)))),
           (S(NAT, i(8)), S(BOOL, T_), S(BOOL, F_), S(OPT(INT), some(i(1))), S(LIST(INT), lst(i(1), i(2))), S(OR(INT, STR), left(i(5)))),
           (S(UNIT, U), S(INT, i(1)), S(SET(INT), ('set', (i(1), i(4)))), S(BYT, b([1, 2])), S(MAP(INT, STR), ('map', ((i(1), s('x')),))))],
    alphabet=[DIP(n, x) for n in (1, 2) for x in _dops] + [('DIG', 2), ('SWAP',), DROP(1)])

# values obtained as a *part* of another value (the tail of a list, a component of a pair, the value of a map entry) and then used as data by every consumer
# that looks at a value's representation rather than at its elements: captured by APPLY (written into the closure as a literal), packed, compared, consed
_capcall = lambda t: ('SEQ', (('LAMBDA', P(t, INT), t, (('CAR',),)), ('SWAP',), ('APPLY',), PUSH(INT, i(0)), ('EXEC',)))
fam('parts', depth=3, maxstack=3,
    inits=[(S(LIST(INT), lst(i(1), i(2), i(3))),), (S(LIST(INT), lst(i(7))),), (S(P(LIST(INT), INT), p(lst(i(4), i(5)), i(6))),)],
    alphabet=[('IF_CONS', (DROP(1),), (('NIL', INT),)), ('IF_CONS', (('SWAP',), DROP(1), ('NIL', INT), ('SWAP',), ('CONS',)), (('NIL', INT),)), _capcall(LIST(INT)),
              ('CAR',), ('SIZE',), ('SEQ', (PUSH(INT, i(9)), ('CONS',))), ('MAP', (PUSH(INT, i(1)), ('ADD',))), DUP(1), ('SEQ', (('NIL', INT), ('SWAP',), ('ITER', (('CONS',),)))),
              ('SEQ', (('LAMBDA', LIST(INT), INT, (('SIZE',), ('INT',))), ('SWAP',), ('EXEC',)))])
