"""Leg C for the interpreter: record hook traces (PYTEZOS_VERIF_TRACE) and validate them with TLC."""
import collections, json, os, subprocess, sys

from . import terms
from .tlaparse import to_json

ENV_INSTRS = {'AMOUNT', 'BALANCE', 'SENDER', 'SOURCE', 'SELF_ADDRESS', 'NOW', 'LEVEL', 'TOTAL_VOTING_POWER', 'MIN_BLOCK_TIME', 'CHAIN_ID', 'TICKET'}


def record_pytest(wd, test_paths, name='hook'):
    """Run repository tests in a subprocess with the hook on; returns the ndjson path."""
    out = os.path.join(wd, name + '.ndjson')
    if os.path.exists(out):
        os.unlink(out)
    env = dict(os.environ, PYTEZOS_VERIF_TRACE=out, PYTHONHASHSEED='0')
    p = subprocess.run([sys.executable, '-m', 'pytest', '-q', '-p', 'no:cacheprovider', '-x', '--timeout=600'] + test_paths,
                       cwd='/repo', env=env, stdout=subprocess.PIPE, stderr=subprocess.STDOUT, text=True)
    return out, p.returncode, p.stdout[-600:]


def uses_env(i):
    if not i:
        return False
    if isinstance(i[0], str):
        if i[0] in ENV_INSTRS:
            return True
        return any(uses_env(x) for x in i[1:] if isinstance(x, tuple))
    return any(uses_env(x) for x in i if isinstance(x, tuple))


def project(raw_events, ctx=None, want=None):
    """hook events -> model events; unsupported ones are counted in `skipped`."""
    out, skipped = [], collections.Counter()
    for idx, e in enumerate(raw_events):
        try:
            if e.get('prim') is None:
                raise terms.Unsup('sequence wrapper')
            instr = terms.pinstr(terms.strip_annots(e['instr']))
            if want and not want(instr):
                raise terms.Unsup('other family')
            ev = {'id': idx, 'instr': instr, 'before': terms.pstack(e['before']), 'after': terms.pstack(e['after']),
                  'status': 'ok' if e['status'] == 'ok' else 'err'}
            if instr[0] == 'INT' and ev['before'] and ev['before'][0][0][0] != 'nat':
                raise terms.Unsup('INT on bytes/bls (arithmetic family)')
            if uses_env(instr) or uses_env(ev['before']):
                raise terms.Unsup('environment instruction')
            out.append(to_json(ev))
        except terms.Unsup as u:
            skipped[str(u)] += 1
        except (KeyError, ValueError, TypeError, AssertionError, IndexError) as ex:
            skipped['projection: %s' % type(ex).__name__] += 1
    return out, skipped


def validate(ctx, events, name='MichSemTrace', timeout=900):
    """Returns list of (event id, clause, got) rejected by the model."""
    tf = os.path.join(ctx.wd, name + '.ndjson')
    with open(tf, 'w') as f:
        for ev in events:
            f.write(json.dumps(ev) + '\n')
    cfg = 'SPECIFICATION Spec\nPOSTCONDITION Accepted\n'
    r = ctx.tlc('MichSemTrace', cfg, name=name, workers=1, env={'TRACE_FILE': tf}, timeout=timeout, coverage=False)
    rej = [(v[1], v[2], v[3]) for v in r.printed if v[0] == 'REJECT']
    raw_rej = len(rej)
    # digests are symbolic in the model: interpret them (hashlib) and compare again
    byid = {e['id']: e for e in events}
    rej = [x for x in rej if not (x[1] == 'result' and x[2][0] == 'ok' and to_json(concretise_hashes(x[2][1])) == byid[x[0]]['after'])]
    if r.violation and not raw_rej:
        raise Exception('trace validation failed without a REJECT line:\n' + r.output[-1500:])
    return rej


def concretise_hashes(v):
    if isinstance(v, tuple):
        if len(v) == 3 and v[0] == 'h' and isinstance(v[1], str):
            return ('b', tuple(terms.bytes_of(v)))
        return tuple(concretise_hashes(x) for x in v)
    return v
