"""Independent interpretations used by the C31 / C33 replays: blake2b-256 from hashlib, an own base58check
encoder/decoder (sha256d checksum), the Tezos base58 prefixes involved, and a tiny Micheline binary encoder
for the handful of primitives the Constants universe uses.  Nothing here imports pytezos."""
import hashlib

ALPHABET = '123456789ABCDEFGHJKLMNPQRSTUVWXYZabcdefghijkmnopqrstuvwxyz'

# binary prefixes of Tezos' Base58 module (src/lib_crypto/base58.ml), payload 32 bytes each
PREFIX = {
    'B': bytes([1, 52]),             # block_hash, 51 chars
    'o': bytes([5, 116]),            # operation_hash, 51 chars
    'Lo': bytes([133, 233]),         # operation_list_hash, 52 chars
    'LLo': bytes([29, 159, 109]),    # operation_list_list_hash, 53 chars
    'vh': bytes([1, 106, 242]),      # block_payload_hash, 52 chars
    'expr': bytes([13, 44, 64, 27]),  # script_expr_hash, 54 chars
}
LENGTH = {'B': 51, 'o': 51, 'Lo': 52, 'LLo': 53, 'vh': 52, 'expr': 54}


def blake2b32(data):
    return hashlib.blake2b(data, digest_size=32).digest()


def b58encode(raw):
    n = int.from_bytes(raw, 'big')
    out = ''
    while n:
        n, r = divmod(n, 58)
        out = ALPHABET[r] + out
    pad = len(raw) - len(raw.lstrip(b'\0'))
    return '1' * pad + out


def b58decode(s):
    n = 0
    for c in s:
        n = n * 58 + ALPHABET.index(c)
    pad = len(s) - len(s.lstrip('1'))
    body = n.to_bytes((n.bit_length() + 7) // 8, 'big')
    return b'\0' * pad + body


def b58check(kind, payload):
    """base58check string of a 32-byte payload under the Tezos prefix `kind`; self-checked against the
    human-readable prefix and length the prefix is designed to give."""
    assert len(payload) == 32
    raw = PREFIX[kind] + payload
    s = b58encode(raw + hashlib.sha256(hashlib.sha256(raw).digest()).digest()[:4])
    assert s.startswith(kind) and len(s) == LENGTH[kind], (kind, s)
    return s


def b58check_payload(kind, s):
    raw = b58decode(s)
    body, chk = raw[:-4], raw[-4:]
    if hashlib.sha256(hashlib.sha256(body).digest()).digest()[:4] != chk or not body.startswith(PREFIX[kind]):
        return None
    return body[len(PREFIX[kind]):]


# ---------------------------------------------------------------- Micheline binary encoding (C33)
# tags of Michelson_v1_primitives.prim_encoding: the table transcribed in spec/MichelineCodec.tla (PrimName), read from the spec text
def _prim_table():
    import os, re
    txt = open(os.path.join(os.path.dirname(os.path.abspath(__file__)), '..', '..', 'spec', 'MichelineCodec.tla')).read()
    names = re.findall(r'"([^"]+)"', re.search(r'^PrimName == <<(.*?)>>', txt, re.S | re.M).group(1))
    assert len(names) == 159 and names[0x92] == 'constant' and names[0x07] == 'Pair'
    return {n: i for i, n in enumerate(names)}


PRIM_TAG = _prim_table()


def _zarith(n):
    sign = n < 0
    n = abs(n)
    first = n & 0x3f
    n >>= 6
    out = [first | (0x40 if sign else 0) | (0x80 if n else 0)]
    while n:
        b = n & 0x7f
        n >>= 7
        out.append(b | (0x80 if n else 0))
    return bytes(out)


def _lenpref(b):
    return len(b).to_bytes(4, 'big') + b


def forge(e):
    """Micheline JSON -> binary (Tezos' Micheline encoding)."""
    if isinstance(e, list):
        return b'\x02' + _lenpref(b''.join(forge(x) for x in e))
    if 'int' in e:
        return b'\x00' + _zarith(int(e['int']))
    if 'string' in e:
        return b'\x01' + _lenpref(e['string'].encode())
    if 'bytes' in e:
        return b'\x0a' + _lenpref(bytes.fromhex(e['bytes']))
    args = e.get('args', [])
    annots = e.get('annots', [])
    tag = bytes([PRIM_TAG[e['prim']]])
    ann = _lenpref(' '.join(annots).encode())
    if len(args) < 3:
        head = bytes([3 + 2 * len(args) + (1 if annots else 0)])
        return head + tag + b''.join(forge(a) for a in args) + (ann if annots else b'')
    return b'\x09' + tag + _lenpref(b''.join(forge(a) for a in args)) + ann


def expr_hash(e):
    """Tezos script expression hash of a Micheline expression: base58check "expr" of blake2b-256 of its binary form."""
    return b58check('expr', blake2b32(forge(e)))
