"""Independent Base58Check (sha256d) - does not use pytezos.crypto."""
import hashlib

ALPH = '123456789ABCDEFGHJKLMNPQRSTUVWXYZabcdefghijkmnopqrstuvwxyz'


def b58encode(b):
    n = int.from_bytes(b, 'big')
    s = ''
    while n:
        n, r = divmod(n, 58)
        s = ALPH[r] + s
    pad = len(b) - len(b.lstrip(b'\0'))
    return '1' * pad + s


def b58decode(s):
    n = 0
    for ch in s:
        n = n * 58 + ALPH.index(ch)
    pad = len(s) - len(s.lstrip('1'))
    body = n.to_bytes((n.bit_length() + 7) // 8, 'big') if n else b''
    return b'\0' * pad + body


def check_encode(prefix, payload):
    d = prefix + payload
    return b58encode(d + hashlib.sha256(hashlib.sha256(d).digest()).digest()[:4])


def check_decode(s, prefix):
    d = b58decode(s)
    body, ck = d[:-4], d[-4:]
    if hashlib.sha256(hashlib.sha256(body).digest()).digest()[:4] != ck:
        raise ValueError('checksum')
    if not body.startswith(prefix):
        raise ValueError('prefix')
    return body[len(prefix):]


P = {
    'tz1': bytes.fromhex('06a19f'), 'tz2': bytes.fromhex('06a1a1'), 'tz3': bytes.fromhex('06a1a4'), 'tz4': bytes.fromhex('06a1a6'),
    'KT1': bytes.fromhex('025a79'), 'sr1': bytes.fromhex('067c75'), 'txr1': bytes.fromhex('0180781f'),
    'edpk': bytes.fromhex('0d0f25d9'), 'sppk': bytes.fromhex('03fee256'), 'p2pk': bytes.fromhex('03b28b7f'), 'BLpk': bytes.fromhex('069587cc'),
    'sig': bytes.fromhex('04822b'), 'edsig': bytes.fromhex('09f5cd8612'), 'spsig1': bytes.fromhex('0d7365133f'), 'p2sig': bytes.fromhex('36f02c34'),
    'BLsig': bytes.fromhex('28ab40cf'), 'Net': bytes.fromhex('575200'), 'expr': bytes.fromhex('0d2c401b'), 'o': bytes.fromhex('0574'),
    'B': bytes.fromhex('0134'),
}
IMPLICIT = ['tz1', 'tz2', 'tz3', 'tz4']
PK = [('edpk', 32), ('sppk', 33), ('p2pk', 33), ('BLpk', 48)]


def address_from_bytes(b22):
    """22 optimized bytes -> base58 address."""
    b22 = bytes(b22)
    assert len(b22) == 22
    if b22[0] == 0:
        return check_encode(P[IMPLICIT[b22[1]]], b22[2:])
    kind = {1: 'KT1', 2: 'txr1', 3: 'sr1'}[b22[0]]
    assert b22[21] == 0
    return check_encode(P[kind], b22[1:21])


def address_to_bytes(s):
    for i, k in enumerate(IMPLICIT):
        if s.startswith(k):
            return bytes([0, i]) + check_decode(s, P[k])
    for tag, k in ((1, 'KT1'), (2, 'txr1'), (3, 'sr1')):
        if s.startswith(k):
            return bytes([tag]) + check_decode(s, P[k]) + b'\0'
    raise ValueError(s)


def key_hash_from_bytes(b21):
    b21 = bytes(b21)
    return check_encode(P[IMPLICIT[b21[0]]], b21[1:])


def key_hash_to_bytes(s):
    for i, k in enumerate(IMPLICIT):
        if s.startswith(k):
            return bytes([i]) + check_decode(s, P[k])
    raise ValueError(s)


def key_from_bytes(b):
    b = bytes(b)
    k, n = PK[b[0]]
    assert len(b) == n + 1
    return check_encode(P[k], b[1:])


def key_to_bytes(s):
    for i, (k, n) in enumerate(PK):
        if s.startswith(k):
            return bytes([i]) + check_decode(s, P[k])
    raise ValueError(s)


def sig_from_bytes(b):
    b = bytes(b)
    return check_encode(P['sig'] if len(b) == 64 else P['BLsig'], b)


def sig_to_bytes(s):
    for k in ('edsig', 'spsig1', 'p2sig', 'BLsig', 'sig'):
        if s.startswith(k):
            return check_decode(s, P[k])
    raise ValueError(s)


def chain_from_bytes(b):
    return check_encode(P['Net'], bytes(b))


def chain_to_bytes(s):
    return check_decode(s, P['Net'])
