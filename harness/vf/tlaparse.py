"""Parser for values printed by TLC (dump files, -simulate files, PrintT output)."""
import re

_ws = re.compile(r'\s*')
_int = re.compile(r'-?\d+')
_word = re.compile(r'\w+')


class P:
    def __init__(s, t, i=0):
        s.t = t
        s.i = i

    def ws(s):
        s.i = _ws.match(s.t, s.i).end()

    def val(s):
        s.ws()
        t = s.t
        if t.startswith('<<', s.i):
            s.i += 2
            out = []
            s.ws()
            if t.startswith('>>', s.i):
                s.i += 2
                return tuple(out)
            while True:
                out.append(s.val())
                s.ws()
                if t.startswith('>>', s.i):
                    s.i += 2
                    return tuple(out)
                assert t[s.i] == ',', t[s.i:s.i + 40]
                s.i += 1
        c = t[s.i]
        if c == '"':
            j = s.i + 1
            buf = []
            while t[j] != '"':
                if t[j] == '\\':
                    buf.append({'n': '\n', 't': '\t'}.get(t[j + 1], t[j + 1]))
                    j += 2
                else:
                    buf.append(t[j])
                    j += 1
            s.i = j + 1
            return ''.join(buf)
        if c == '{':
            s.i += 1
            out = []
            s.ws()
            if t[s.i] == '}':
                s.i += 1
                return frozenset()
            while True:
                out.append(s.val())
                s.ws()
                if t[s.i] == '}':
                    s.i += 1
                    return frozenset(out)
                assert t[s.i] == ',', t[s.i:s.i + 40]
                s.i += 1
        if c == '[':
            s.i += 1
            d = {}
            while True:
                s.ws()
                m = _word.match(t, s.i)
                k = m.group(0)
                s.i = m.end()
                s.ws()
                assert t.startswith('|->', s.i), t[s.i:s.i + 40]
                s.i += 3
                d[k] = s.val()
                s.ws()
                if t[s.i] == ']':
                    s.i += 1
                    return d
                assert t[s.i] == ',', t[s.i:s.i + 40]
                s.i += 1
        if c == '(':
            # function printed as (k1 :> v1 @@ k2 :> v2)
            s.i += 1
            d = {}
            while True:
                k = s.val()
                s.ws()
                assert t.startswith(':>', s.i), t[s.i:s.i + 40]
                s.i += 2
                d[k] = s.val()
                s.ws()
                if t[s.i] == ')':
                    s.i += 1
                    return d
                assert t.startswith('@@', s.i), t[s.i:s.i + 40]
                s.i += 2
        m = _int.match(t, s.i)
        if m:
            s.i = m.end()
            return int(m.group(0))
        m = _word.match(t, s.i)
        w = m.group(0)
        s.i = m.end()
        return {'TRUE': True, 'FALSE': False}.get(w, w)


def parse_value(text):
    return P(text).val()


_state_split = re.compile(r'^State \d+:.*$', re.M)
_var = re.compile(r'^/\\ (\w+) = ', re.M)


def _parse_state(blk):
    st = {}
    ms = list(_var.finditer(blk))
    for k, m in enumerate(ms):
        end = ms[k + 1].start() if k + 1 < len(ms) else len(blk)
        st[m.group(1)] = P(blk[m.end():end]).val()
    return st


def parse_dump(path):
    """All states of a `-dump` file, as dicts var -> value."""
    txt = open(path).read()
    blocks = _state_split.split(txt)[1:]
    return [_parse_state(b) for b in blocks]


def iter_dump(path):
    txt = open(path).read()
    for b in _state_split.split(txt)[1:]:
        yield _parse_state(b)


_sim_state = re.compile(r'^STATE_(\d+) ==\s*$', re.M)


def parse_simfile(path):
    """One behaviour written by `-simulate file=..`: list of (action, state)."""
    txt = open(path).read()
    out = []
    parts = re.split(r'^\\\* (<[^\n]*>|[^\n]*)\n(?=STATE_\d+ ==)', txt, flags=re.M)
    # fall back to a simpler scheme
    for m in re.finditer(r'(?:^\\\* <(\w+)[^\n]*>\n)?^STATE_\d+ ==\s*\n(.*?)(?=^\\\* <|^STATE_\d+ ==|^={4,}|\Z)', txt, re.M | re.S):
        act = m.group(1)
        st = _parse_state(m.group(2))
        out.append((act, st))
    return out


def to_tla(v):
    """Python value -> TLA+ literal text (tuples/lists -> <<>>, str, int, bool, dict -> record)."""
    if isinstance(v, bool):
        return 'TRUE' if v else 'FALSE'
    if isinstance(v, int):
        return str(v)
    if isinstance(v, str):
        return '"' + v.replace('\\', '\\\\').replace('"', '\\"') + '"'
    if isinstance(v, (list, tuple)):
        return '<<' + ', '.join(to_tla(x) for x in v) + '>>'
    if isinstance(v, (set, frozenset)):
        return '{' + ', '.join(sorted(to_tla(x) for x in v)) + '}'
    if isinstance(v, dict):
        return '[' + ', '.join('%s |-> %s' % (k, to_tla(x)) for k, x in v.items()) + ']'
    raise TypeError(type(v))


def to_json(v):
    """tuple trees -> list trees (for JSON samples)."""
    if isinstance(v, (tuple, list)):
        return [to_json(x) for x in v]
    if isinstance(v, frozenset):
        return sorted((to_json(x) for x in v), key=repr)
    if isinstance(v, dict):
        return {str(k): to_json(x) for k, x in v.items()}
    return v
