"""Interpretation of KeyFlow.tla's symbolic constructors for the replay of C07 / C08.

Nothing here imports pytezos.  Hashes come from hashlib, Base58Check from vf.b58, Ed25519 and
ECDSA (secp256k1, P-256) from `cryptography` (OpenSSL) - pytezos uses libsodium, coincurve
(libsecp256k1) and fastecdsa.  BLS12-381 has no second implementation in the sandbox: the
min-pk / message-augmentation scheme is assembled here from py_ecc's curve arithmetic, pairing
and hash-to-curve (own G1 serialiser, own verification equation), which is the same library
pytezos calls through py_ecc.bls.G2MessageAugmentation - NOT independent (stated in ctx.assumptions).
"""
import hashlib, os

from . import b58

CURVES = ['ed', 'sp', 'p2', 'bl']
PY_CURVE = {'ed': b'ed', 'sp': b'sp', 'p2': b'p2', 'bl': b'BL'}       # pytezos' curve argument
NAME = {'ed': 'ed25519', 'sp': 'secp256k1', 'p2': 'p256', 'bl': 'bls'}
PK_KIND = {'ed': 'edpk', 'sp': 'sppk', 'p2': 'p2pk', 'bl': 'BLpk'}
PKH_KIND = {'ed': 'tz1', 'sp': 'tz2', 'p2': 'tz3', 'bl': 'tz4'}
SIG_LEN = {'ed': 64, 'sp': 64, 'p2': 64, 'bl': 96}
# Tezos base58 prefixes of secret keys (src/lib_crypto/base58.ml), payload length
SK_KINDS = {
    'edsk': (bytes([13, 15, 58, 7]), 32), 'edsk64': (bytes([43, 246, 78, 7]), 64),
    'spsk': (bytes([17, 162, 224, 201]), 32), 'p2sk': (bytes([16, 81, 238, 189]), 32), 'BLsk': (bytes([3, 150, 192, 40]), 32),
    'edesk': (bytes([7, 90, 60, 179, 41]), 56), 'spesk': (bytes([9, 237, 241, 174, 150]), 56),
    'p2esk': (bytes([9, 48, 57, 115, 171]), 56), 'BLesk': (bytes([2, 5, 30, 53, 25]), 56),
}
N_SECP256K1 = 0xFFFFFFFFFFFFFFFFFFFFFFFFFFFFFFFEBAAEDCE6AF48A03BBFD25E8CD0364141
N_P256 = 0xFFFFFFFF00000000FFFFFFFFFFFFFFFFBCE6FAADA7179E84F3B9CAC2FC632551
R_BLS = 0x73EDA753299D7D483339D80809A1D80553BDA402FFFE5BFEFFFFFFFF00000001
DST_AUG = b'BLS_SIG_BLS12381G2_XMD:SHA-256_SSWU_RO_AUG_'


def h(*parts):
    return hashlib.sha256(':'.join(str(p) for p in parts).encode()).digest()


def secret_from(curve, tag):
    """A valid 32-byte secret (Ed25519 seed / big-endian ECDSA scalar / little-endian BLS scalar) from a tag.
    tag may be ('edge', 0|1) for the smallest / largest valid secret."""
    if isinstance(tag, (tuple, list)) and tag and tag[0] == 'edge':
        hi = bool(tag[1])
        if curve == 'ed':
            return (b'\xff' if hi else b'\x00') * 32
        if curve == 'bl':
            return ((R_BLS - 1) if hi else 1).to_bytes(32, 'little')
        n = N_SECP256K1 if curve == 'sp' else N_P256
        return ((n - 1) if hi else 1).to_bytes(32, 'big')
    d = h('secret', curve, tag)
    if curve == 'ed':
        return d
    if curve == 'bl':
        return (int.from_bytes(d, 'little') % (R_BLS - 1) + 1).to_bytes(32, 'little')
    n = N_SECP256K1 if curve == 'sp' else N_P256
    return (int.from_bytes(d, 'big') % (n - 1) + 1).to_bytes(32, 'big')


_pub_memo = {}


def public_key(curve, secret):
    """Public key bytes (32 / 33 compressed / 48 compressed G1) recomputed from the secret."""
    k = (curve, secret)
    if k in _pub_memo:
        return _pub_memo[k]
    if curve == 'ed':
        from cryptography.hazmat.primitives.asymmetric.ed25519 import Ed25519PrivateKey
        from cryptography.hazmat.primitives import serialization as ser
        pub = Ed25519PrivateKey.from_private_bytes(secret).public_key().public_bytes(ser.Encoding.Raw, ser.PublicFormat.Raw)
    elif curve in ('sp', 'p2'):
        from cryptography.hazmat.primitives.asymmetric import ec
        nums = ec.derive_private_key(int.from_bytes(secret, 'big'), ec.SECP256K1() if curve == 'sp' else ec.SECP256R1()).public_key().public_numbers()
        pub = bytes([2 + (nums.y & 1)]) + nums.x.to_bytes(32, 'big')
    else:
        from py_ecc.optimized_bls12_381 import G1, multiply, normalize, field_modulus
        x, y = normalize(multiply(G1, int.from_bytes(secret, 'little')))
        a_flag = (int(y) * 2) // field_modulus
        pub = (int(x) | (1 << 383) | (a_flag << 381)).to_bytes(48, 'big')
    _pub_memo[k] = pub
    return pub


def pk_b58(curve, pub):
    return b58.check_encode(b58.P[PK_KIND[curve]], pub)


def pkh_b58(curve, pub):
    return b58.check_encode(b58.P[PKH_KIND[curve]], hashlib.blake2b(pub, digest_size=20).digest())


def sk_b58(kind, payload):
    prefix, n = SK_KINDS[kind]
    assert len(payload) == n
    return b58.check_encode(prefix, payload)


def sk_decode(kind, s):
    prefix, n = SK_KINDS[kind]
    p = b58.check_decode(s, prefix)
    if len(p) != n:
        raise ValueError('payload length %d, expected %d' % (len(p), n))
    return p


def digest(curve, message):
    """Digest(curve, m) of the model: Blake2b-256, identity for BLS."""
    return message if curve == 'bl' else hashlib.blake2b(message, digest_size=32).digest()


def verify(curve, pub, raw, message):
    """Valid(pk, sig, m) of the model: the scheme's verification of the raw signature over Digest(curve, m)."""
    if len(raw) != SIG_LEN[curve]:
        return False
    d = digest(curve, message)
    if curve == 'ed':
        from cryptography.exceptions import InvalidSignature
        from cryptography.hazmat.primitives.asymmetric.ed25519 import Ed25519PublicKey
        try:
            Ed25519PublicKey.from_public_bytes(pub).verify(raw, d)
            return True
        except InvalidSignature:
            return False
    if curve in ('sp', 'p2'):
        from cryptography.exceptions import InvalidSignature
        from cryptography.hazmat.primitives import hashes
        from cryptography.hazmat.primitives.asymmetric import ec, utils
        key = ec.EllipticCurvePublicKey.from_encoded_point(ec.SECP256K1() if curve == 'sp' else ec.SECP256R1(), pub)
        r, s = int.from_bytes(raw[:32], 'big'), int.from_bytes(raw[32:], 'big')
        try:
            key.verify(utils.encode_dss_signature(r, s), d, ec.ECDSA(utils.Prehashed(hashes.SHA256())))   # "SHA256" = 32-byte prehash
            return True
        except (InvalidSignature, ValueError):
            return False
    return _bls_aug_verify(pub, raw, d)


def _bls_aug_verify(pub, raw, message):
    from py_ecc.bls.g2_primitives import pubkey_to_G1, signature_to_G2, subgroup_check
    from py_ecc.bls.hash_to_curve import hash_to_G2
    from py_ecc.optimized_bls12_381 import FQ12, G1, Z1, final_exponentiate, is_inf, neg, pairing
    try:
        p = pubkey_to_G1(pub)
        s = signature_to_G2(raw)
    except Exception:   # noqa: not a point
        return False
    if is_inf(p) or not subgroup_check(p) or not subgroup_check(s):
        return False
    hm = hash_to_G2(pub + message, DST_AUG, hashlib.sha256)     # message augmentation: H(pk || m)
    return final_exponentiate(pairing(s, neg(G1), False) * pairing(hm, p, False)) == FQ12.one()


# ---- BIP-39 (checksum recomputed here; only the word list is taken from the `mnemonic` package) ----
_words = {}


LANGS = []


def languages():
    """word lists shipped with the `mnemonic` package (data files, read directly)"""
    if not LANGS:
        import mnemonic
        d = os.path.join(os.path.dirname(mnemonic.__file__), 'wordlist')
        LANGS.extend(sorted(f[:-4] for f in os.listdir(d) if f.endswith('.txt')))
        LANGS.remove('english')
        LANGS.insert(0, 'english')
    return LANGS


def wordlist(lang='english'):
    if lang not in _words:
        import mnemonic
        with open(os.path.join(os.path.dirname(mnemonic.__file__), 'wordlist', lang + '.txt'), encoding='utf-8') as f:
            w = [x.strip() for x in f if x.strip()]
        assert len(w) == 2048 and len(set(w)) == 2048
        _words[lang] = w
    return _words[lang]


def mnemonic_from_entropy(ent, lang='english'):
    assert len(ent) in (16, 20, 24, 28, 32)
    cs = len(ent) // 4
    bits = bin(int.from_bytes(ent, 'big'))[2:].zfill(len(ent) * 8) + bin(int.from_bytes(hashlib.sha256(ent).digest(), 'big'))[2:].zfill(256)[:cs]
    w = wordlist(lang)
    return [w[int(bits[i:i + 11], 2)] for i in range(0, len(bits), 11)]


def mnemonic_valid(words, lang='english'):
    """BIP-39: 12/15/18/21/24 known words whose trailing ENT/32 bits are the first bits of sha256(entropy)."""
    w = wordlist(lang)
    if len(words) not in (12, 15, 18, 21, 24) or any(x not in w for x in words):
        return False
    bits = ''.join(bin(w.index(x))[2:].zfill(11) for x in words)
    ent_bits = len(bits) * 32 // 33
    ent = int(bits[:ent_bits], 2).to_bytes(ent_bits // 8, 'big')
    return bits[ent_bits:] == bin(int.from_bytes(hashlib.sha256(ent).digest(), 'big'))[2:].zfill(256)[:len(bits) - ent_bits]


def offcurve_twin(curve, pub):
    """33 bytes of the compressed-key shape whose x coordinate (pub's x with one low bit flipped) lies on no point of the curve"""
    from cryptography.hazmat.primitives.asymmetric import ec
    c = ec.SECP256K1() if curve == 'sp' else ec.SECP256R1()
    for bit in range(0, 64):
        x = bytearray(pub)
        x[32 - bit // 8] ^= 1 << (bit % 8)
        try:
            ec.EllipticCurvePublicKey.from_encoded_point(c, bytes(x))
        except ValueError:
            return bytes(x)
    raise AssertionError('no off-curve neighbour found')
