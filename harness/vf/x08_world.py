"""X08: the world behind the client configuration check - simulated nodes at the `requests.request` boundary, key
material, faucet file and tezos-client keychain.  Nothing of pytezos is patched: every shell the client builds itself
(from an alias, a URL, '<alias>.pool') is a real RpcNode / RpcMultiNode whose HTTP requests end here, so the URL a
request is sent to is observed, not read from an attribute.

The numbers are those of spec/ClientConfig.tla: NodeCtr(u, p) = 100u + 10p, NodeBal(u, p) = 1000u + 7p,
NodeTs(u) = 50u, NodeDelay(u) = u + 3 for URL number u and account number p."""
import datetime
import hashlib
import json
import os

import requests

from .fakenode import P_CHAIN, P_KT1, P_PROTO, b58check
from .opclient import SCRIPT, make_key

BASE_TS = 1_700_000_000
GW = {'default': 'https://ipfs.io/ipfs', 'g1': 'https://gw1.x08.invalid/ipfs', 'g2': 'https://gw2.x08.invalid/ipfs/'}
BLOCKS = {'head': 'head', 'b1': 5, 'b2': 'head~2'}
TEST_NET = 'x08net'
TEST_NET_URLS = ['http://n2.x08.invalid:8732', 'http://n3.x08.invalid:8732/']
EXTRA_URL = 'http://n5.x08.invalid:8732'
TZ_ALIAS = 'x08alias'
# public knowledge (Tezos sandbox / flextesa documentation), not read from pytezos
WELL_KNOWN = {
    'default': 'tz1grSQDByRpnVs7sPtaprNZRp531ZKz6Jmm',
    'alice': 'tz1VSUr8wwNhLAzempoch5d6hLRiTh8Cjcjb',
    'bootstrap1': 'tz1KqTpEZ7Yob7QbPE4Hy4Wo8fHG8LhKxZSx',
    'bootstrap2': 'tz1gjaF81ZRRvdzjobyfVNsAeSC6PScjfQwN',
    'dictator': 'tz1TGu6TN5GSez2ndXXeDX6LgUDvLzPLqgYV',
}
KEY_ALIASES = ['alice', 'bootstrap1', 'dictator']          # built-in alias number 1.. -> name
ALIAS_PAIR = [3, 6, 8]                                      # -> key pair
KT = [None, b58check(P_KT1, hashlib.blake2b(b'x08 contract 1', digest_size=20).digest()),
      b58check(P_KT1, hashlib.blake2b(b'x08 contract 2', digest_size=20).digest())]
KNOWN_ADDRS = {1}
VIEW_CODE = 'parameter unit; storage unit; code { CDR; NIL operation; PAIR }; view "bal" unit mutez { DROP; BALANCE };'


def node_ctr(u, p):
    return 100 * u + 10 * p


def node_bal(u, p):
    return 1000 * u + 7 * p


def node_ts(u):
    return 50 * u


def node_delay(u):
    return u + 3


def node_level(u):
    return 1000 + u


def node_chain_id(u):
    return b58check(P_CHAIN, bytes([u, 8, 8, 8]))


def node_protocol(u):
    return b58check(P_PROTO, hashlib.blake2b(b'x08 protocol %d' % u, digest_size=32).digest())


def _resp(code, obj):
    r = requests.Response()
    r.status_code = code
    r.headers['content-type'] = 'application/json'
    r._content = json.dumps(obj).encode()
    r.encoding = 'utf-8'
    return r


class World:
    """URL numbers, accounts and the request handler."""

    def __init__(self, home):
        from pytezos.context import mixin
        self.home = home
        self.urls = [None]                 # number -> URL as written in the table / by the user
        self.alias_names = [None]          # alias number -> name
        self.alias_urls = [None]           # alias number -> [URL numbers]
        if TEST_NET not in mixin.nodes:
            mixin.nodes[TEST_NET] = list(TEST_NET_URLS)      # a user-registered network with two nodes
        for name in ('mainnet', TEST_NET, mixin.default_network, 'sandbox'):
            self.alias_names.append(name)
            self.alias_urls.append([self.url_no(x) for x in mixin.nodes[name]])
        self.default_alias = 3
        self.extra = self.url_no(EXTRA_URL)
        self.accounts = {}                 # address -> account number
        self.requests = []                 # URL number of every request
        self.paths = []
        self.unknown = []
        self._keys()

    def url_no(self, url):
        for n, x in enumerate(self.urls):
            if x is not None and x.rstrip('/') == url.rstrip('/'):
                return n
        self.urls.append(url)
        return len(self.urls) - 1

    # ---- key material ----
    def _keys(self):
        from mnemonic import Mnemonic
        from pytezos.crypto.key import Key
        self.pkh = {0: WELL_KNOWN['default'], 3: WELL_KNOWN['alice'], 6: WELL_KNOWN['bootstrap1'], 8: WELL_KNOWN['dictator']}
        self.made = {1: make_key('tz1', 81), 2: make_key('tz2', 82), 5: make_key('tz3', 85), 7: make_key('tz4', 87)}
        for p, k in self.made.items():
            self.pkh[p] = k.public_key_hash()
        words = Mnemonic('english').to_mnemonic(hashlib.blake2b(b'x08 faucet', digest_size=20).digest())
        self.faucet = {'mnemonic': words.split(' '), 'password': 'x08pw', 'email': 'x08@example.invalid',
                       'activation_code': '0123456789abcdef0123456789abcdef01234567'}
        fk = Key.from_mnemonic(mnemonic=self.faucet['mnemonic'], passphrase=self.faucet['password'], email=self.faucet['email'])
        self.faucet['pkh'] = fk.public_key_hash()
        self.pkh[4] = self.faucet['pkh']
        os.makedirs(os.path.join(self.home, '.tezos-client'), exist_ok=True)
        with open(os.path.join(self.home, 'x08_faucet.json'), 'w') as f:
            json.dump(self.faucet, f)
        with open(os.path.join(self.home, '.tezos-client', 'secret_keys'), 'w') as f:
            json.dump([{'name': 'other', 'value': 'unencrypted:' + make_key('tz1', 89).secret_key()},
                       {'name': TZ_ALIAS, 'value': 'unencrypted:' + self.made[5].secret_key()}], f)
        for p, a in self.pkh.items():
            self.accounts[a] = p
        self.accounts[KT[1]] = 11
        self.accounts[KT[2]] = 12

    def user_key(self, pair, kind):
        from pytezos.crypto.key import Key
        k = self.made[pair]
        if kind == 'full':
            return Key.from_encoded_key(k.secret_key())
        if kind == 'pub':
            return Key.from_encoded_key(k.public_key())
        raise ValueError(kind)

    def key_arg(self, ka):
        t = ka[0]
        if t == 'alias':
            return KEY_ALIASES[ka[1] - 1]
        if t == 'sk':
            return self.made[ka[1]].secret_key()
        if t == 'pk':
            return self.made[ka[1]].public_key()
        if t == 'pkh':
            return self.pkh[ka[1]]
        if t == 'file':
            return '~/x08_faucet.json'
        if t == 'dict':
            return json.loads(json.dumps(self.faucet))
        if t == 'tzalias':
            return TZ_ALIAS
        if t == 'unknown':
            return 'x08-no-such-alias'
        if t == 'bad':
            return 42
        raise ValueError(ka)

    def shell_arg(self, sa):
        t = sa[0]
        if t == 'alias':
            return self.alias_names[sa[1]]
        if t == 'pool':
            return self.alias_names[sa[1]] + '.pool'
        if t == 'url':
            return self.urls[sa[1]]
        if t == 'list':
            return [self.urls[sa[1]], self.urls[sa[2]]]
        if t == 'badpool':
            return 'x08nosuchnet.pool'
        raise ValueError(sa)

    def user_shell(self, urls, multi):
        from pytezos.rpc import RpcMultiNode, RpcNode, ShellQuery
        if multi:
            return ShellQuery(RpcMultiNode([self.urls[u] for u in urls]))
        return ShellQuery(RpcNode(self.urls[urls[0]]))

    # ---- the nodes ----
    def reset(self):
        del self.requests[:]
        del self.paths[:]

    def request(self, method=None, url=None, **kw):
        u = None
        for n, base in enumerate(self.urls):
            if base is not None and (url == base.rstrip('/') or url.startswith(base.rstrip('/') + '/')):
                u, path = n, url[len(base.rstrip('/')):].split('?')[0].strip('/')
        if u is None:
            self.unknown.append((method, url))
            raise requests.exceptions.ConnectionError('x08: no node at ' + url)
        self.requests.append(u)
        self.paths.append(path)
        p = path.split('/')
        if p == ['chains', 'main', 'chain_id']:
            return _resp(200, node_chain_id(u))
        if p[:3] == ['chains', 'main', 'blocks'] and len(p) >= 5 and method == 'GET':
            block, rest = p[3], p[4:]
            if rest == ['header']:
                lv = node_level(u) if block == 'head' else (int(block) if block.isdigit() else node_level(u) - 2)
                ts = BASE_TS + node_ts(u) + (0 if block == 'head' else -1000)
                return _resp(200, {'protocol': node_protocol(u), 'chain_id': node_chain_id(u), 'level': lv, 'proto': 24,
                                   'timestamp': datetime.datetime.fromtimestamp(ts, datetime.timezone.utc).strftime('%Y-%m-%dT%H:%M:%SZ')})
            if rest == ['context', 'constants']:
                return _resp(200, {'minimal_block_delay': str(node_delay(u)), 'delay_increment_per_round': '4'})
            if rest[:2] == ['context', 'contracts'] and len(rest) >= 3:
                addr, tail = rest[2], rest[3:]
                acct = self.accounts.get(addr)
                if tail == [] and acct is not None:
                    return _resp(200, {'balance': str(node_bal(u, acct)), 'counter': str(node_ctr(u, acct))})
                if tail == ['script']:
                    if addr in [KT[a] for a in KNOWN_ADDRS]:
                        return _resp(200, SCRIPT)
                    return _resp(404, [{'kind': 'permanent', 'id': 'proto.024-PtTALLiN.contract.non_existing_contract', 'contract': addr}])
        self.unknown.append((method, url))
        return _resp(404, 'x08: not modelled: %s' % path)


_world = None


def install(home):
    """one world per process: requests.request (the library boundary) is served by the simulated nodes; no answer is a
    5xx, so the retry loop of RpcNode.request never sleeps"""
    global _world
    if _world is None:
        os.makedirs(home, exist_ok=True)
        os.environ['HOME'] = home
        _world = World(home)
        requests.request = _world.request
    return _world
