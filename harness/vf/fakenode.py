"""A simulated Tezos node for one manager account, as a subclass of the public
`pytezos.rpc.node.RpcNode` (only `request()` is overridden, so the real ShellQuery / RpcQuery
layer, `get()`/`post()` and everything above them run unchanged; no pytezos function is patched).

State: `chain_ctr` (the account's counter in the head context), `mempool` (accepted, not yet
baked operations), `level`.  `injection/operation` decodes the **binary payload** with the
small decoder below (written from the protocol's binary schema, not with pytezos' forging
code) and accepts it iff its manager counters are exactly chain_ctr + pending + 1, +2, ...
`bake()` moves the mempool into the chain.  Everything the client sends is recorded in
`injections`, `simulations`, `calls` for the checks to observe.
"""
import hashlib
import json

import requests

from pytezos.rpc.node import RpcError, RpcNode

B58 = '123456789ABCDEFGHJKLMNPQRSTUVWXYZabcdefghijkmnopqrstuvwxyz'


def b58check(prefix, payload):
    """Own base58check (independent of pytezos.crypto.encoding)."""
    raw = prefix + payload
    raw += hashlib.sha256(hashlib.sha256(raw).digest()).digest()[:4]
    n = int.from_bytes(raw, 'big')
    out = ''
    while n:
        n, r = divmod(n, 58)
        out = B58[r] + out
    return '1' * (len(raw) - len(raw.lstrip(b'\0'))) + out


def b58decode(text, prefix_len):
    n = 0
    for c in text:
        n = n * 58 + B58.index(c)
    pad = len(text) - len(text.lstrip('1'))
    raw = b'\0' * pad + n.to_bytes((n.bit_length() + 7) // 8, 'big')
    body, chk = raw[:-4], raw[-4:]
    assert hashlib.sha256(hashlib.sha256(body).digest()).digest()[:4] == chk, 'bad base58 checksum'
    return body[prefix_len:]


P_BLOCK = bytes([1, 52])          # B
P_OP = bytes([5, 116])            # o
P_CHAIN = bytes([87, 82, 0])      # Net
P_PROTO = bytes([2, 170])         # P
P_PKH = {0: bytes([6, 161, 159]), 1: bytes([6, 161, 161]), 2: bytes([6, 161, 164]), 3: bytes([6, 161, 166])}  # tz1..tz4
P_KT1 = bytes([2, 90, 121])

MANAGER_TAGS = {107: 'reveal', 108: 'transaction', 109: 'origination', 110: 'delegation', 201: 'smart_rollup_add_messages'}
PK_LEN = {0: 32, 1: 33, 2: 33, 3: 48}


class DecodeError(Exception):
    pass


class _Rd:
    def __init__(self, b):
        self.b, self.i = b, 0

    def take(self, n):
        if self.i + n > len(self.b):
            raise DecodeError('truncated')
        r = self.b[self.i:self.i + n]
        self.i += n
        return r

    def byte(self):
        return self.take(1)[0]

    def nat(self):
        n, sh = 0, 0
        while True:
            c = self.byte()
            n |= (c & 0x7f) << sh
            sh += 7
            if not c & 0x80:
                return n

    def u32(self):
        return int.from_bytes(self.take(4), 'big')


def decode_manager_group(payload):
    """Binary signed operation -> dict(branch, contents=[dict(kind, source(tag,hash), fee, counter, gas_limit,
    storage_limit, size)], sig_len).  Only the four classic manager kinds; anything else raises DecodeError."""
    r = _Rd(payload)
    branch = r.take(32)
    contents = []
    sig_len = None
    while True:
        start = r.i
        tag = r.byte()
        if tag not in MANAGER_TAGS:
            raise DecodeError('operation tag %d is not a modelled manager operation' % tag)
        kind = MANAGER_TAGS[tag]
        stag = r.byte()
        if stag not in PK_LEN:
            raise DecodeError('bad source tag %d' % stag)
        src = r.take(20)
        c = {'kind': kind, 'source': (stag, src), 'fee': r.nat(), 'counter': r.nat(), 'gas_limit': r.nat(),
             'storage_limit': r.nat()}
        if kind == 'reveal':
            kt = r.byte()
            if kt not in PK_LEN:
                raise DecodeError('bad public key tag')
            r.take(PK_LEN[kt])
            flag = r.byte()
            if flag == 0xff:
                r.take(r.u32())
            elif flag != 0:
                raise DecodeError('bad proof flag')
        elif kind == 'transaction':
            c['amount'] = r.nat()
            d22 = bytes(r.take(22))
            # the destination as the node's JSON shows it (implicit: tag 00 + curve + hash; originated: 01 + hash + 00)
            if d22[0] == 0:
                c['destination'] = b58check({0: bytes([6, 161, 159]), 1: bytes([6, 161, 161]), 2: bytes([6, 161, 164]), 3: bytes([6, 161, 166])}[d22[1]], d22[2:])
            elif d22[0] == 1:
                c['destination'] = b58check(P_KT1, d22[1:21])
            flag = r.byte()
            if flag == 0xff:
                ep = r.byte()
                if ep == 0xff:
                    r.take(r.byte())
                r.take(r.u32())
            elif flag != 0:
                raise DecodeError('bad parameters flag')
        elif kind == 'origination':
            c['balance'] = r.nat()
            flag = r.byte()
            if flag == 0xff:
                r.take(21)
            elif flag != 0:
                raise DecodeError('bad delegate flag')
            r.take(r.u32())
            r.take(r.u32())
        elif kind == 'delegation':
            flag = r.byte()
            if flag == 0xff:
                r.take(21)
            elif flag != 0:
                raise DecodeError('bad delegate flag')
        elif kind == 'smart_rollup_add_messages':
            r.take(r.u32())
        c['size'] = r.i - start
        contents.append(c)
        rest = len(payload) - r.i
        want = 96 if contents[0]['source'][0] == 3 else 64
        if rest == want:
            sig_len = rest
            break
        if rest < want:
            raise DecodeError('signature of %d bytes, expected %d' % (rest, want))
    return {'branch': branch, 'contents': contents, 'sig_len': sig_len}


def _resp(code, obj):
    r = requests.Response()
    r.status_code = code
    r.headers['content-type'] = 'application/json'
    r._content = json.dumps(obj).encode()
    r.encoding = 'utf-8'
    return r


DEFAULT_CONSTANTS = {
    # the handful of protocol constants the operation client reads (values of mainnet, protocols 022-024)
    'hard_gas_limit_per_operation': '1040000',
    'hard_gas_limit_per_block': '1386666',
    'hard_storage_limit_per_operation': '60000',
    'cost_per_byte': '250',
    'origination_size': 257,
    'minimal_block_delay': '8',
    'delay_increment_per_round': '4',
    'blocks_per_cycle': 10800,
}


class FakeNode(RpcNode):
    """One-account node simulator.  `mempool_key` is the name under which pending operations are served by
    `mempool/pending_operations`: 'validated' (Octez >= v19, the only form current nodes know) or 'applied'
    (the legacy form)."""

    def __init__(self, address, chain_ctr=0, mempool_key='validated', constants=None, chain_name='TEZOS_MAINNET',
                 protocol=None, chain_id=None):
        super().__init__('http://fakenode.invalid:8732')
        self.address = address
        self.chain_ctr = chain_ctr
        self.mempool = []            # list of dict(hash, counters, contents(json-ish), raw)
        self.mempool_key = mempool_key
        self.level = 1000
        self.constants = dict(DEFAULT_CONSTANTS)
        if constants:
            self.constants.update(constants)
        self.chain_name = chain_name
        self.protocol = protocol or b58check(P_PROTO, hashlib.blake2b(b'fakenode protocol', digest_size=32).digest())
        self.chain_id = chain_id or b58check(P_CHAIN, b'\x7a\x06\xa7\x70')
        self.sim_script = []         # scripted simulation outcomes, consumed one per run_operation; default: applied
        self.sim_default = None
        self.injections = []         # every POST to injection/operation: dict(raw, decoded, want, accepted)
        self.simulations = []        # every run_operation request body
        self.calls = []              # (method, path) of every request
        self.unknown = []            # requests that were not understood (machinery error for the checks)

    # ---- node state ----
    def pending(self):
        return sum(len(m['counters']) for m in self.mempool)

    def bake(self):
        self.chain_ctr += self.pending()
        self.mempool = []
        self.level += 1

    def block_hash(self, level):
        return b58check(P_BLOCK, hashlib.blake2b(b'fakenode block %d' % level, digest_size=32).digest())

    def next_counters(self, n):
        base = self.chain_ctr + self.pending()
        return [base + j for j in range(1, n + 1)]

    # ---- RPC ----
    def request(self, method, path, **kwargs):
        path = path.split('?')[0].strip('/')
        self.calls.append((method, path))
        body = kwargs.get('json')
        p = path.split('/')
        if p[:2] == ['chains', 'main']:
            p = p[2:]
            if p == ['chain_id']:
                return _resp(200, self.chain_id)
            if p == ['mempool', 'pending_operations'] and method == 'GET':
                if getattr(self, 'mempool_failures', 0) > 0:      # a gateway that does not serve the mempool right now (after `mempool_skip` served requests)
                    if getattr(self, 'mempool_skip', 0) > 0:
                        self.mempool_skip -= 1
                    else:
                        self.mempool_failures -= 1
                        self._raise([{'kind': 'permanent', 'id': 'node.mempool.unavailable'}])
                ops = [{'hash': m['hash'], 'branch': m['branch'], 'contents': m['contents'], 'signature': m['signature']}
                       for m in self.mempool]
                if self.mempool_key == 'split':      # a current node that has classified the oldest pending operation and only received the later ones
                    out = {'validated': ops[:1], 'refused': [], 'outdated': [], 'branch_refused': [], 'branch_delayed': [], 'unprocessed': ops[1:]}
                else:
                    out = {self.mempool_key: ops, 'refused': [], 'outdated': [], 'branch_refused': [], 'branch_delayed': [],
                           'unprocessed': []}
                return _resp(200, out)
            if p[:1] == ['blocks'] and len(p) >= 2:
                return self._block(method, p[1], p[2:], body, path)
        if p == ['version']:
            return _resp(200, {'version': {'major': 23, 'minor': 0, 'additional_info': 'release'},
                               'network_version': {'chain_name': self.chain_name, 'distributed_db_version': 2, 'p2p_version': 1},
                               'commit_info': {'commit_hash': '00000000', 'commit_date': '2025-01-01 00:00:00 +0000'}})
        if p == ['injection', 'operation'] and method == 'POST':
            return self._inject(body)
        self.unknown.append((method, path))
        raise RpcError('Not found: %s' % path)

    def _level_of(self, block_id):
        if block_id.startswith('head'):
            off = 0
            if '~' in block_id:
                off = int(block_id.split('~')[1])
            elif '-' in block_id:
                off = int(block_id.split('-')[1])
            return self.level - off
        if block_id.isdigit():
            return int(block_id)
        for lv in range(self.level, max(self.level - 200, 0), -1):
            if self.block_hash(lv) == block_id:
                return lv
        return self.level

    def _header(self, lv):
        return {'protocol': self.protocol, 'chain_id': self.chain_id, 'hash': self.block_hash(lv), 'level': lv, 'proto': 24,
                'predecessor': self.block_hash(lv - 1), 'timestamp': '2025-01-01T00:00:00Z', 'validation_pass': 4,
                'operations_hash': 'LLoZS2LW3rEi7KYU4ouBQtorua37aWWCtpDmv1n2x3xoKi6sVXLWp', 'fitness': ['02', '%08x' % lv],
                'context': 'CoV8SQumiVU9saiu3FVNeDNewJaJH8yWdsGF3WLdsRr2P9S7MzCj', 'payload_hash':
                'vh1g87ZG6scSYxKhspAUzprQVuLAyoa5qMBKcUfjgnQGnFb3dJcG', 'payload_round': 0,
                'proof_of_work_nonce': '0000000000000000', 'liquidity_baking_toggle_vote': 'off',
                'signature': 'sigUHx32f9wesZ1n2BWpixXz4AQaZggEtchaQNHYGRCoWNAXx45WGW2ua3apUUUAGMLPwAU41QoaFCzVSL61VaessLg4YbbP'}

    def _block(self, method, block_id, rest, body, path):
        lv = self._level_of(block_id)
        if rest == ['hash']:
            return _resp(200, self.block_hash(lv))
        if rest == ['header']:
            return _resp(200, self._header(lv))
        if rest == ['protocols']:
            return _resp(200, {'protocol': self.protocol, 'next_protocol': self.protocol})
        if rest == []:
            return _resp(200, {'protocol': self.protocol, 'chain_id': self.chain_id, 'hash': self.block_hash(lv),
                               'header': self._header(lv), 'metadata': {}, 'operations': [[], [], [], []]})
        if rest == ['context', 'constants']:
            return _resp(200, self.constants)
        if rest[:2] == ['context', 'contracts'] and len(rest) >= 3:
            addr = rest[2]
            ctr = self.chain_ctr if addr == self.address else 0
            if rest[3:] == []:
                return _resp(200, {'balance': '1000000000000', 'counter': str(ctr)})
            if rest[3:] == ['counter']:
                return _resp(200, str(ctr))
            if rest[3:] == ['balance']:
                return _resp(200, '1000000000000')
            if rest[3:] == ['manager_key']:
                return _resp(200, None)
            if rest[3:] == ['script'] and addr.startswith('KT1'):      # every originated contract is the unit contract
                return _resp(200, {'code': [{'prim': 'parameter', 'args': [{'prim': 'unit'}]}, {'prim': 'storage', 'args': [{'prim': 'unit'}]},
                                            {'prim': 'code', 'args': [[{'prim': 'CDR'}, {'prim': 'NIL', 'args': [{'prim': 'operation'}]}, {'prim': 'PAIR'}]]}],
                                   'storage': {'prim': 'Unit'}})
        if rest in (['helpers', 'scripts', 'run_operation'], ['helpers', 'scripts', 'simulate_operation']) and method == 'POST':
            return self._simulate(body)
        self.unknown.append((method, path))
        raise RpcError('Not found: %s' % path)

    # ---- simulation ----
    FAIL_IDS = ('proto.024-PtTALLiN.contract.balance_too_low', 'failure', 'proto.024-PtTALLiN.michelson_v1.script_rejected', 'node.prevalidation.oversized_operation',
                'proto.024-PtTALLiN.contract.manager.unregistered_delegate')

    def _fail_id(self):
        """error ids of different shapes take turns (one to five dot-separated components; octez uses all of them)"""
        self._nfail = getattr(self, '_nfail', -1) + 1
        return self.FAIL_IDS[(self._nfail + len(self.simulations)) % len(self.FAIL_IDS)]

    def _simulate(self, body):
        """run_operation: echo the contents with metadata.  The outcome of each call comes from `sim_script`
        (one entry per call; an entry is 'fail' or a list of per-content dicts
        {consumed_milligas, paid_storage_size_diff, allocated_destination_contract, originated}) or `sim_default`."""
        self.simulations.append(body)
        spec = self.sim_script.pop(0) if self.sim_script else self.sim_default
        contents = []
        for k, c in enumerate(body['operation']['contents']):
            c = dict(c)
            if spec == 'fail':
                res = {'status': 'failed' if k == 0 else 'skipped',
                       'errors': [{'kind': 'temporary', 'id': self._fail_id(),
                                   'contract': self.address, 'balance': '0', 'amount': '1'}] if k == 0 else []}
                if k > 0:
                    res.pop('errors')
            else:
                s = (spec[k] if spec else None) or {}
                res = {'status': 'applied', 'consumed_milligas': str(s.get('consumed_milligas', 100000))}
                if s.get('paid_storage_size_diff'):
                    res['paid_storage_size_diff'] = str(s['paid_storage_size_diff'])
                if s.get('allocated_destination_contract'):
                    res['allocated_destination_contract'] = True
                if s.get('originated'):
                    res['originated_contracts'] = [b58check(P_KT1, hashlib.blake2b(b'kt%d' % k, digest_size=20).digest())]
            c['metadata'] = {'balance_updates': [], 'operation_result': res}
            if spec != 'fail' and s.get('internal'):      # internal operations emitted by the content, each with its own result
                c['metadata']['internal_operation_results'] = [
                    {'kind': 'transaction', 'source': b58check(P_KT1, hashlib.blake2b(b'src%d' % k, digest_size=20).digest()), 'nonce': n, 'amount': '0',
                     'destination': self.address, 'result': {'status': 'applied', 'consumed_milligas': str(mg)}} for n, mg in enumerate(s['internal'])]
            contents.append(c)
        return _resp(200, {'contents': contents, 'signature': body['operation'].get('signature')})

    # ---- injection ----
    def _inject(self, body):
        try:
            raw = bytes.fromhex(body)
        except (TypeError, ValueError):
            self.injections.append({'raw': body, 'decoded': None, 'want': None, 'accepted': False, 'error': 'not hex',
                                    'chain_ctr': self.chain_ctr, 'pending': self.pending()})
            self._raise([{'kind': 'permanent', 'id': 'node.fake.bad_hex'}])
        try:
            dec = decode_manager_group(raw)
        except DecodeError as e:
            rec = {'raw': raw, 'decoded': None, 'want': None, 'accepted': False, 'error': str(e),
                   'chain_ctr': self.chain_ctr, 'pending': self.pending()}
            self.injections.append(rec)
            self._raise([{'kind': 'permanent', 'id': 'node.fake.cannot_decode', 'msg': str(e)}])
        got = [c['counter'] for c in dec['contents']]
        want = self.next_counters(len(got))
        src_ok = all(b58check(P_PKH[c['source'][0]], c['source'][1]) == self.address for c in dec['contents'])
        acc = got == want and src_ok
        fee, gas = sum(c['fee'] for c in dec['contents']), sum(c['gas_limit'] for c in dec['contents'])
        rec = {'raw': raw, 'decoded': dec, 'got': got, 'want': want, 'accepted': acc, 'chain_ctr': self.chain_ctr,
               'pending': self.pending(), 'source_ok': src_ok,
               # the node's default minimal-fee rule on the very bytes that arrived: 100 mutez + 1 mutez per byte + 0.1 mutez per unit of gas
               'fee': fee, 'gas': gas, 'size': len(raw), 'fee_ok': 1000 * fee >= 100000 + 1000 * len(raw) + 100 * gas}
        self.injections.append(rec)
        if getattr(self, 'inject_refusals', None):      # scripted refusals of well-formed operations (the state has moved on since the simulation, ...)
            rec['accepted'] = False
            self._raise([{'kind': 'temporary', 'id': self.inject_refusals.pop(0), 'contract': self.address}])
        oph = b58check(P_OP, hashlib.blake2b(raw, digest_size=32).digest())
        if not acc:
            eid = ('proto.024-PtTALLiN.contract.counter_in_the_past' if got and want and got[0] < want[0]
                   else 'proto.024-PtTALLiN.contract.counter_in_the_future')
            self._raise([{'kind': 'temporary' if 'future' in eid else 'branch', 'id': eid, 'contract': self.address,
                          'expected': str(want[0]), 'found': str(got[0])}])
        sl = dec['sig_len']
        self.mempool.append({
            'hash': oph, 'counters': got, 'branch': b58check(P_BLOCK, dec['branch']),
            'contents': [dict({'kind': c['kind'], 'source': self.address, 'fee': str(c['fee']), 'counter': str(c['counter']),
                               'gas_limit': str(c['gas_limit']), 'storage_limit': str(c['storage_limit'])},
                              **({'destination': c['destination'], 'amount': str(c.get('amount', 0))} if c.get('destination') else {})) for c in dec['contents']],
            'signature': b58check(bytes([4, 130, 43]), raw[-64:]) if sl == 64 else b58check(bytes([40, 171, 64, 207]), raw[-96:]),
        })
        return _resp(200, oph)

    def _raise(self, errors):
        """What RpcNode.request does with a 500 answer of the node."""
        raise RpcError.from_response(_resp(500, errors))
