----------------------------- MODULE DomainBin -----------------------------
(* Optimized (binary) forms of addresses, contracts, key hashes, public keys, signatures and
   chain ids (src/pytezos/michelson/forge.py, types/domain.py).  Property C10.

   Atoms (tag-first tuples; payloads are byte sequences):
     <<"addr", kind, h20, ep>>   kind \in tz1 tz2 tz3 tz4 KT1 txr1 sr1; ep = entrypoint name bytes (<<>> = none)
     <<"kh", kind, h20>>         kind \in tz1..tz4
     <<"key", curve, p>>         ed (32 bytes) sp p2 (33) bls (48)
     <<"sig", kind, p>>          ed sp p2 gen (64 bytes) bls (96)
     <<"chain", "net", p4>>
   Binary forms as in the Tezos data encodings:
     address   22 bytes  00 tag h20 (tag 00..03 = tz1..tz4) | 01 h20 00 (KT1) | 02 h20 00 (txr1) | 03 h20 00 (sr1)
     contract  address \o entrypoint name (nothing for no entrypoint or "default")
     key_hash  21 bytes  tag h20
     key       tag \o p  (00 ed25519 32, 01 secp256k1 33, 02 p256 33, 03 bls 48)
     signature the 64 (96 for BLS) bytes; a 64-byte signature read back is a generic one
     chain_id  the 4 bytes
   Payloads range over boundary classes: first byte in Firsts, last byte in Lasts, the middle
   filled with one byte of Fillers - a 21-byte key hash whose digest starts 00..03, or which
   ends in 00, looks like the beginning of a 22-byte address.

   Reading is a small machine: forge, then dispatch on the length, then on the tag. *)
EXTENDS Integers, Sequences, TLC

CONSTANTS Firsts, Lasts, Fillers, CrossReads   \* CrossReads: also read forms with the reader of another type

Fill(n, b) == [i \in 1..n |-> b]
Payload(n, f, m, l) == <<f>> \o Fill(n - 2, m) \o <<l>>
Payloads(n) == {Payload(n, f, m, l) : f \in Firsts, m \in Fillers, l \in Lasts}

ImplicitKinds == {"tz1", "tz2", "tz3", "tz4"}
AddrKinds == ImplicitKinds \cup {"KT1", "txr1", "sr1"}
ImpTag(kd) == CASE kd = "tz1" -> 0 [] kd = "tz2" -> 1 [] kd = "tz3" -> 2 [] kd = "tz4" -> 3
ImpKind(t) == CASE t = 0 -> "tz1" [] t = 1 -> "tz2" [] t = 2 -> "tz3" [] t = 3 -> "tz4"
OrigTag(kd) == CASE kd = "KT1" -> 1 [] kd = "txr1" -> 2 [] kd = "sr1" -> 3
OrigKind(t) == CASE t = 1 -> "KT1" [] t = 2 -> "txr1" [] t = 3 -> "sr1"
Curves == {"ed", "sp", "p2", "bls"}
KeyTag(c) == CASE c = "ed" -> 0 [] c = "sp" -> 1 [] c = "p2" -> 2 [] c = "bls" -> 3
KeyCurve(t) == CASE t = 0 -> "ed" [] t = 1 -> "sp" [] t = 2 -> "p2" [] t = 3 -> "bls"
KeyLen(c) == CASE c = "ed" -> 32 [] c = "sp" -> 33 [] c = "p2" -> 33 [] c = "bls" -> 48
SigKinds == {"ed", "sp", "p2", "gen", "bls"}
SigLen(s) == IF s = "bls" THEN 96 ELSE 64

Default == <<100, 101, 102, 97, 117, 108, 116>>        \* "default"
Entrypoints == {<<>>, Default, <<97>>, Fill(31, 101), <<115, 101, 116, 95>> \o Default, <<49, 115, 116>>,
                <<100, 111>>, <<114, 111, 111, 116>>, <<115, 101, 116, 95, 100, 101, 108, 101, 103, 97, 116, 101>>, Default \o <<115>>}   \* "do", "root", "set_delegate": names the operation encoding abbreviates to a tag; inside a value they are names like any other; "defaults" begins with the default name  \* none, "default", "a", 31 x "e", "set_default" (ends in, but is not, the default name), "1st" (a name may start with a digit)

\* payloads that happen to be well-formed PACKed Micheline (05 <expr>): a chain id / signature stays what its length says
PackLookalikes == {<<"chain", "net", <<5, 0, 129, 1>>>>,                                 \* = PACK of the int 65
                   <<"sig", "gen", <<5, 10, 0, 0, 0, 58>> \o Fill(58, 119)>>,            \* = PACK of 58 bytes
                   <<"sig", "bls", <<5, 10, 0, 0, 0, 90>> \o Fill(90, 119)>>,            \* = PACK of 90 bytes
                   <<"sig", "ed", <<5, 1, 0, 0, 0, 58>> \o Fill(58, 101)>>}              \* = PACK of a 58-character string
Atoms == {<<"addr", kd, p, ep>> : kd \in AddrKinds, p \in Payloads(20), ep \in Entrypoints}
         \cup {<<"kh", kd, p>> : kd \in ImplicitKinds, p \in Payloads(20)}
         \cup UNION {{<<"key", c, p>> : p \in Payloads(KeyLen(c))} : c \in Curves}
         \cup UNION {{<<"sig", s, p>> : p \in Payloads(SigLen(s))} : s \in SigKinds}
         \cup {<<"chain", "net", p>> : p \in Payloads(4)}
         \cup PackLookalikes


TypeOf(x) == CASE x[1] = "addr" -> "address" [] x[1] = "kh" -> "key_hash" [] x[1] = "key" -> "key"
               [] x[1] = "sig" -> "signature" [] x[1] = "chain" -> "chain_id"
\* the value an optimized form denotes: "default" is no entrypoint, a 64-byte signature has no curve
Canon(x) == IF x[1] = "addr" /\ x[4] = Default THEN <<"addr", x[2], x[3], <<>>>>
            ELSE IF x[1] = "sig" /\ x[2] # "bls" THEN <<"sig", "gen", x[3]>>
            ELSE x

\* ---------------------------------------------------------------- forging
ForgeAddr(kd, p) == IF kd \in ImplicitKinds THEN <<0, ImpTag(kd)>> \o p ELSE <<OrigTag(kd)>> \o p \o <<0>>
Forge(x) == CASE x[1] = "addr" -> ForgeAddr(x[2], x[3]) \o (IF x[4] = Default THEN <<>> ELSE x[4])
              [] x[1] = "kh" -> <<ImpTag(x[2])>> \o x[3]
              [] x[1] = "key" -> <<KeyTag(x[2])>> \o x[3]
              [] x[1] = "sig" -> x[3]
              [] x[1] = "chain" -> x[3]

\* ---------------------------------------------------------------- reading
Readers == {"address", "key_hash", "key", "signature", "chain_id", "blind"}
Rej(why) == <<"rej", why>>
\* a reader with no type information can only go by the length
BlindType(n) == CASE n = 4 -> "chain_id" [] n = 21 -> "key_hash" [] n = 22 -> "address"
                  [] n \in {33, 34, 49} -> "key" [] n \in {64, 96} -> "signature" [] OTHER -> "none"
LengthOK(ty, n) == CASE ty = "address" -> n >= 22 [] ty = "key_hash" -> n = 21 [] ty = "key" -> n \in {33, 34, 49}
                     [] ty = "signature" -> n \in {64, 96} [] ty = "chain_id" -> n = 4
ReadTag(ty, b) ==
  CASE ty = "address" ->
         IF b[1] = 0 THEN (IF b[2] \in 0..3 THEN <<"addr", ImpKind(b[2]), SubSeq(b, 3, 22), SubSeq(b, 23, Len(b))>> ELSE Rej("tag"))
         ELSE IF b[1] \in 1..3 THEN (IF b[22] = 0 THEN <<"addr", OrigKind(b[1]), SubSeq(b, 2, 21), SubSeq(b, 23, Len(b))>> ELSE Rej("padding"))
         ELSE Rej("tag")
    [] ty = "key_hash" -> IF b[1] \in 0..3 THEN <<"kh", ImpKind(b[1]), SubSeq(b, 2, 21)>> ELSE Rej("tag")
    [] ty = "key" -> IF b[1] \in 0..3 /\ Len(b) = 1 + KeyLen(KeyCurve(b[1])) THEN <<"key", KeyCurve(b[1]), SubSeq(b, 2, Len(b))>> ELSE Rej("tag")
    [] ty = "signature" -> <<"sig", IF Len(b) = 96 THEN "bls" ELSE "gen", b>>
    [] ty = "chain_id" -> <<"chain", "net", b>>

VARIABLES atom, reader, pc, byts, rty, res
vars == <<atom, reader, pc, byts, rty, res>>

ReadersFor(x) == {TypeOf(x), "blind"}
                 \cup (IF CrossReads /\ x[1] = "kh" THEN {"address"} ELSE {})
                 \cup (IF CrossReads /\ x[1] = "addr" /\ x[4] = <<>> THEN {"key_hash"} ELSE {})
Init == /\ atom \in Atoms /\ reader \in Readers /\ reader \in ReadersFor(atom)
        /\ pc = "start" /\ byts = <<>> /\ rty = "none" /\ res = <<"none">>
DoForge == /\ pc = "start" /\ byts' = Forge(atom) /\ pc' = "forged"
           /\ UNCHANGED <<atom, reader, rty, res>>
ByLength == /\ pc = "forged"
            /\ LET ty == IF reader = "blind" THEN BlindType(Len(byts)) ELSE reader IN
               IF ty = "none" THEN res' = <<"unknown">> /\ pc' = "done" /\ rty' = ty
               ELSE IF ~LengthOK(ty, Len(byts)) THEN res' = Rej("length") /\ pc' = "done" /\ rty' = ty
               ELSE rty' = ty /\ pc' = "tag" /\ UNCHANGED res
            /\ UNCHANGED <<atom, reader, byts>>
ByTag == /\ pc = "tag" /\ res' = ReadTag(rty, byts) /\ pc' = "done"
         /\ UNCHANGED <<atom, reader, byts, rty>>
Next == DoForge \/ ByLength \/ ByTag
Spec == Init /\ [][Next]_vars

\* ---------------------------------------------------------------- C10
\* reading the optimized form back yields the value
RoundTrip == pc = "done" /\ reader = TypeOf(atom) => res = Canon(atom)
\* without type information the form is still read correctly whenever its length belongs to one type only
BlindUnique(x) == BlindType(Len(Forge(x))) = TypeOf(x)
BlindRoundTrip == pc = "done" /\ reader = "blind" /\ BlindUnique(atom) => res = Canon(atom)
\* forms of different kinds differ: the same payload under another kind of the same type forges to other bytes
OtherKinds(x) == CASE x[1] = "addr" -> {<<"addr", kd, x[3], x[4]>> : kd \in AddrKinds \ {x[2]}}
                   [] x[1] = "kh" -> {<<"kh", kd, x[3]>> : kd \in ImplicitKinds \ {x[2]}}
                   [] x[1] = "key" -> {<<"key", c, x[3]>> : c \in {c \in Curves : KeyLen(c) = KeyLen(x[2])} \ {x[2]}}
                   [] OTHER -> {}
KindsDistinct == pc = "forged" => \A y \in OtherKinds(atom) : Forge(y) # byts
\* a key hash is never read as an originated / rollup address, an address never as a key hash
NoConfusion == pc = "done" =>
                 /\ reader = "key_hash" => res[1] = "rej" \/ (res[1] = "kh" /\ res[2] \in ImplicitKinds)
                 /\ (atom[1] = "kh" /\ reader \in {"address", "blind"}) => (res[1] = "addr" => FALSE)
                 /\ (atom[1] = "addr" /\ reader \in {"key_hash", "blind"}) => (res[1] = "kh" => FALSE)
                 /\ res[1] \in {"addr", "kh"} /\ atom[1] \in {"addr", "kh"} => res[2] = atom[2] /\ res[3] = atom[3]
FormLengths == pc = "forged" => CASE atom[1] = "addr" -> Len(byts) = 22 + (IF atom[4] = Default THEN 0 ELSE Len(atom[4]))
                                  [] atom[1] = "kh" -> Len(byts) = 21
                                  [] atom[1] = "key" -> Len(byts) = 1 + KeyLen(atom[2])
                                  [] atom[1] = "sig" -> Len(byts) = SigLen(atom[2])
                                  [] atom[1] = "chain" -> Len(byts) = 4

\* ---------------------------------------------------------------- export for Leg B
Emit == pc = "done" => PrintT(<<"OUT", atom, reader, byts, res>>)
=============================================================================
