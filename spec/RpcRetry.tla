---------------------------- MODULE RpcRetry ----------------------------
(* The retry loop of RpcNode.request (src/pytezos/rpc/node.py), one action per step the
   code takes: send one HTTP request, classify the answer, either sleep-and-retry or
   finish.  Property C26.

   A response is <<code, shape, errs, marker>>:
     code    HTTP status
     shape   "list"    content-type json, body = JSON list of error objects (errs)
             "object"  content-type json, body = some other JSON value
             "invalid" content-type json, body does not parse
             "text"    any other content type
     errs    sequence of <<isProto, isTemporary>> (only for shape "list")
     marker  TRUE iff the body text mentions the prevalidator (octez prevalidator.ml assertion)
   Delays are in milliseconds. *)
EXTENDS Integers, Sequences, TLC

CONSTANTS MaxAttempts,   \* 6
          InitDelay,     \* 250
          MaxDelay,      \* 2000
          MaxLen         \* bound on the number of responses the environment may give

Code(r) == r[1]
Shape(r) == r[2]
Errs(r) == r[3]
Marker(r) == r[4]

AnyProto(r) == \E k \in DOMAIN Errs(r) : Errs(r)[k][1]
AnyTemp(r) == \E k \in DOMAIN Errs(r) : Errs(r)[k][2]

(* "transient server error: a 5xx response whose errors are temporary and not protocol
   errors, or a prevalidator failure" *)
Transient(r) ==
  /\ Code(r) >= 500
  /\ \/ Shape(r) = "list" /\ ~AnyProto(r) /\ AnyTemp(r)
     \/ Marker(r) /\ ~(Shape(r) = "list" /\ AnyProto(r))

(* what the caller finally observes for the response with index k *)
Result(r, k) == IF Code(r) = 200 THEN <<"return", k>>
                ELSE IF Code(r) = 401 THEN <<"raise", "unauthorized">>
                ELSE IF Code(r) = 404 THEN <<"raise", "notfound">>
                ELSE <<"raise", "response", k>>

E1(p, t) == <<p, t>>
Alphabet == {
  <<200, "object", <<>>, FALSE>>,
  <<500, "list", <<E1(FALSE, TRUE)>>, FALSE>>,                     \* temporary            -> retry
  <<503, "list", <<E1(FALSE, FALSE), E1(FALSE, TRUE)>>, FALSE>>,   \* permanent+temporary  -> retry
  <<500, "list", <<E1(FALSE, FALSE)>>, FALSE>>,                    \* permanent
  <<500, "list", <<E1(TRUE, TRUE)>>, FALSE>>,                      \* protocol, temporary
  <<500, "list", <<E1(FALSE, TRUE), E1(TRUE, FALSE)>>, FALSE>>,    \* temporary + protocol
  <<500, "list", <<>>, FALSE>>,                                    \* empty error list
  <<500, "list", <<E1(FALSE, FALSE)>>, TRUE>>,                     \* permanent, prevalidator text -> retry
  <<500, "text", <<>>, TRUE>>,                                     \* prevalidator assertion text  -> retry
  <<502, "text", <<>>, FALSE>>,                                    \* gateway html
  <<500, "invalid", <<>>, FALSE>>,
  <<500, "object", <<>>, FALSE>>,
  <<401, "text", <<>>, FALSE>>,
  <<404, "text", <<>>, FALSE>>,
  <<400, "list", <<E1(FALSE, TRUE)>>, FALSE>>,                     \* temporary but 4xx
  <<400, "list", <<E1(TRUE, FALSE)>>, FALSE>>,
  <<403, "text", <<>>, TRUE>>,                                     \* marker but 4xx
  <<204, "text", <<>>, FALSE>> }

VARIABLES responses,   \* what the node has answered so far
          pc,          \* "send" | "classify" | "done"
          attempt, delay,
          slept,       \* sequence of sleeps performed
          outcome

vars == <<responses, pc, attempt, delay, slept, outcome>>
Sent == Len(responses)
Last == responses[Sent]
Min(a, b) == IF a < b THEN a ELSE b

Init == /\ responses = <<>> /\ pc = "send" /\ attempt = 0 /\ delay = InitDelay
        /\ slept = <<>> /\ outcome = <<"pending">>

Send(r) == /\ pc = "send" /\ Sent < MaxLen
           /\ responses' = Append(responses, r)
           /\ pc' = "classify"
           /\ UNCHANGED <<attempt, delay, slept, outcome>>

ShouldRetry == Transient(Last) /\ attempt < MaxAttempts - 1

SleepRetry == /\ pc = "classify" /\ ShouldRetry
              /\ slept' = Append(slept, delay)
              /\ delay' = Min(2 * delay, MaxDelay)
              /\ attempt' = attempt + 1
              /\ pc' = "send"
              /\ UNCHANGED <<responses, outcome>>

Finish == /\ pc = "classify" /\ ~ShouldRetry
          /\ outcome' = Result(Last, Sent)
          /\ pc' = "done"
          /\ UNCHANGED <<responses, attempt, delay, slept>>

Next == (\E r \in Alphabet : Send(r)) \/ SleepRetry \/ Finish
Spec == Init /\ [][Next]_vars

----------------------------------------------------------------------------
(* C26 *)
AtMostSix == Sent <= MaxAttempts
DelaysMonotoneCapped ==
  /\ \A k \in 1..Len(slept) - 1 : slept[k] <= slept[k + 1]
  /\ \A k \in DOMAIN slept : slept[k] <= MaxDelay /\ slept[k] >= InitDelay
OneSleepPerRetry == Len(slept) = attempt /\ (pc = "send" => Sent = attempt) /\ (pc # "send" => Sent = attempt + 1)
RetryOnlyTransient == \A k \in 1..Sent - 1 : Transient(responses[k])
FirstSuccessOrLastError ==
  /\ outcome # <<"pending">> => outcome = Result(Last, Sent)
  /\ \A k \in 1..Sent : Code(responses[k]) = 200 => k = Sent     \* nothing is sent after a success
NoGivingUpEarly ==    \* a transient answer before the limit is never reported to the caller
  pc = "done" /\ Transient(Last) => Sent = MaxAttempts
SendOnlyAfterTransient == [][ Len(responses') = Sent + 1 /\ Sent >= 1 => Transient(Last) ]_vars
=============================================================================
