-------------------------------- MODULE Coll --------------------------------
(* Sets and maps of the reference semantics as sorted sequences (MichSem: SetIns, SetDel,
   MapPut, MapDel, MapGet, SetMem) run against a *reference dictionary* (a plain TLA+ set
   of keys / of <<key, value>> pairs) under every history of operations.  Property C14:
   always strictly sorted, duplicate free, every observation equal to the dictionary's.
   Also the acceptance rule for literals: accepted iff strictly sorted. *)
EXTENDS MichSem, FiniteSets
CONSTANTS KeyTypes, KeysOf(_), Vals, MaxOps, MaxLit
VARIABLES kt, kind, coll, ref, obs, want, nops
vars == <<kt, kind, coll, ref, obs, want, nops>>

RECURSIVE SeqsUpTo(_, _)
SeqsUpTo(U, k) == IF k = 0 THEN {<<>>} ELSE LET R == SeqsUpTo(U, k - 1) IN R \cup {Append(r, x) : r \in {q \in R : Len(q) = k - 1}, x \in U}

Init == /\ kt \in KeyTypes /\ kind \in {"set", "map", "literal"}
        /\ coll \in (IF kind = "literal" THEN SeqsUpTo(KeysOf(kt), MaxLit) ELSE {<<>>})
        /\ ref = {} /\ obs = <<"-">> /\ want = <<"-">> /\ nops = 0

Step == nops < MaxOps /\ nops' = nops + 1 /\ UNCHANGED <<kt, kind>>
SetUpdate(k, flag) == /\ kind = "set" /\ Step
                      /\ coll' = IF flag THEN SetIns(kt, coll, k) ELSE SetDel(kt, coll, k)
                      /\ ref' = IF flag THEN ref \cup {k} ELSE ref \ {k}
                      /\ UNCHANGED <<obs, want>>
SetMember(k) == /\ kind = "set" /\ Step
                /\ obs' = <<"bool", SetMem(kt, coll, k)>> /\ want' = <<"bool", k \in ref>>
                /\ UNCHANGED <<coll, ref>>
RefGet(k) == IF \E e \in ref : e[1] = k THEN <<"some", (CHOOSE e \in ref : e[1] = k)[2]>> ELSE <<"none">>
RefPut(k, vo) == {e \in ref : e[1] # k} \cup (IF vo = <<"none">> THEN {} ELSE {<<k, vo[2]>>})
MapUpdate(k, vo) == /\ kind = "map" /\ Step
                    /\ coll' = IF vo = <<"none">> THEN MapDel(kt, coll, k) ELSE MapPut(kt, coll, k, vo[2])
                    /\ ref' = RefPut(k, vo)
                    /\ UNCHANGED <<obs, want>>
MapLookup(k) == /\ kind = "map" /\ Step
                /\ obs' = MapGet(kt, coll, k) /\ want' = RefGet(k)
                /\ UNCHANGED <<coll, ref>>
MapGetAndUpdate(k, vo) == /\ kind = "map" /\ Step
                          /\ obs' = MapGet(kt, coll, k) /\ want' = RefGet(k)
                          /\ coll' = IF vo = <<"none">> THEN MapDel(kt, coll, k) ELSE MapPut(kt, coll, k, vo[2])
                          /\ ref' = RefPut(k, vo)
Opts == {<<"none">>} \cup {<<"some", v>> : v \in Vals}
DoSetUpdate == \E k \in KeysOf(kt), f \in BOOLEAN : SetUpdate(k, f)
DoSetMember == \E k \in KeysOf(kt) : SetMember(k)
DoMapUpdate == \E k \in KeysOf(kt), vo \in Opts : MapUpdate(k, vo)
DoMapGetAndUpdate == \E k \in KeysOf(kt), vo \in Opts : MapGetAndUpdate(k, vo)
DoMapLookup == \E k \in KeysOf(kt) : MapLookup(k)
Next == DoSetUpdate \/ DoSetMember \/ DoMapUpdate \/ DoMapGetAndUpdate \/ DoMapLookup
Spec == Init /\ [][Next]_vars

KeysIn == IF kind = "map" THEN [j \in DOMAIN coll |-> coll[j][1]] ELSE coll
Sorted == kind # "literal" => StrictlySorted(kt, KeysIn)
Agrees == /\ kind = "set" => {coll[j] : j \in DOMAIN coll} = ref /\ Len(coll) = Cardinality(ref)
          /\ kind = "map" => {<<coll[j][1], coll[j][2]>> : j \in DOMAIN coll} = ref /\ Len(coll) = Cardinality(ref)
ObsOK == obs = want
\* literals: accepted exactly when strictly sorted (hence duplicate free); exported for the conformance leg
EmitLiteral == kind = "literal" => PrintT(<<"OUT", kt, coll, StrictlySorted(kt, coll)>>)
=============================================================================
