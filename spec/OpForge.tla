------------------------------ MODULE OpForge ------------------------------
(* Property C06: the binary format of a Tezos operation group ("forging").

   This module is a transcription of the operation encoding of the current protocols
   (Operation_repr.contents_list_encoding of the Oxford .. Seoul protocol family) as a
   *schema*: every content kind has a one-byte tag and a sequence of typed fields; every
   field type has an encoder `Enc` and an independent read-pointer decoder `Read`.
   It does not follow pytezos' code.

     group      = branch (32 bytes) || content+         (a list of more than one content
                                                          holds manager operations only)
     manager op = tag || source pkh (curve tag 0..3 || 20) || fee N || counter N
                      || gas_limit N || storage_limit N || kind specific fields
     N          = Zarith natural: 7 bits per byte, least significant group first, bit 7 set
                  on every byte but the last, no trailing zero group
     dyn        = 4-byte big-endian length (30 bit) || payload
     option     = 0x00 | 0xff || payload
     contract   = 0x00 || pkh(21) | 0x01 || hash(20) || 0x00                     (22 bytes)
     destination= contract | 0x03 || smart rollup hash(20) || 0x00               (22 bytes)
     entrypoint = tag 0..9 for default, root, do, set_delegate, remove_delegate, deposit,
                  stake, unstake, finalize_unstake, set_delegate_parameters
                  | 0xff || length (1 byte, <= 31) || name
     parameters = absent exactly when the entrypoint is default and the value is Unit

   Integers are BigInt values <<FALSE, little-endian base-256 limbs>>; bytes and text are
   Seq(0..255); Micheline expressions (parameter values, scripts, constants, ticket
   contents and types) are opaque byte strings here: their format is property C05.

   State machine: Init picks a group g; the encoder appends the branch, then one
   content per step (tag, then the fields in schema order); then the decoder reads the produced bytes back
   with a read pointer, one field per step.  Leg A: the bytes built step by step equal the
   declarative F(g), and the decoder returns g (so F is injective). *)
EXTENDS Integers, Sequences, FiniteSets, TLC
BI == INSTANCE BigInt

CONSTANTS Families,    \* which bounded universes: subset of {"hdr", "tx", "misc", "mix", "vec"}
          MaxLen,      \* "mix": groups of 2..MaxLen contents
          HdrIdx,      \* "hdr": indices into IntTab tried for fee/counter/gas_limit/storage_limit
          AmtIdx,      \* indices into IntTab tried for amounts / balances
          NTxHdr,      \* "tx": number of manager headers tried (1..4)
          VecGroups    \* "vec": groups supplied by a generated wrapper (recorded mainnet operations)

VARIABLES g,                       \* the input group <<branch, contents>>
          pc, ci,                  \* control, content index
          parts,                   \* parts[c] = <<tag bytes, field 1 bytes, ..>> of content c (export)
          buf,                     \* bytes produced so far / the bytes being decoded
          ptr, todo, acc,          \* decoder: read pointer (1-based), fields still to read, fields read
          dbranch, dcontents, err
vars == <<g, pc, ci, parts, buf, ptr, todo, acc, dbranch, dcontents, err>>

\* ------------------------------------------------------------------ the schema
ManagerHdr == <<"pkh", "N", "N", "N", "N">>
Schema(kind) ==
  CASE kind = "reveal"                              -> ManagerHdr \o <<"pk", "optproof">>
    [] kind = "transaction"                         -> ManagerHdr \o <<"N", "destination", "params">>
    [] kind = "origination"                         -> ManagerHdr \o <<"N", "optpkh", "dyn", "dyn">>
    [] kind = "delegation"                          -> ManagerHdr \o <<"optpkh">>
    [] kind = "register_global_constant"            -> ManagerHdr \o <<"dyn">>
    [] kind = "transfer_ticket"                     -> ManagerHdr \o <<"dyn", "dyn", "contract", "N", "contract", "dyn">>
    [] kind = "smart_rollup_add_messages"           -> ManagerHdr \o <<"msgs">>
    [] kind = "smart_rollup_execute_outbox_message" -> ManagerHdr \o <<"h20", "h32", "dyn">>
    [] kind = "failing_noop"                        -> <<"dyn">>
    [] kind = "activate_account"                    -> <<"h20", "h20">>
Tag(kind) ==
  CASE kind = "reveal" -> 107 [] kind = "transaction" -> 108 [] kind = "origination" -> 109
    [] kind = "delegation" -> 110 [] kind = "register_global_constant" -> 111
    [] kind = "transfer_ticket" -> 158 [] kind = "smart_rollup_add_messages" -> 201
    [] kind = "smart_rollup_execute_outbox_message" -> 206
    [] kind = "failing_noop" -> 17 [] kind = "activate_account" -> 4
Kinds == {"reveal", "transaction", "origination", "delegation", "register_global_constant", "transfer_ticket",
          "smart_rollup_add_messages", "smart_rollup_execute_outbox_message", "failing_noop", "activate_account"}
IsManager(kind) == kind \notin {"failing_noop", "activate_account"}

\* text as byte codes
Reserved == << <<100, 101, 102, 97, 117, 108, 116>>,                                              \* 0 default
               <<114, 111, 111, 116>>,                                                            \* 1 root
               <<100, 111>>,                                                                      \* 2 do
               <<115, 101, 116, 95, 100, 101, 108, 101, 103, 97, 116, 101>>,                      \* 3 set_delegate
               <<114, 101, 109, 111, 118, 101, 95, 100, 101, 108, 101, 103, 97, 116, 101>>,       \* 4 remove_delegate
               <<100, 101, 112, 111, 115, 105, 116>>,                                             \* 5 deposit
               <<115, 116, 97, 107, 101>>,                                                        \* 6 stake
               <<117, 110, 115, 116, 97, 107, 101>>,                                              \* 7 unstake
               <<102, 105, 110, 97, 108, 105, 122, 101, 95, 117, 110, 115, 116, 97, 107, 101>>,   \* 8 finalize_unstake
               <<115, 101, 116, 95, 100, 101, 108, 101, 103, 97, 116, 101, 95, 112, 97, 114, 97, 109, 101, 116, 101, 114, 115>> >> \* 9 set_delegate_parameters
EpDefault == Reserved[1]
MichUnit == <<3, 11>>           \* Micheline `Unit`: prim without arguments or annotations (03), primitive 0x0b
PkLen(curve) == CASE curve = 0 -> 32 [] curve = 1 -> 33 [] curve = 2 -> 33 [] curve = 3 -> 48

\* ------------------------------------------------------------------ encoders
RECURSIVE Cat(_)
Cat(ss) == IF ss = <<>> THEN <<>> ELSE LET r == Cat(Tail(ss)) IN Head(ss) \o r
U32(n) == <<n \div 16777216, (n \div 65536) % 256, (n \div 256) % 256, n % 256>>
Dyn(b) == U32(Len(b)) \o b
EncPkh(v) == <<v[1]>> \o v[2]
EncOpt(v, payload(_)) == IF v[1] = "none" THEN <<0>> ELSE <<255>> \o payload(v[2])
EncEp(name) == IF \E k \in 1..Len(Reserved) : Reserved[k] = name
               THEN <<(CHOOSE k \in 1..Len(Reserved) : Reserved[k] = name) - 1>>
               ELSE <<255, Len(name)>> \o name
EncAddr(v) == CASE v[1] = "implicit"   -> <<0>> \o EncPkh(v[2])
                [] v[1] = "originated" -> <<1>> \o v[2] \o <<0>>
                [] v[1] = "rollup"     -> <<3>> \o v[2] \o <<0>>
Enc(ft, v) ==
  CASE ft = "pkh"         -> EncPkh(v)
    [] ft = "N"           -> BI!ZarithN(v)
    [] ft = "pk"          -> <<v[1]>> \o v[2]
    [] ft = "optproof"    -> EncOpt(v, Dyn)
    [] ft = "optpkh"      -> EncOpt(v, EncPkh)
    [] ft = "contract"    -> EncAddr(v)
    [] ft = "destination" -> EncAddr(v)
    [] ft = "params"      -> IF v[1] = "none" THEN <<0>> ELSE <<255>> \o EncEp(v[2]) \o Dyn(v[3])
    [] ft = "dyn"         -> Dyn(v)
    [] ft = "msgs"        -> Dyn(Cat([k \in 1..Len(v) |-> Dyn(v[k])]))
    [] ft = "h20"         -> v
    [] ft = "h32"         -> v
FContent(c) == <<Tag(c[1])>> \o Cat([k \in 1..Len(Schema(c[1])) |-> Enc(Schema(c[1])[k], c[k + 1])])
F(gr) == gr[1] \o Cat([k \in 1..Len(gr[2]) |-> FContent(gr[2][k])])

\* ------------------------------------------------------------------ well-formedness of a group
WfField(ft, v) ==
  CASE ft = "pkh"      -> v[1] \in 0..3 /\ Len(v[2]) = 20
    [] ft = "N"        -> ~v[1]
    [] ft = "pk"       -> v[1] \in 0..3 /\ Len(v[2]) = PkLen(v[1])
    [] ft = "params"   -> v[1] = "none" \/ (Len(v[2]) \in 1..31 /\ ~(v[2] = EpDefault /\ v[3] = MichUnit))
    [] ft = "contract" -> v[1] \in {"implicit", "originated"}
    [] ft = "h20"      -> Len(v) = 20
    [] ft = "h32"      -> Len(v) = 32
    [] OTHER           -> TRUE
WfContent(c) == c[1] \in Kinds /\ Len(c) = Len(Schema(c[1])) + 1 /\ \A k \in 1..Len(Schema(c[1])) : WfField(Schema(c[1])[k], c[k + 1])
WfGroup(gr) == /\ Len(gr[1]) = 32 /\ Len(gr[2]) >= 1
               /\ \A k \in 1..Len(gr[2]) : WfContent(gr[2][k])
               /\ (Len(gr[2]) > 1 => \A k \in 1..Len(gr[2]) : IsManager(gr[2][k][1]))

\* ------------------------------------------------------------------ decoder (read pointer)
Ok(v, p) == <<"ok", v, p>>
Err(why) == <<"err", why>>
Has(b, p, n) == p + n - 1 <= Len(b)
Take(b, p, n) == SubSeq(b, p, p + n - 1)
Min2(a, b) == IF a < b THEN a ELSE b

ReadPkh(b, p) == IF ~Has(b, p, 21) THEN Err("short-pkh") ELSE IF b[p] > 3 THEN Err("pkh-tag")
                 ELSE Ok(<<b[p], Take(b, p + 1, 20)>>, p + 21)
\* Zarith N
RECURSIVE NEnd(_, _)
NEnd(b, p) == IF p > Len(b) THEN 0 ELSE IF b[p] < 128 THEN p ELSE NEnd(b, p + 1)
RECURSIVE P2(_)
P2(k) == IF k = 0 THEN 1 ELSE 2 * P2(k - 1)
Low7(x) == [k \in 1..7 |-> (x \div P2(k - 1)) % 2]
RECURSIVE Bits7(_, _, _)
Bits7(b, p, q) == IF p > q THEN <<>> ELSE LET r == Bits7(b, p + 1, q) IN Low7(b[p]) \o r
RECURSIVE BitVal(_)
BitVal(bits) == IF bits = <<>> THEN 0 ELSE LET r == BitVal(Tail(bits)) IN Head(bits) + 2 * r
RECURSIVE Pack8(_)
Pack8(bits) == IF bits = <<>> THEN <<>>
               ELSE LET n == Min2(8, Len(bits))
                        r == Pack8(SubSeq(bits, n + 1, Len(bits)))
                    IN <<BitVal(SubSeq(bits, 1, n))>> \o r
RECURSIVE TrimZ(_)
TrimZ(m) == IF m = <<>> THEN <<>> ELSE IF m[Len(m)] = 0 THEN TrimZ(SubSeq(m, 1, Len(m) - 1)) ELSE m
ReadN(b, p) == LET q == NEnd(b, p) IN
  IF q = 0 THEN Err("short-N") ELSE IF q > p /\ b[q] = 0 THEN Err("N-trailing-zero")
  ELSE Ok(<<FALSE, TrimZ(Pack8(Bits7(b, p, q)))>>, q + 1)
ReadDyn(b, p) == IF ~Has(b, p, 4) THEN Err("short-length") ELSE IF b[p] >= 64 THEN Err("length-range")
  ELSE LET n == ((b[p] * 256 + b[p + 1]) * 256 + b[p + 2]) * 256 + b[p + 3] IN
       IF ~Has(b, p + 4, n) THEN Err("short-dyn") ELSE Ok(Take(b, p + 4, n), p + 4 + n)
ReadFixed(b, p, n) == IF ~Has(b, p, n) THEN Err("short-fixed") ELSE Ok(Take(b, p, n), p + n)
ReadPk(b, p) == IF ~Has(b, p, 1) THEN Err("short-pk") ELSE IF b[p] > 3 THEN Err("pk-tag")
                ELSE IF ~Has(b, p + 1, PkLen(b[p])) THEN Err("short-pk") ELSE Ok(<<b[p], Take(b, p + 1, PkLen(b[p]))>>, p + 1 + PkLen(b[p]))
ReadOpt(b, p, rd(_, _)) == IF ~Has(b, p, 1) THEN Err("short-option") ELSE
  IF b[p] = 0 THEN Ok(<<"none">>, p + 1)
  ELSE IF b[p] = 255 THEN (LET r == rd(b, p + 1) IN IF r[1] = "err" THEN r ELSE Ok(<<"some", r[2]>>, r[3]))
  ELSE Err("option-tag")
ReadAddr(b, p, rollupAllowed) == IF ~Has(b, p, 22) THEN Err("short-address") ELSE
  IF b[p] = 0 THEN (LET r == ReadPkh(b, p + 1) IN IF r[1] = "err" THEN r ELSE Ok(<<"implicit", r[2]>>, p + 22))
  ELSE IF b[p] = 1 THEN (IF b[p + 21] # 0 THEN Err("address-padding") ELSE Ok(<<"originated", Take(b, p + 1, 20)>>, p + 22))
  ELSE IF b[p] = 3 /\ rollupAllowed THEN (IF b[p + 21] # 0 THEN Err("address-padding") ELSE Ok(<<"rollup", Take(b, p + 1, 20)>>, p + 22))
  ELSE Err("address-tag")
ReadEp(b, p) == IF ~Has(b, p, 1) THEN Err("short-entrypoint") ELSE
  IF b[p] <= 9 THEN Ok(Reserved[b[p] + 1], p + 1)
  ELSE IF b[p] # 255 THEN Err("entrypoint-tag")
  ELSE IF ~Has(b, p + 1, 1) THEN Err("short-entrypoint")
  ELSE IF b[p + 1] > 31 THEN Err("entrypoint-length")
  ELSE IF ~Has(b, p + 2, b[p + 1]) THEN Err("short-entrypoint")
  ELSE LET name == Take(b, p + 2, b[p + 1]) IN
       IF \E k \in 1..Len(Reserved) : Reserved[k] = name THEN Err("entrypoint-not-canonical")   \* reserved names have a tag
       ELSE Ok(name, p + 2 + b[p + 1])
ReadParams(b, p) == IF ~Has(b, p, 1) THEN Err("short-option") ELSE
  IF b[p] = 0 THEN Ok(<<"none">>, p + 1)
  ELSE IF b[p] # 255 THEN Err("option-tag")
  ELSE LET e == ReadEp(b, p + 1) IN IF e[1] = "err" THEN e
       ELSE LET v == ReadDyn(b, e[3]) IN IF v[1] = "err" THEN v
       ELSE IF e[2] = EpDefault /\ v[2] = MichUnit THEN Err("parameters-not-canonical")
       ELSE Ok(<<"some", e[2], v[2]>>, v[3])
RECURSIVE SplitMsgs(_, _)
SplitMsgs(b, p) == IF p > Len(b) THEN Ok(<<>>, p)
  ELSE LET r == ReadDyn(b, p) IN IF r[1] = "err" THEN r
       ELSE LET rest == SplitMsgs(b, r[3]) IN IF rest[1] = "err" THEN rest ELSE Ok(<<r[2]>> \o rest[2], rest[3])
ReadMsgs(b, p) == LET r == ReadDyn(b, p) IN IF r[1] = "err" THEN r
  ELSE LET m == SplitMsgs(r[2], 1) IN IF m[1] = "err" THEN m ELSE Ok(m[2], r[3])
Read(ft, b, p) ==
  CASE ft = "pkh"         -> ReadPkh(b, p)
    [] ft = "N"           -> ReadN(b, p)
    [] ft = "pk"          -> ReadPk(b, p)
    [] ft = "optproof"    -> ReadOpt(b, p, ReadDyn)
    [] ft = "optpkh"      -> ReadOpt(b, p, ReadPkh)
    [] ft = "contract"    -> ReadAddr(b, p, FALSE)
    [] ft = "destination" -> ReadAddr(b, p, TRUE)
    [] ft = "params"      -> ReadParams(b, p)
    [] ft = "dyn"         -> ReadDyn(b, p)
    [] ft = "msgs"        -> ReadMsgs(b, p)
    [] ft = "h20"         -> ReadFixed(b, p, 20)
    [] ft = "h32"         -> ReadFixed(b, p, 32)
KindOfTag(t) == IF \E k \in Kinds : Tag(k) = t THEN CHOOSE k \in Kinds : Tag(k) = t ELSE "?"

\* ------------------------------------------------------------------ bounded universes
Ramp(s, n) == [k \in 1..n |-> (s + 37 * k) % 256]
Zeros(n) == [k \in 1..n |-> 0]
HA == Ramp(1, 20)
HB == Ramp(100, 20)
HZ == Zeros(20)
BR1 == Ramp(7, 32)
BR2 == Zeros(32)
C32 == Ramp(200, 32)
\* payloads that begin with, and contain again, the binary base58 prefix bytes of their own kind (tz1 06a19f, tz2 06a1a1, tz3 06a1a4, tz4 06a1a6, KT1 025a79,
\* sr1 067c75, B 0134, src1 11a5868a): a payload is cut off its prefix by position, never by content
HP == <<6, 161, 159, 161, 164, 166, 6, 9>> \o <<6, 161, 159>> \o <<6, 161, 161>> \o <<6, 161, 164>> \o <<6, 161, 166>>
HK == <<2, 90, 121, 90, 2, 7>> \o <<2, 90, 121>> \o <<6, 124, 117, 6, 124, 117>> \o Ramp(5, 5)
BR3 == <<1, 52, 52, 1, 8>> \o <<1, 52>> \o Ramp(3, 23) \o <<1, 52>>
C32P == <<17, 165, 134, 138, 17, 3>> \o <<17, 165, 134, 138>> \o Ramp(4, 22)
IntTab == << <<FALSE, <<>>>>,                           \* 1: 0
             <<FALSE, <<127>>>>,                        \* 2: 127
             <<FALSE, <<128>>>>,                        \* 3: 128
             <<FALSE, <<0, 64>>>>,                      \* 4: 2^14
             <<FALSE, <<0, 0, 0, 0, 0, 0, 0, 128>>>>,   \* 5: 2^63
             <<FALSE, <<0, 0, 0, 0, 0, 0, 0, 0, 1>>>>,  \* 6: 2^64
             <<FALSE, <<1, 0, 0, 0, 0, 0, 0, 0, 1>>>>,  \* 7: 2^64 + 1
             <<FALSE, <<0, 0, 0, 0, 0, 0, 0, 0, 64>>>>, \* 8: 2^70  (11 Zarith groups: naturals are unbounded, not 64-bit)
             <<FALSE, <<1, 0, 0, 0, 0, 0, 0, 0, 0, 0, 0, 0, 16>>>> >>\* 9: 2^100 + 1
Hdr(k, h, a, b, c, d) == <<<<k, h>>, IntTab[a], IntTab[b], IntTab[c], IntTab[d]>>
H1 == Hdr(0, HA, 4, 7, 3, 1)
H2 == Hdr(3, HB, 1, 2, 5, 6)
H3 == Hdr(1, HZ, 7, 1, 2, 4)
H4 == Hdr(2, HA, 3, 6, 1, 5)
TxHdrs == {<<H1, H2, H3, H4>>[k] : k \in 1..NTxHdr}
Pk(c) == <<c, Ramp(50 + c, PkLen(c))>>
Proof96 == Ramp(9, 96)
\* opaque Micheline byte strings (concretised by the harness with fixed, independently known encodings)
VInt1 == <<0, 1>>                                   \* 1
VPair == <<7, 7, 0, 1, 3, 11>>                      \* Pair 1 Unit
VIntM64 == <<0, 192, 1>>                            \* -64: the first magnitude that no longer fits the 6 bits of the head byte
VTicket == <<1, 0, 0, 0, 6, 84, 105, 99, 107, 101, 116>>    \* "Ticket"
TString == <<3, 104>>                               \* string
TInt == <<3, 91>>                                   \* int
Code0 == <<2, 0, 0, 0, 0>>                          \* {}
Code1 == <<2, 0, 0, 0, 23,  5, 0, 3, 108,  5, 1, 3, 108,  5, 2, 2, 0, 0, 0, 8,  3, 23,  5, 61, 3, 109,  3, 66>>
                                                    \* { parameter unit ; storage unit ; code { CDR ; NIL operation ; PAIR } }
Code1R == <<2, 0, 0, 0, 23,  5, 1, 3, 108,  5, 0, 3, 108,  5, 2, 2, 0, 0, 0, 8,  3, 23,  5, 61, 3, 109,  3, 66>>
                                                    \* { storage unit ; parameter unit ; code { CDR ; NIL operation ; PAIR } }: sections in another order
Values == {MichUnit, VInt1, VPair, VIntM64}
EpSave == <<115, 97, 118, 101>>                     \* save
EpLong == <<97, 98, 99, 100, 101, 102, 103, 104, 105, 106, 107, 108, 109, 110, 111, 112, 113, 114, 115, 116, 117, 118, 119, 120, 121, 122, 48, 49, 50, 51, 52>>  \* 31 characters
Entrypoints == {Reserved[k] : k \in 1..Len(Reserved)} \cup {EpSave, EpLong}
Params == {<<"none">>} \cup ({<<"some", e, v>> : e \in Entrypoints, v \in Values} \ {<<"some", EpDefault, MichUnit>>})
Implicits == {<<"implicit", <<k, HA>>>> : k \in 0..3}
Dests == Implicits \cup {<<"originated", HB>>, <<"rollup", HA>>}
OptPkhs == {<<"none">>} \cup {<<"some", <<k, HB>>>> : k \in 0..3}
Msg0 == <<>>
Msg1 == Ramp(3, 5)
Msg2 == <<255>>
TextMsg1 == <<109, 115, 103, 49>>                   \* msg1
TextHex == <<99, 97, 102, 101>>                     \* cafe: a text that happens to read as hexadecimal is still text

HdrContents == {<<"delegation">> \o Hdr(k, HA, a, b, c, d) \o <<<<"none">>>> : k \in 0..3, a \in HdrIdx, b \in HdrIdx, c \in HdrIdx, d \in HdrIdx}
TxContents == {<<"transaction">> \o h \o <<IntTab[a], d, p>> : h \in TxHdrs, a \in AmtIdx, d \in Dests, p \in Params}
MiscContents ==
       {<<"reveal">> \o h \o <<Pk(c), <<"none">>>> : h \in {H1, H2}, c \in 0..3}
  \cup {<<"reveal">> \o h \o <<Pk(3), <<"some", Proof96>>>> : h \in {H1, H2}}
  \cup {<<"origination">> \o H1 \o <<IntTab[a], dl, code, st>> : a \in AmtIdx, dl \in OptPkhs, code \in {Code0, Code1, Code1R}, st \in {MichUnit, VInt1}}
  \cup {<<"delegation">> \o h \o <<dl>> : h \in {H1, H2}, dl \in OptPkhs}
  \cup {<<"register_global_constant">> \o h \o <<v>> : h \in {H1, H2}, v \in Values}
  \cup {<<"transfer_ticket">> \o H1 \o <<ct[1], ct[2], tk, IntTab[a], d, e>> :
          ct \in {<<VTicket, TString>>, <<VInt1, TInt>>}, tk \in {<<"originated", HA>>, <<"implicit", <<0, HB>>>>},
          a \in AmtIdx \ {1}, d \in Implicits \cup {<<"originated", HB>>}, e \in {EpDefault, EpSave}}
  \cup {<<"smart_rollup_add_messages">> \o h \o <<m>> : h \in {H1, H2}, m \in {<<>>, <<Msg1>>, <<Msg1, Msg2>>, <<Msg0>>, <<Msg0, Msg1>>}}
  \cup {<<"smart_rollup_execute_outbox_message">> \o h \o <<r, C32, pr>> : h \in {H1, H2}, r \in {HA, HZ}, pr \in {<<>>, Ramp(11, 40)}}
  \cup {<<"failing_noop", m>> : m \in {<<>>, TextMsg1, TextHex, EpLong}}
  \cup {<<"activate_account", p, HB>> : p \in {HA, HZ, HP}}
  \cup UNION {{<<"delegation">> \o Hdr(k, HP, 1, 2, 3, 4) \o <<dl>> : dl \in {<<"none">>, <<"some", <<k, HP>>>>}} : k \in 0..3}
  \cup UNION {{<<"transaction">> \o Hdr(k, HP, 2, 1, 1, 1) \o <<IntTab[2], d, <<"none">>>> :
          d \in {<<"implicit", <<k, HP>>>>, <<"originated", HK>>, <<"rollup", HK>>, <<"originated", HP>>}} : k \in 0..3}
  \cup {<<"smart_rollup_execute_outbox_message">> \o H1 \o <<HK, C32P, <<>>>>}
MixPool == {
   <<"reveal">> \o H1 \o <<Pk(0), <<"none">>>>,
   <<"reveal">> \o H2 \o <<Pk(3), <<"some", Proof96>>>>,
   <<"transaction">> \o H3 \o <<IntTab[7], <<"implicit", <<0, HA>>>>, <<"none">>>>,
   <<"transaction">> \o H1 \o <<IntTab[1], <<"originated", HB>>, <<"some", EpSave, VPair>>>>,
   <<"transaction">> \o H4 \o <<IntTab[3], <<"rollup", HA>>, <<"some", EpDefault, VInt1>>>>,
   <<"origination">> \o H2 \o <<IntTab[5], <<"some", <<2, HB>>>>, Code1, MichUnit>>,
   <<"origination">> \o H3 \o <<IntTab[1], <<"none">>, Code0, VInt1>>,
   <<"delegation">> \o H4 \o <<<<"some", <<1, HA>>>>>>,
   <<"delegation">> \o H1 \o <<<<"none">>>>,
   <<"register_global_constant">> \o H2 \o <<VPair>>,
   <<"transfer_ticket">> \o H3 \o <<VTicket, TString, <<"originated", HA>>, IntTab[2], <<"originated", HB>>, EpSave>>,
   <<"smart_rollup_add_messages">> \o H4 \o <<<<>>>>,
   <<"smart_rollup_add_messages">> \o H1 \o <<<<Msg1, Msg2>>>>,
   <<"smart_rollup_execute_outbox_message">> \o H2 \o <<HA, C32, Ramp(11, 40)>> }
Singles(brs, cs) == {<<br, <<c>>>> : br \in brs, c \in cs}
GroupsOf(family) ==
  CASE family = "hdr"  -> Singles({BR1}, HdrContents)
    [] family = "tx"   -> Singles({BR1}, TxContents)
    [] family = "misc" -> Singles({BR1, BR2, BR3}, MiscContents)
    [] family = "mix"  -> UNION {{<<BR1, s>> : s \in [1..n -> MixPool]} : n \in 2..MaxLen}
    [] family = "vec"  -> VecGroups
Groups == UNION {GroupsOf(f) : f \in Families}

\* ------------------------------------------------------------------ the machine
Init == /\ g \in Groups
        /\ pc = "enc-branch" /\ ci = 0 /\ parts = <<>> /\ buf = <<>>
        /\ ptr = 0 /\ todo = <<>> /\ acc = <<>> /\ dbranch = <<>> /\ dcontents = <<>> /\ err = <<>>

EncBranch == /\ pc = "enc-branch"
             /\ buf' = g[1] /\ ci' = 1 /\ pc' = "enc-content"
             /\ UNCHANGED <<g, parts, ptr, todo, acc, dbranch, dcontents, err>>
EncContent == /\ pc = "enc-content"            \* one content per step: tag, then its fields in schema order
              /\ IF ci > Len(g[2])
                 THEN pc' = "dec-branch" /\ UNCHANGED <<buf, parts, ci>>
                 ELSE LET c == g[2][ci]
                          sch == Schema(c[1])
                          p == <<<<Tag(c[1])>>>> \o [k \in 1..Len(sch) |-> Enc(sch[k], c[k + 1])] IN
                      buf' = buf \o Cat(p) /\ parts' = Append(parts, p) /\ ci' = ci + 1 /\ UNCHANGED pc
              /\ UNCHANGED <<g, ptr, todo, acc, dbranch, dcontents, err>>

Fail(why) == pc' = "error" /\ err' = <<why, ptr>> /\ UNCHANGED <<ptr, todo, acc, dbranch, dcontents>>
DecBranch == /\ pc = "dec-branch"
             /\ IF ~Has(buf, 1, 32) THEN Fail("short-branch")
                ELSE dbranch' = Take(buf, 1, 32) /\ ptr' = 33 /\ pc' = "dec-tag" /\ UNCHANGED <<todo, acc, dcontents, err>>
             /\ UNCHANGED <<g, ci, parts, buf>>
DecTag == /\ pc = "dec-tag"
          /\ IF ptr > Len(buf)
             THEN IF dcontents = <<>> THEN Fail("no-contents")
                  ELSE IF Len(dcontents) > 1 /\ \E k \in 1..Len(dcontents) : ~IsManager(dcontents[k][1]) THEN Fail("non-manager-in-batch")
                  ELSE pc' = "done" /\ UNCHANGED <<ptr, todo, acc, dbranch, dcontents, err>>
             ELSE LET kind == KindOfTag(buf[ptr]) IN
                  IF kind = "?" THEN Fail("unknown-tag")
                  ELSE todo' = Schema(kind) /\ acc' = <<kind>> /\ ptr' = ptr + 1 /\ pc' = "dec-field" /\ UNCHANGED <<dbranch, dcontents, err>>
          /\ UNCHANGED <<g, ci, parts, buf>>
DecField == /\ pc = "dec-field"
            /\ IF todo = <<>>
               THEN dcontents' = Append(dcontents, acc) /\ acc' = <<>> /\ pc' = "dec-tag" /\ UNCHANGED <<ptr, todo, dbranch, err>>
               ELSE LET r == Read(Head(todo), buf, ptr) IN
                    IF r[1] = "err" THEN Fail(r[2])
                    ELSE acc' = Append(acc, r[2]) /\ ptr' = r[3] /\ todo' = Tail(todo) /\ UNCHANGED <<pc, dbranch, dcontents, err>>
            /\ UNCHANGED <<g, ci, parts, buf>>
Next == EncBranch \/ EncContent \/ DecBranch \/ DecTag \/ DecField
Spec == Init /\ [][Next]_vars

\* ------------------------------------------------------------------ properties (Leg A)
UniverseWellFormed == pc = "enc-branch" => WfGroup(g)
\* the bytes built step by step are the declarative encoding, and they are the concatenation of the exported parts
EncIsF == pc = "dec-branch" =>            \* (buf is not modified afterwards)
            /\ buf = F(g)
            /\ buf = g[1] \o Cat([k \in 1..Len(parts) |-> Cat(parts[k])])
NoDecodeError == pc # "error"
RoundTrip == pc = "done" => <<dbranch, dcontents>> = g          \* Unf(F(g)) = g, hence F is injective
PointerInRange == pc \in {"dec-tag", "dec-field"} => ptr \in 33..Len(buf) + 1
Export == pc = "done" => PrintT(<<"OUT", g, parts>>)
=============================================================================
