---- MODULE CycleRange ----
(* Growth (X09): `ShellQuery.cycles[...]` / `ShellQuery.voting_periods[...]` (rpc/search.py PeriodQuery._get_item)     *)
(* and `BlockSliceQuery.get_range` on the result.  A chain with a uniform period length B: level l (>= 1) lies in       *)
(* period (l-1) \div B at position (l-1) % B.  One action per step of the code: read the head's level_info, derive the  *)
(* period length, map the start item, map the stop item, resolve the slice to levels.                                    *)
(* The *intended* meaning (docstring: "cycle number or range, start/stop can be empty or negative") is stated           *)
(* declaratively (ILevels); the code deviates in two named ways (see CodedPeriod and ZeroDiv).                          *)
EXTENDS Integers, Sequences, FiniteSets, TLC
CONSTANTS MaxB, MaxL, MaxIdx
VARIABLES B, L, item, pc, bpp, start, stop, lo, hi
vars == <<B, L, item, pc, bpp, start, stop, lo, hi>>

None == 99                                 \* Python None / 'head' (all levels stay far below)
Idx == (0 - MaxIdx)..MaxIdx
Items == {<<"int", x, x>> : x \in Idx} \cup {<<"slice", a, b>> : a \in Idx \cup {None}, b \in Idx \cup {None}}
Per(l) == (l - 1) \div B
Pos(l) == (l - 1) % B
C == Per(L)                                \* the head's period
Max(a, b) == IF a > b THEN a ELSE b

Init == /\ B \in 2..MaxB /\ L \in 1..MaxL /\ item \in Items
        /\ pc = "head" /\ bpp = 0 /\ start = 0 /\ stop = 0 /\ lo = 0 /\ hi = 0

(* ---- as coded ---- *)
Or(v, d) == IF v = None \/ v = 0 THEN d ELSE v                   \* Python `v or d`
CodedPeriod(x) == IF x >= 0 THEN Max(1, x) - 1 ELSE C + x + 1    \* deviation 1: non-negative numbers are 1-based
CStart(x) == CodedPeriod(x) * bpp + 1
CStop(x) == LET s == CStart(x) + bpp - 1 IN IF s > L THEN None ELSE s

ReadHead == /\ pc = "head"
            /\ IF C = 0 THEN pc' = "zerodiv" /\ bpp' = 0         \* deviation 2: (level - pos - 1) / period with period 0
                        ELSE pc' = "start" /\ bpp' = (L - Pos(L) - 1) \div C
            /\ UNCHANGED <<B, L, item, start, stop, lo, hi>>
MapStart == /\ pc = "start"
            /\ start' = CStart(IF item[1] = "int" THEN item[2] ELSE Or(item[2], 1))
            /\ pc' = "stop" /\ UNCHANGED <<B, L, item, bpp, stop, lo, hi>>
MapStop == /\ pc = "stop"
           /\ stop' = Or(CStop(IF item[1] = "int" THEN item[3] ELSE Or(item[3], 0 - 1)), None)   \* `stop or 'head'`
           /\ pc' = "slice" /\ UNCHANGED <<B, L, item, bpp, start, lo, hi>>
Level(x) == IF x = None THEN L ELSE IF x < 0 THEN Max(0, L + x) ELSE IF x > 0 THEN x ELSE 1      \* BlockSliceQuery.get_range
Resolve == /\ pc = "slice"
           /\ lo' = Level(start) /\ hi' = Level(stop)
           /\ pc' = "done" /\ UNCHANGED <<B, L, item, bpp, start, stop>>
Next == ReadHead \/ MapStart \/ MapStop \/ Resolve
Spec == Init /\ [][Next]_vars

(* ---- intended ---- *)
IPeriod(x) == IF x >= 0 THEN x ELSE C + x + 1                    \* periods are numbered from 0 like the protocol does; -1 = current
ILevels(p, q) == {l \in 1..L : Per(l) >= p /\ Per(l) <= q}       \* the levels of periods p..q that exist
Levels == {l \in 1..L : l >= lo /\ l <= hi}
StartItem == IF item[1] = "int" THEN item[2] ELSE Or(item[2], 1)
StopItem == IF item[1] = "int" THEN item[3] ELSE Or(item[3], 0 - 1)
InDom(p) == p >= 0 /\ p <= C

(* ---- properties ---- *)
TypeOK == pc \in {"head", "zerodiv", "start", "stop", "slice", "done"}
PeriodLength == pc \in {"start", "stop", "slice", "done"} => bpp = B
ZeroDivExactlyInFirstPeriod == (pc = "zerodiv" => C = 0) /\ (pc \in {"start", "stop", "slice", "done"} => C > 0)
\* what the code returns is the union of the periods CodedPeriod(start) .. CodedPeriod(stop), cut at the head
CodedMeaning == pc = "done" /\ InDom(CodedPeriod(StartItem)) /\ InDom(CodedPeriod(StopItem))
                  => Levels = ILevels(CodedPeriod(StartItem), CodedPeriod(StopItem))
\* negative numbers already have the intended meaning
NegativeIsIntended == pc = "done" /\ StartItem < 0 /\ StopItem < 0 /\ InDom(IPeriod(StartItem)) /\ InDom(IPeriod(StopItem))
                  => Levels = ILevels(IPeriod(StartItem), IPeriod(StopItem))
\* a finished period is returned whole and never reaches into its neighbours
WholePeriods == pc = "done" /\ InDom(CodedPeriod(StartItem)) /\ InDom(CodedPeriod(StopItem)) /\ CodedPeriod(StartItem) <= CodedPeriod(StopItem)
                  => /\ Pos(lo) = 0
                     /\ (hi = L \/ Pos(hi) = B - 1)
                     /\ Cardinality(Levels) = hi - lo + 1
\* the head is reached through 'head', never through a level beyond it
NeverBeyondHead == pc = "done" /\ InDom(CodedPeriod(StopItem)) => hi <= L
\* the deviation itself: a non-negative number n >= 1 denotes period n - 1, so the current period C is cycles[C + 1] = cycles[-1]
OneBased == pc = "done" /\ item[1] = "int" /\ item[2] >= 1 /\ InDom(item[2] - 1) => Levels = ILevels(item[2] - 1, item[2] - 1)
====
